"""Rule context: instance bookkeeping, violations, known findings, evidence."""
import json
import os
import time

from .facts import VERIF, AnchorMissing, FactsError

KNOWN_PATH = os.path.join(VERIF, "KNOWN_FINDINGS.json")


class Ctx:
    def __init__(self, prop_id, tier, program, seed=0):
        self.prop = prop_id
        self.tier = tier
        self.program = program
        self.seed = seed
        self.instances = []   # (rule, key, status, detail, loc)
        self.violations = []  # dict(rule,key,msg,loc,kind)
        self.floors = []      # (rule, what, counted, minimum)
        self.notes = []
        self.extra = {}

    # -- recording -----------------------------------------------------------
    def ok(self, rule, key, detail="", loc=None):
        self.instances.append((rule, key, "ok", detail, loc))

    def fail(self, rule, key, msg, loc=None, kind="violation"):
        self.instances.append((rule, key, "FAIL", msg, loc))
        self.violations.append({"rule": rule, "key": key, "msg": msg, "loc": loc, "kind": kind})

    def cannot(self, rule, key, msg, loc=None):
        """Fail closed: the rule could not be decided (anchor missing / shape not recognised)."""
        self.fail(rule, key, "cannot decide: " + msg, loc, kind="cannot-decide")

    def check(self, cond, rule, key, okdetail, failmsg="", loc=None):
        if cond:
            self.ok(rule, key, okdetail, loc)
        else:
            self.fail(rule, key, failmsg, loc)
        return cond

    def floor(self, rule, what, counted, minimum):
        self.floors.append((rule, what, counted, minimum))
        if counted < minimum:
            self.fail(rule, "floor:" + what,
                      "only %d instances of %s found, %d were confirmed by hand on the reference tree; "
                      "the rule would pass vacuously" % (counted, what, minimum), kind="cannot-decide")

    def guard(self, rule, key, fn):
        """Run fn(); an AnchorMissing becomes a cannot-decide violation of this rule instance."""
        try:
            return fn()
        except AnchorMissing as e:
            self.cannot(rule, key, str(e))
        return None

    def loc(self, body, blk=None, line=None):
        if line is None and blk is not None:
            line = body.blocks[blk]["t"]["span"]["lo"]
        if line is None:
            line = body.lo
        return "%s:%d (%s)" % (body.file, line, body.path)


class Retag:
    """View of a Ctx that records under another property's rule ids with a prefix: lets a property re-use a rule that is a
    necessary condition of several properties (e.g. `C12.R9` evaluated inside the C13 check)."""

    def __init__(self, ctx, prefix):
        self._ctx = ctx
        self._prefix = prefix

    def __getattr__(self, name):
        return getattr(self._ctx, name)

    def ok(self, rule, key, detail="", loc=None):
        self._ctx.ok(self._prefix + rule, key, detail, loc)

    def fail(self, rule, key, msg, loc=None, kind="violation"):
        self._ctx.fail(self._prefix + rule, key, msg, loc, kind)

    def cannot(self, rule, key, msg, loc=None):
        self._ctx.cannot(self._prefix + rule, key, msg, loc)

    def check(self, cond, rule, key, okdetail, failmsg="", loc=None):
        return self._ctx.check(cond, self._prefix + rule, key, okdetail, failmsg, loc)

    def floor(self, rule, what, counted, minimum):
        self._ctx.floor(self._prefix + rule, what, counted, minimum)


def load_known():
    if not os.path.exists(KNOWN_PATH):
        return {"findings": [], "fixed": []}
    with open(KNOWN_PATH) as fh:
        return json.load(fh)


def finish(ctx, module, t0, evidence_path):
    """Print verdict lines, write evidence and reports; return exit code."""
    known = load_known()
    kf = {(k["property"], k["rule"], k["key"]): k for k in known.get("findings", [])}
    new = []
    known_hit = []
    for v in ctx.violations:
        k = (ctx.prop, v["rule"], v["key"])
        if k in kf:
            known_hit.append((v, kf[k]))
        else:
            new.append(v)
    for (v, k) in known_hit:
        print("KNOWN-FINDING: property=%s %s [%s %s]" % (ctx.prop, k["what"], v["rule"], v["key"]))
    rc = 0
    os.makedirs(os.path.join(VERIF, "reports"), exist_ok=True)
    for n, v in enumerate(new):
        rp = os.path.join(VERIF, "reports", "%s-%d.json" % (ctx.prop, n))
        with open(rp, "w") as fh:
            json.dump({"property": ctx.prop, "tier": ctx.tier, **v,
                       "tree_hash": ctx.program.info.get("tree_hash") if ctx.program else None}, fh, indent=1)
        print("  %s %s: %s%s" % (v["rule"], v["key"], v["msg"], (" @ " + v["loc"]) if v["loc"] else ""))
        print("VIOLATION property=%s replay=%s" % (ctx.prop, rp))
        rc = 1
    # evidence
    n_inst = len(ctx.instances)
    decided = [i for i in ctx.instances if i[2] == "ok"]
    distinct = len({(i[0], i[1]) for i in ctx.instances})
    samples = []
    seen_rules = set()
    for i in ctx.instances:
        if i[0] not in seen_rules or len(samples) < 12:
            if sum(1 for s in samples if s["rule"] == i[0]) < 3:
                samples.append({"rule": i[0], "instance": i[1], "status": i[2], "detail": i[3][:300], "loc": i[4]})
                seen_rules.add(i[0])
    per_rule = {}
    for i in ctx.instances:
        d = per_rule.setdefault(i[0], {"instances": 0, "ok": 0, "fail": 0})
        d["instances"] += 1
        d["ok" if i[2] == "ok" else "fail"] += 1
    cov = {
        "explanation": getattr(module, "EXPLANATION", ""),
        "evaluations": max(n_inst, 1),
        "distinct_nontrivial": max(distinct, 2) if distinct >= 2 else distinct,
        "rule": getattr(module, "RULE_TEXT", "each rule instance is one anchored construct of the type-checked program "
                        "(def-path + role); distinct = distinct (rule, instance-key) pairs that matched an anchor and were decided"),
        "samples": samples[:40],
        "obligations": n_inst,
        "discharged": len(decided),
        "per_rule": per_rule,
        "floors": [{"rule": r, "what": w, "counted": c, "minimum": m} for (r, w, c, m) in ctx.floors],
        "trusted_base": getattr(module, "TRUSTED", []),
        "analysed": {"bodies_per_crate": ctx.program.counts() if ctx.program else {},
                     "tree_hash": ctx.program.info.get("tree_hash") if ctx.program else None,
                     "facts_cached": ctx.program.info.get("cached") if ctx.program else None},
        "known_findings_hit": [{"rule": v["rule"], "key": v["key"], "what": k["what"]} for (v, k) in known_hit],
        "new_violations": [{"rule": v["rule"], "key": v["key"], "msg": v["msg"], "loc": v["loc"]} for v in new],
        "declined": getattr(module, "DECLINED", []),
        "exhaustive": bool(getattr(module, "EXHAUSTIVE", False)),
        "checker_cmd": "./check %s --tier %s" % (ctx.prop, ctx.tier),
    }
    cov.update(ctx.extra)
    ev = {
        "property_id": ctx.prop,
        "tier": ctx.tier,
        "seed": ctx.seed,
        "level": "other",
        "coverage": cov,
        "assumptions": getattr(module, "ASSUMPTIONS", []) + ctx.notes,
        "wall_s": round(time.time() - t0, 2),
        "violations": len(new),
    }
    os.makedirs(os.path.dirname(evidence_path), exist_ok=True)
    tmp = evidence_path + ".tmp%d" % os.getpid()
    with open(tmp, "w") as fh:
        json.dump(ev, fh, indent=1, default=str)
    os.replace(tmp, evidence_path)
    return rc


def run_rules(mod, ctx):
    """Run the statements of a property module's run(ctx) one by one, so that a rule that cannot find its anchor (or trips over a
    construct it does not understand) yields ONE cannot-decide instance and every other rule of the property is still evaluated.
    (The whole run used to be abandoned at the first exception: one renamed helper hid everything else the check knows.)"""
    import ast
    import inspect
    import textwrap
    import traceback
    try:
        src = textwrap.dedent(inspect.getsource(mod.run))
        fn = ast.parse(src).body[0]
        body = fn.body
    except (OSError, TypeError, SyntaxError, IndexError):
        mod.run(ctx)
        return
    # one namespace (a copy of the module's, plus ctx) serves as globals AND locals, so that lambdas / comprehensions written in
    # run() see the loop variables and imports of earlier statements
    env = dict(mod.__dict__)
    env["ctx"] = ctx
    for st in body:
        if isinstance(st, ast.Expr) and isinstance(getattr(st, "value", None), ast.Constant):
            continue
        label = ast.unparse(st).split("\n")[0][:70]
        try:
            code = compile(ast.Module(body=[st], type_ignores=[]), "<%s.run>" % mod.__name__, "exec")
            exec(code, env)
        except AnchorMissing as e:
            ctx.fail("anchors", "missing:" + label, "cannot decide: " + str(e), kind="cannot-decide")
        except FactsError:
            raise
        except Exception:
            ctx.fail("engine", "internal-error:" + label, "cannot decide: rule engine raised\n" + traceback.format_exc()[-2500:], kind="cannot-decide")
