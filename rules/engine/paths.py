"""Path enumeration and path-restricted origin slices; fmt template decoding; write-event extraction."""
from . import terms as T
from .facts import callee_of


class PathSlicer(T.Slicer):
    """Slicer whose reaching definitions are restricted to one block trail (a concrete CFG path)."""

    def __init__(self, body, trail, program=None):
        super().__init__(body, program)
        self.trail = list(trail)
        self.pos = {}
        for i, b in enumerate(self.trail):
            self.pos.setdefault(b, []).append(i)

    def at(self, k):
        """Return a view positioned at trail index k (needed when a block repeats on the path)."""
        self._k = k
        return self

    def reaching(self, l, blk, idx):
        ds = self.defs().get(l, [])
        if not ds:
            return [], True
        # position of blk on the trail: the latest occurrence not after the current evaluation position
        ks = self.pos.get(blk)
        if not ks:
            return super().reaching(l, blk, idx)
        k = ks[-1]
        cur = getattr(self, "_k", None)
        if cur is not None:
            cands = [x for x in ks if x <= cur]
            if cands:
                k = cands[-1]
        byblk = {}
        for (b, j, full) in ds:
            byblk.setdefault(b, []).append((j, full))
        out = []
        first = True
        while k >= 0:
            b = self.trail[k]
            items = []
            for (j, full) in byblk.get(b, []):
                if j < 0:
                    # call destination: defined on the edge to the next trail block
                    if not first:
                        t = self.body.blocks[b]["t"]
                        nxt = self.trail[k + 1] if k + 1 < len(self.trail) else None
                        if t.get("target") == nxt:
                            items.append((10 ** 9, j, full))
                else:
                    if first and j >= idx:
                        continue
                    items.append((j, j, full))
            items.sort(reverse=True)
            for (_, j, full) in items:
                out.append((b, j))
                if full:
                    return out, False
            first = False
            k -= 1
        return out, True

    def local(self, l, blk, idx, depth=0):
        # no memo across positions: keys must include the trail position
        saved = self._memo
        self._memo = {}
        try:
            return super().local(l, blk, idx, depth)
        finally:
            self._memo = saved


class VariantState:
    """Forward tracking, along ONE block path, of locals whose enum variant / boolean / integer value is fixed by the path so far.

    It exists to discard correlated-branch paths that no execution takes: `let r = if c { Some(x) } else { None }; match r {..}`,
    `helper()?` after the helper's MIR was inlined (its `return Err(e)` reaches the caller's `?`), `flag = true; .. if flag`.
    Only facts that hold on every execution of the path are recorded:
      agg of an enum variant / constant / copy or move of a tracked local           -> the value
      Try::branch(x)        x: Ok|Some -> Continue,  x: Err|None -> Break             (core::ops::Try for Result and Option)
      FromResidual::from_residual(..)  -> Err (Result destination) / None (Option destination)
      discriminant(x), Not(x) of a tracked value
    A local whose address is taken mutably, or that is written in any other way, is forgotten."""
    BRANCH = {"Ok": "Continue", "Some": "Continue", "Err": "Break", "None": "Break"}

    def __init__(self, body):
        self.body = body
        self.val = {}
        self.escaped = set()
        self.pval = {}          # (local, projection key) -> variant name learned from a switch edge the path took

    def copy(self):
        n = VariantState(self.body)
        n.val = dict(self.val)
        n.escaped = set(self.escaped)
        n.pval = dict(self.pval)
        return n

    @staticmethod
    def _pkey(q):
        import json as _json
        return (q["l"], _json.dumps(q["pr"], sort_keys=True))

    def _forget(self, l):
        for k in [k for k in self.pval if k[0] == l]:
            del self.pval[k]

    def learn(self, blk, t, succ):
        """the path leaves switch `t` (terminating block blk) through succ: when the switch tests the discriminant of a place, that place
        holds the variant of the edge - a later `match` on the same, unmodified place follows suit"""
        if t["k"] != "switch":
            return
        d = t["discr"].get("m") or t["discr"].get("c")
        if d is None or d["pr"]:
            return
        src = None
        for st in self.body.blocks[blk]["s"]:
            if st["k"] == "assign" and st["p"]["l"] == d["l"] and not st["p"]["pr"]:
                src = st["r"] if st["r"]["k"] == "discr" else None
        if src is None or not src.get("variants"):
            return
        vals = [v for v, b in t["arms"] if b == succ]
        name = None
        if len(vals) == 1 and succ != t["otherwise"]:
            name = dict((dv, nm) for dv, nm in src["variants"]).get(vals[0])
        elif succ == t["otherwise"] and not vals:
            rest = [nm for dv, nm in src["variants"] if dv not in [v for v, _b in t["arms"]]]
            if len(rest) == 1:
                name = rest[0]
        q = src["p"]
        if name is None or q["l"] in self.escaped:
            return
        if not q["pr"]:
            self.val[q["l"]] = ("variant", name)
        else:
            self.pval[self._pkey(q)] = name

    def _op(self, o):
        p = o.get("c") or o.get("m")
        if p is not None:
            if not p["pr"]:
                return self.val.get(p["l"])
            return None
        k = o.get("k")
        if isinstance(k, dict):
            v = k.get("v")
            if isinstance(v, dict):
                if "bool" in v:
                    return ("bool", bool(v["bool"]))
                if "int" in v and isinstance(v["int"], int):
                    return ("int", v["int"])
        return None

    def _set(self, l, v):
        if v is None or l in self.escaped:
            self.val.pop(l, None)
        else:
            self.val[l] = v

    def stmt(self, s):
        p = s["p"]
        l = p["l"]
        if not (p["pr"] and p["pr"][0] == "*"):
            self._forget(l)
        if s["k"] == "setdiscr":
            self.val.pop(l, None)
            return
        r = s["r"]
        if r["k"] in ("ref", "rawptr") and r.get("bk") != "shared" and r.get("bk") != "fake":
            q = r["p"]
            if not q["pr"] or q["pr"][0] != "*":
                self.escaped.add(q["l"])
                self.val.pop(q["l"], None)
                self._forget(q["l"])
        if p["pr"]:
            # a write into a field of the active variant keeps the variant; a write through a pointer does not concern the local
            if p["pr"][0] != "*" and not (isinstance(p["pr"][0], dict) and "dc" in p["pr"][0]):
                cur = self.val.get(l)
                if cur is not None and cur[0] != "variant":
                    self.val.pop(l, None)
            return
        v = None
        if r["k"] == "use":
            v = self._op(r["o"])
        elif r["k"] == "agg" and r.get("ak") == "adt" and r.get("variant") is not None and "vi" in r:
            v = ("variant", r["variant"])
        elif r["k"] == "discr":
            q = r["p"]
            cur = self.val.get(q["l"]) if not q["pr"] else None
            if cur is None and q["pr"] and self._pkey(q) in self.pval:
                cur = ("variant", self.pval[self._pkey(q)])
            if cur is not None and cur[0] == "variant" and r.get("variants"):
                for d, name in r["variants"]:
                    if name == cur[1]:
                        v = ("int", d)
        elif r["k"] == "unop" and r.get("op") == "Not":
            cur = self._op(r["o"])
            if cur is not None and cur[0] == "bool":
                v = ("bool", not cur[1])
        elif r["k"] == "cast":
            cur = self._op(r["o"])
            if cur is not None and cur[0] == "int" and r.get("ck", "").startswith("IntToInt"):
                v = cur
        self._set(l, v)

    def call(self, t):
        d = t["dest"]
        name = callee_of(t)
        v = None
        if not d["pr"]:
            if name.endswith("::branch") and "Try" in name and t["args"]:
                cur = self._op(t["args"][0])
                if cur is not None and cur[0] == "variant" and cur[1] in self.BRANCH:
                    v = ("variant", self.BRANCH[cur[1]])
            elif name.endswith("::from_residual") and "FromResidual" in name:
                ty = self.body.locals[d["l"]]["ty"]
                if ty.startswith(("std::result::Result<", "core::result::Result<", "Result<")):
                    v = ("variant", "Err")
                elif ty.startswith(("std::option::Option<", "core::option::Option<", "Option<")):
                    v = ("variant", "None")
            self._set(d["l"], v)
        if not (d["pr"] and d["pr"][0] == "*"):
            self._forget(d["l"])
        # arguments moved into a call are dead; locals lent mutably were marked escaped at the borrow
        for a in t["args"]:
            if "m" in a and not a["m"]["pr"]:
                pass

    def edge_ok(self, t, succ):
        """May the path leave a switch terminator through `succ`?"""
        cur = self._op(t["discr"])
        if cur is None or cur[0] not in ("int", "bool"):
            return True
        x = int(cur[1]) if cur[0] == "bool" else cur[1]
        tgt = None
        for v, b in t["arms"]:
            if v == x:
                tgt = b
        if tgt is None:
            tgt = t["otherwise"]
        return succ == tgt

    def block(self, b):
        blk = self.body.blocks[b]
        for s in blk["s"]:
            self.stmt(s)
        t = blk["t"]
        if t["k"] == "call":
            self.call(t)


def enumerate_paths(body, start=0, max_paths=2000, stop=None, loop_once=True, prune=True):
    """Block paths from start to a return (or to a block in `stop`); a block is entered at most twice (once with loop_once=False).
    With `prune` (default) an edge that contradicts a value fixed earlier on the same path (VariantState) is not taken."""
    out = []
    st0 = None
    if prune:
        st0 = VariantState(body)
        st0.block(start)
    st = [(start, [start], st0)]
    while st:
        b, trail, vs = st.pop()
        if len(out) >= max_paths:
            return out, True
        t = body.blocks[b]["t"]
        if t["k"] == "return" or (stop and b in stop and len(trail) > 1):
            out.append(trail)
            continue
        ss = body.succs(b)
        if not ss:
            continue
        for s in reversed(ss):
            if trail.count(s) >= (2 if loop_once else 1):
                continue
            nvs = None
            if vs is not None:
                if t["k"] == "switch" and not vs.edge_ok(t, s):
                    continue
                nvs = vs.copy() if len(ss) > 1 else vs
                nvs.learn(b, t, s)
                nvs.block(s)
            st.append((s, trail + [s], nvs))
    return out, False


# ---------------------------------------------------------------------------
# core::fmt template decoding (encoding documented in library/core/src/fmt/mod.rs of the pinned nightly)


class TemplateError(Exception):
    pass


def decode_template(b):
    """bytes -> list of ('lit', str) | ('hole', arg_index, flags_present)"""
    out = []
    i = 0
    arg = 0
    n = len(b)
    while True:
        if i >= n:
            raise TemplateError("template not terminated")
        x = b[i]
        i += 1
        if x == 0:
            break
        if x < 0x80:
            out.append(("lit", b[i:i + x].decode("utf-8", "replace")))
            i += x
        elif x == 0x80:
            ln = b[i] | (b[i + 1] << 8)
            i += 2
            out.append(("lit", b[i:i + ln].decode("utf-8", "replace")))
            i += ln
        elif x >= 0xC0:
            opts = {}
            if x & 1:
                opts["flags"] = int.from_bytes(b[i:i + 4], "little")
                i += 4
            if x & 2:
                opts["width"] = int.from_bytes(b[i:i + 2], "little")
                i += 2
            if x & 4:
                opts["precision"] = int.from_bytes(b[i:i + 2], "little")
                i += 2
            if x & 8:
                arg = int.from_bytes(b[i:i + 2], "little")
                i += 2
            out.append(("hole", arg, opts))
            arg += 1
        else:
            raise TemplateError("bad template byte 0x%02x" % x)
    # merge adjacent literals
    merged = []
    for p in out:
        if p[0] == "lit" and merged and merged[-1][0] == "lit":
            merged[-1] = ("lit", merged[-1][1] + p[1])
        else:
            merged.append(p)
    return merged


def arguments_pieces(term):
    """term of a `fmt::Arguments` value -> pieces [('lit', s) | ('hole', arg_term, kind)] or None."""
    t = T.strip(term)
    if t[0] != "call":
        return None
    callee = t[1]
    if "Arguments" in callee and callee.endswith("::from_str"):
        c = T.strip(t[2][0])
        if c[0] == "const" and isinstance(c[1], str):
            return [("lit", c[1])]
        return None
    if "Arguments" in callee and (callee.endswith("::new") or "::new::<" in callee):
        tpl = T.strip(t[2][0])
        if tpl[0] != "const" or not isinstance(tpl[1], (bytes, bytearray)):
            return None
        pieces = decode_template(bytes(tpl[1]))
        args = T.strip(t[2][1]) if len(t[2]) > 1 else None
        argl = []
        if args is not None and args[0] == "agg" and args[1] == "array":
            argl = list(args[4])
        out = []
        for p in pieces:
            if p[0] == "lit":
                out.append(p)
            else:
                a = argl[p[1]] if p[1] < len(argl) else None
                kind = "?"
                val = None
                if a is not None:
                    a = T.strip(a)
                    if a[0] == "call" and "Argument" in a[1]:
                        kind = a[1].rsplit("::", 1)[-1]  # new_display / new_debug / ...
                        val = T.strip(a[2][0]) if a[2] else None
                out.append(("hole", val, kind, p[2]))
        return out
    return None


def write_events(body, trail, program=None):
    """Formatter write events along one path: list of ('lit', s) | ('hole', term, kind) | ('dyn', term) | ('delegate', callee, term)."""
    ps = PathSlicer(body, trail, program)
    ev = []
    for k, b in enumerate(trail):
        t = body.blocks[b]["t"]
        if t["k"] != "call":
            continue
        if k + 1 < len(trail) and t.get("target") != trail[k + 1]:
            continue
        name = callee_of(t)
        n = len(body.blocks[b]["s"])
        ps.at(k)
        if name.endswith("Formatter::<'a>::write_str") or name.endswith("::write_str"):
            a = T.strip(ps.operand(t["args"][1], b, n))
            if a[0] == "const" and isinstance(a[1], str):
                ev.append(("lit", a[1]))
            else:
                ev.append(("dyn", a))
        elif name.endswith("::write_fmt"):
            a = ps.operand(t["args"][1], b, n)
            pcs = arguments_pieces(a)
            if pcs is None:
                ev.append(("dyn", T.strip(a)))
            else:
                ev.extend(pcs)
        elif name.endswith("::write_char"):
            a = T.strip(ps.operand(t["args"][1], b, n))
            ev.append(("lit", a[1]) if a[0] == "const" else ("dyn", a))
        elif name.endswith("::fmt") and len(t["args"]) == 2:
            a = T.strip(ps.operand(t["args"][0], b, n))
            ev.append(("delegate", name, a))
    # merge adjacent literals
    merged = []
    for p in ev:
        if p[0] == "lit" and merged and merged[-1][0] == "lit":
            merged[-1] = ("lit", merged[-1][1] + p[1])
        else:
            merged.append(p)
    return merged



def contradicts_constants(conds):
    """a path that takes the False edge of a constant-true condition (or vice versa) is infeasible"""
    for c in conds:
        if c[0] == "bool":
            t = T.strip(c[1])
            if t[0] == "const" and isinstance(t[1], bool) and t[1] != c[2]:
                return True
    return False


def _read_locals(x, out):
    if isinstance(x, dict):
        if "l" in x and "pr" in x and isinstance(x["l"], int):
            out.add(x["l"])
            _read_locals(x["pr"], out)
            return
        for k, v in x.items():
            if k != "span":
                _read_locals(v, out)
    elif isinstance(x, (list, tuple)):
        for y in x:
            _read_locals(y, out)


def deciding_blocks(body, S, blk, stmt=None, limit=60):
    """Branch blocks that decide what happens at `blk`: the branches it is control dependent on, and - for every value read there (or
    tested by one of those branches) that was merged from several assignments (`let q = if c {A} else {B}; .. f(q)`) - the branches
    that selected the assignment.  `stmt`: index of the statement of interest in blk (None: its terminator)."""
    from . import cfg as C
    dec = {a for (a, _s) in C.transitive_controls(body, blk)}
    deep, shallow = set(), set()
    b_ = body.blocks[blk]
    if stmt is None or stmt == -1:
        _read_locals({k: v for k, v in b_["t"].items() if k in ("args", "discr", "func")}, deep)
    else:
        _read_locals(b_["s"][stmt].get("r"), deep)
    seen_l = set()
    seen_b = set()
    while (deep or shallow or dec - seen_b) and len(seen_l) < limit:
        for d in list(dec - seen_b):
            seen_b.add(d)
            t = body.blocks[d]["t"]
            if t["k"] == "switch":
                # the value a deciding branch tests: followed through copies only (`match merged_option {..}`), not through arithmetic
                _read_locals(t["discr"], shallow)
        if deep:
            l, is_deep = deep.pop(), True
        elif shallow:
            l, is_deep = shallow.pop(), False
        else:
            continue
        if (l, is_deep) in seen_l or (l, True) in seen_l:
            continue
        seen_l.add((l, is_deep))
        defs = S.defs().get(l, [])
        multi = len([1 for d in defs if d[2]]) >= 2
        for (bi, bj, full) in defs:
            if multi:
                for (a, _s) in C.transitive_controls(body, bi):
                    dec.add(a)
            blk_ = body.blocks[bi]
            if bj >= 0:
                r = blk_["s"][bj].get("r") or {}
                if is_deep:
                    _read_locals(r, deep)
                elif r.get("k") in ("use", "discr", "ref", "cast"):
                    _read_locals(r, shallow)
            elif bj == -1 and is_deep:
                _read_locals(blk_["t"].get("args"), deep)
    return dec


def path_conds(program, body, S, trail):
    """Canonical branch conditions taken along one block path (see q.canon_cond).  Values are resolved along the path itself
    (PathSlicer), so a local assigned differently on two branches has the value of the branch the path took."""
    from . import q as Q
    ps = PathSlicer(body, trail, program)
    out = []
    for k in range(len(trail) - 1):
        x, y = trail[k], trail[k + 1]
        if body.blocks[x]["t"]["k"] != "switch":
            continue
        ps.at(k)
        be = T.branch_edges(body, ps, x)
        if be is None:
            continue
        atom, labels = be
        if y in labels:
            out.extend(Q.canon_cond(program, atom, labels[y], x))
    return out
