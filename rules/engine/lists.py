"""How a function builds the list it returns - one description for the two spellings

    let mut v = Vec::new(); for x in xs { if p(x) { v.push(f(x)) } }  v            ("loop")
    xs.iter().filter(p).map(f).collect()                                            ("chain")

so that rules about the elements (where they come from, how many per item, in which order) do not depend on the spelling."""
from . import cfg as C
from . import q as Q
from . import tables as TB
from . import terms as T
from .facts import callee_of

ORDER_KEEPING = ("::iter", "::into_iter", "::map", "::filter", "::filter_map", "::collect", "::cloned", "::copied", "::by_ref",
                 "::deref", "::as_slice", "::as_ref", "::borrow", "::enumerate", "::inspect", "::flat_map", "::flatten", "::from_iter")
REORDERING = ("::rev", "::sort", "sort_by", "sort_unstable", "::reverse", "::dedup", "::swap", "::rotate_left", "::rotate_right", "::retain",
              "::skip", "::take", "::step_by", "::chain", "::zip", "::cycle", "::skip_while", "::take_while", "::last", "::nth", "::min", "::max",
              "::rfold", "::rfind")


class ListBuild:
    def __init__(self, form):
        self.form = form
        self.elements = []      # (body, block, value term with captured variables resolved)
        self.iterators = []     # callee names: `next` implementations (loop) / adapter calls of the chain (chain)
        self.filters = []       # (call term, [conds]) of filter predicates (chain)
        self.exclusive = True   # at most one element per iterated item
        self.witness = None

    @property
    def forward(self):
        if self.form == "loop":
            return bool(self.iterators) and all("slice::Iter" in n or "vec::IntoIter" in n for n in self.iterators)
        return bool(self.iterators) and not any(n.endswith(REORDERING) or any(k in n for k in ("hash_map", "HashMap", "HashSet", "BTree")) for n in self.iterators)


def _closure_elements(P, ct, lb):
    ct = T.strip(ct)
    if ct[0] == "agg" and ct[1] == "closure" and ct[2] in P.bodies:
        cb = P.bodies[ct[2]]
        for (i, j, t, _c) in TB.return_sites(cb, P):
            lb.elements.append((cb, i, T.expand_upvars(P, cb, t, depth=6)))
        return True
    if ct[0] == "const" and isinstance(ct[1], tuple) and ct[1] and ct[1][0] == "fn":
        lb.elements.append((None, None, ("call", ct[1][1], (("payload", "map", (), 1),), None)))
        return True
    return False


def list_build(P, body):
    """ListBuild of the Vec a function returns, or None when neither spelling is recognised."""
    S = T.Slicer(body, P)
    rets = TB.return_sites(body, P)
    if len(rets) != 1:
        return None
    (rb, rj, rt, _c) = rets[0]
    rt = T.strip(rt)
    if rt[0] == "call" and rt[1].endswith(("::collect", "::from_iter")):
        lb = ListBuild("chain")
        chain = [c for c in T.calls_in(rt)]
        # the adapter spine: follow first arguments from collect downwards
        x = rt
        spine = []
        while x[0] == "call" and x[2]:
            spine.append(x)
            x = T.strip(x[2][0])
            while x[0] in ("ref", "deref"):
                x = T.strip(x[2] if x[0] == "ref" else x[1])
        lb.iterators = [c[1] for c in spine]
        maps = [c for c in spine if c[1].endswith(("::map", "::filter_map", "::flat_map"))]
        if len(maps) != 1 or not _closure_elements(P, maps[0][2][-1], lb):
            return None
        if maps[0][1].endswith("::flat_map"):
            lb.exclusive = False
        for c in spine:
            if c[1].endswith("::filter"):
                for cs in Q.closure_result_conds(P, c[2][-1]):
                    lb.filters.append((c, cs))
        return lb
    # loop form: the returned local is grown by pushes
    if rj < 0:
        return None
    st = body.blocks[rb]["s"][rj]
    if st["r"]["k"] != "use":
        return None
    p = st["r"]["o"].get("m") or st["r"]["o"].get("c")
    if p is None or p["pr"]:
        return None
    grown = Q.grown_values(P, body, S, p["l"])
    if not grown:
        return None
    lb = ListBuild("loop")
    for (blk, name, v) in grown:
        lb.elements.append((body, blk, v))
    lb.iterators = [callee_of(t) for _, t in body.calls() if callee_of(t).endswith("::next")]
    loops = C.loops(body)
    pushes = [blk for (blk, _, _) in grown]
    for h, blks in loops.items():
        inl = [q for q in pushes if q in blks]
        for q in inl:
            seen, todo = set(), list(body.succs(q))
            while todo:
                x = todo.pop()
                if x in seen or x == h or x not in blks:
                    continue
                seen.add(x)
                if x in inl and x != q:
                    lb.exclusive = False
                    lb.witness = (q, x)
                    break
                todo.extend(body.succs(x))
    return lb


def with_callables(P, body):
    """body, the closures it creates and the workspace functions it hands to a higher-order call as a value
    (`.map(Self::entry)` runs `entry` exactly as `.map(|p| Self::entry(p))` would), transitively"""
    out = [body]
    k = 0
    while k < len(out):
        cur = out[k]
        for _, _, s in cur.iter_stmts():
            if s["k"] == "assign" and s["r"]["k"] == "agg" and s["r"].get("ak") == "closure":
                cb = P.bodies.get(s["r"]["path"])
                if cb is not None and cb not in out:
                    out.append(cb)
        for _, t in cur.calls():
            for a in t["args"]:
                if "k" in a:
                    cv = T.const_value(a["k"])
                    if isinstance(cv[1], tuple) and cv[1] and cv[1][0] == "fn" and cv[1][1] in P.bodies and P.bodies[cv[1][1]] not in out:
                        out.append(P.bodies[cv[1][1]])
        k += 1
    return out


def with_closures(P, body):
    """body and the closures created (transitively) inside it (including those of helpers inlined into it)"""
    out = [body]
    k = 0
    while k < len(out):
        for _, _, s in out[k].iter_stmts():
            if s["k"] == "assign" and s["r"]["k"] == "agg" and s["r"].get("ak") == "closure":
                cb = P.bodies.get(s["r"]["path"])
                if cb is not None and cb not in out:
                    out.append(cb)
        k += 1
    return out
