"""Length / interval reasoning for panic-freedom obligations (C01, P7).

Instead of a fix-point over locals, facts are attached to *origin terms*: the conditions that hold on every path to
an obligation (dominating branch edges, see terms.dom_conds) are translated into difference constraints
    X - Y <= k          X, Y in { ZERO, ('len', slice-identity), ('t', term) }
and closed under transitivity (Bellman-Ford on a tiny graph).  Structural facts of the terms themselves
(x & m <= m, min(a,b) <= a, Range::next payload < end, position/find payload < len, widening casts, ...) are added.
An obligation `index < len`, `end <= len`, `a >= b`, `d != 0` is discharged when the closure implies it.

Soundness notes: slices satisfy len <= isize::MAX, so `len >= saturating_add(x,c)` implies x + c did not saturate;
saturating_add(x,c) <= x + c always.  A fact about a container is dropped when a call that receives `&mut` of that
container (or of its owner) can execute between the condition and the obligation.
"""
from . import cfg as C
from . import q as Q
from . import terms as T

ZERO = ("zero",)
INF = float("inf")
UMAX = {"u8": 255, "u16": 65535, "u32": 2 ** 32 - 1, "u64": 2 ** 64 - 1, "usize": 2 ** 64 - 1, "bool": 1, "char": 0x10FFFF}
LEN_CALLS = ("::len",)


def sid(t):
    """canonical identity of a slice/vector/string value"""
    return T.canon_value(t)


def len_arg(t):
    """If t is a length expression return the container term, else None."""
    t = T.strip(t) if t and t[0] in ("ref", "deref") else t
    if t[0] == "unop" and t[1] == "PtrMetadata":
        return t[2]
    if t[0] == "call" and t[1].endswith("::len") and len(t[2]) == 1 and any(k in t[1] for k in ("[T]", "Vec", "str", "String", "VecDeque", "slice")):
        return t[2][0]
    return None


class Graph:
    def __init__(self):
        self.edges = {}   # (y -> x) weight k  meaning x - y <= k
        self.nonzero = set()
        self.notes = []

    def add(self, x, y, k, why=""):
        """x - y <= k"""
        key = (y, x)
        if key not in self.edges or self.edges[key] > k:
            self.edges[key] = k

    def le(self, x, y, k):
        """does the closure imply x - y <= k ?"""
        if x == y:
            return 0 <= k
        nodes = set()
        for (a, b) in self.edges:
            nodes.add(a)
            nodes.add(b)
        nodes.add(x)
        nodes.add(y)
        dist = {n: INF for n in nodes}
        dist[y] = 0
        for _ in range(len(nodes)):
            ch = False
            for (a, b), w in self.edges.items():
                if dist[a] + w < dist[b]:
                    dist[b] = dist[a] + w
                    ch = True
            if not ch:
                break
        return dist[x] <= k


class Ctx:
    """Per-body analysis context."""

    def __init__(self, program, body):
        self.P = program
        self.b = body
        self.S = T.Slicer(body, program)
        self._dc = {}

    # -- linear forms ---------------------------------------------------------
    def lin(self, t, g, depth=0):
        """(node, offset): value(t) == node + offset (exactly, or as documented for saturating ops). Adds structural facts to g."""
        t0 = t
        t = T.strip(t) if t[0] in ("ref", "deref") else t
        if depth > 12:
            return ("t", t), 0
        k = T.fold_int(t)
        if k is not None:
            return ZERO, k
        la = len_arg(t)
        if la is not None:
            node = ("len", sid(la))
            g.add(ZERO, node, 0)  # len >= 0
            self.struct_len(la, node, g, depth + 1)
            return node, 0
        if t[0] == "call":
            c = t[1]
            if (c.endswith("::saturating_add") or c.endswith("::wrapping_add") and False) and len(t[2]) == 2:
                kk = T.fold_int(t[2][1])
                if kk is not None:
                    n, o = self.lin(t[2][0], g, depth + 1)
                    return n, o + kk
                kk = T.fold_int(t[2][0])
                if kk is not None:
                    n, o = self.lin(t[2][1], g, depth + 1)
                    return n, o + kk
            if c.endswith("::unwrap_or") and len(t[2]) == 2:
                inner = T.strip(t[2][0])
                if inner[0] == "call" and inner[1].endswith("::checked_add"):
                    pass
        if t[0] == "binop" and t[1] in ("Add", "AddUnchecked"):
            kk = T.fold_int(t[3])
            if kk is not None:
                n, o = self.lin(t[2], g, depth + 1)
                return n, o + kk
        if t[0] == "field" and t[2] in (0, "0") and t[1][0] == "binop" and t[1][1] == "AddWithOverflow":
            kk = T.fold_int(t[1][3])
            if kk is not None:
                n, o = self.lin(t[1][2], g, depth + 1)
                return n, o + kk
        # payload of a successful integer conversion: (usize::try_from(x) as Ok).0  /  (Try::branch(..) as Continue).0
        if t[0] == "field" and t[1][0] == "downcast" and t[1][2] in ("Ok", "Continue", "Some"):
            inner = T.strip(t[1][1])
            while inner[0] == "call" and inner[1].endswith(("::branch", "::ok", "::map_err", "::ok_or", "::ok_or_else")) and inner[2]:
                inner = T.strip(inner[2][0])
            # a merged Result / Option of which exactly one alternative carries a value (`match r { Ok(v) => Ok(v), Err(_) => Err(e) }`,
            # what `r.map_err(|_| e)` stands for): the payload is that alternative's
            if inner[0] == "phi":
                alts = [T.strip(a) for a in inner[1]]
                if all(a[0] == "agg" and a[3] in ("Ok", "Some", "Err", "None") for a in alts):
                    good = [a for a in alts if a[3] in ("Ok", "Some") and len(a[4]) == 1]
                    if len(good) == 1:
                        return self.lin(good[0][4][0], g, depth + 1)
            if inner[0] == "call" and inner[1].endswith("::try_from") and inner[2]:
                return self.lin(inner[2][0], g, depth + 1)
            if inner[0] == "call" and (inner[1].endswith("::checked_add")) and len(inner[2]) == 2:
                kk = T.fold_int(inner[2][1])
                if kk is not None:
                    n, o = self.lin(inner[2][0], g, depth + 1)
                    return n, o + kk
        if t[0] == "cast" and t[1] in ("IntToInt",):
            frm = t[4] if len(t) > 4 else None
            to = t[3]
            if frm in UMAX and to in UMAX and UMAX[frm] <= UMAX[to]:
                n, o = self.lin(t[2], g, depth + 1)
                if frm in UMAX:
                    g.add(n, ZERO, UMAX[frm] - o)
                return n, o
        node = ("t", t)
        self.struct(t, node, g, depth + 1)
        return node, 0

    def struct_len(self, container, node, g, depth):
        """structural facts about len(container)"""
        g.add(ZERO, node, 0)  # len >= 0
        c = T.strip(container)
        # sub-slice  &x[a..]  /  &x[..b] / &x[a..b]: len relations
        if c[0] == "call" and c[1].endswith("::index") and len(c[2]) == 2:
            r = T.strip(c[2][1])
            base = ("len", sid(c[2][0]))
            if r[0] == "agg" and r[1] == "adt" and r[2]:
                if r[2].endswith("ops::RangeFrom"):
                    # len(x[a..]) = len(x) - a
                    n, o = self.lin(r[4][0], g, depth + 1)
                    if n == ZERO:
                        g.add(node, base, -o)
                        g.add(base, node, o)
                    else:
                        g.add(node, base, 0)
                elif r[2].endswith("ops::RangeTo"):
                    n, o = self.lin(r[4][0], g, depth + 1)
                    g.add(node, n, o)
                    g.add(n, node, -o)
                elif r[2].endswith("ops::Range") and len(r[4]) == 2:
                    a, b = T.fold_int(r[4][0]), T.fold_int(r[4][1])
                    if a is not None and b is not None:
                        g.add(node, ZERO, b - a)
                        g.add(ZERO, node, -(b - a))
        # halves of  s.split_at(mid)  (the call itself is an obligation mid <= len(s), checked at its own site):
        # len(.0) == mid, len(.1) == len(s) - mid
        if c[0] == "field" and c[2] in (0, 1):
            sp = T.strip(c[1])
            if sp[0] == "call" and sp[1].endswith("::split_at") and "[T]" in sp[1] and len(sp[2]) == 2:
                base = ("len", sid(sp[2][0]))
                n, o = self.lin(sp[2][1], g, depth + 1)
                if c[2] == 0:
                    g.add(node, n, o)
                    g.add(n, node, -o)
                elif n == ZERO:
                    g.add(node, base, -o)
                    g.add(base, node, o)
                else:
                    g.add(node, base, 0)
        # chunks_exact(k) item
        if c[0] in ("field", "downcast"):
            for x in T.walk(c):
                if x[0] == "call" and x[1].endswith("ChunksExact<'a, T> as std::iter::Iterator>::next"):
                    for y in T.walk(x):
                        if y[0] == "call" and y[1].endswith("::chunks_exact") and len(y[2]) == 2:
                            k = T.fold_int(y[2][1])
                            if k is not None:
                                g.add(node, ZERO, k)
                                g.add(ZERO, node, -k)
        # array initialiser `[x; N]`
        if c[0] == "repeat":
            import re as _re
            m = _re.match(r"^\s*(\d+)", str(c[2]))
            if m:
                g.add(node, ZERO, int(m.group(1)))
                g.add(ZERO, node, -int(m.group(1)))
        # an array that was filled by copy_from_slice has the length of what was copied (the call panics otherwise)
        if c[0] == "call" and c[1].endswith(("::copy_from_slice", "::clone_from_slice")) and len(c[2]) == 2:
            n2 = ("len", sid(c[2][1]))
            self.struct_len(c[2][1], n2, g, depth + 1)
            g.add(node, n2, 0)
            g.add(n2, node, 0)
        # constant byte strings / arrays
        if c[0] == "const" and isinstance(c[1], (bytes, bytearray, str)):
            n = len(c[1]) if isinstance(c[1], (bytes, bytearray)) else len(c[1].encode())
            g.add(node, ZERO, n)
            g.add(ZERO, node, -n)
        # type-level array length: &[T; N] coerced
        if c[0] == "agg" and c[1] == "array":
            n = len(c[4])
            g.add(node, ZERO, n)
            g.add(ZERO, node, -n)

    def struct(self, t, node, g, depth):
        if depth > 14:
            return
        if t[0] == "binop":
            op = t[1]
            if op == "BitAnd":
                for side in (t[2], t[3]):
                    m = T.fold_int(side)
                    if m is not None and m >= 0:
                        g.add(node, ZERO, m)
                g.add(ZERO, node, 0)
            elif op == "Shr":
                k = T.fold_int(t[3])
                n, o = self.lin(t[2], g, depth + 1)
                # x >> k <= ub(x) >> k : use type bound from a cast if visible
                ub = self._type_ub(t[2])
                if k is not None and ub is not None:
                    g.add(node, ZERO, ub >> k)
            elif op in ("Rem",):
                n, o = self.lin(t[3], g, depth + 1)
                g.add(node, n, o - 1)
            elif op in ("Sub", "SubUnchecked"):
                n, o = self.lin(t[2], g, depth + 1)
                g.add(node, n, o)
            elif op in ("Div",):
                n, o = self.lin(t[2], g, depth + 1)
                g.add(node, n, o)
            g.add(ZERO, node, 0)
        elif t[0] == "field" and t[2] in (0, "0") and t[1][0] == "binop" and t[1][1].endswith("WithOverflow"):
            inner = t[1]
            if inner[1].startswith("Sub"):
                n, o = self.lin(inner[2], g, depth + 1)
                g.add(node, n, o)
        elif t[0] == "call":
            c = t[1]
            a = t[2]
            if (c.endswith("::min") or c.endswith("cmp::min")) and len(a) == 2:
                for x in a:
                    n, o = self.lin(x, g, depth + 1)
                    g.add(node, n, o)
            elif c.endswith("::saturating_sub") and len(a) == 2:
                n, o = self.lin(a[0], g, depth + 1)
                k = T.fold_int(a[1])
                g.add(node, n, o)            # satsub(x,c) <= x
                g.add(ZERO, node, 0)
                if k is not None:
                    self._satsub[node] = (n, o, k)
            elif c.endswith("::saturating_add") and len(a) == 2:
                # satadd(x, y) >= x and >= y
                for x in a:
                    n, o = self.lin(x, g, depth + 1)
                    g.add(n, node, -o)
                g.add(ZERO, node, 0)
            elif c.endswith("::saturating_mul"):
                g.add(ZERO, node, 0)
            elif c.endswith("::unwrap_or") and len(a) == 2:
                inner = T.strip(a[0])
                d = T.fold_int(a[1])
                if inner[0] == "call" and inner[1].endswith("::checked_rem") and d == 0:
                    n, o = self.lin(inner[2][1], g, depth + 1)
                    # x % n < n  when n > 0 ; when n == 0 the value is 0 <= n - ... cannot conclude; record conditional
                    self._rem_bound[node] = (n, o)
        elif t[0] in ("field", "downcast"):
            # payload of Option::Some produced by Range::next / position / find / iterators over enumerate
            self._payload(t, node, g, depth)
        if t[0] == "cast" and len(t) > 4 and t[4] in UMAX:
            g.add(node, ZERO, UMAX[t[4]])
        ub = self._type_ub(t)
        if ub is not None:
            g.add(node, ZERO, ub)
        g.add(ZERO, node, 0) if self._unsigned(t) else None

    _satsub = {}
    _rem_bound = {}

    def _unsigned(self, t):
        return True

    def _type_ub(self, t):
        t = T.strip(t)
        if t[0] == "cast" and len(t) > 4 and t[4] in UMAX and t[1] == "IntToInt":
            return UMAX[t[4]]
        if t[0] == "index" or t[0] == "cindex":
            return None
        return None

    def _payload(self, t, node, g, depth):
        # (X as Some).0  where X = call ...
        x = t
        path = []
        while x[0] in ("field", "downcast"):
            path.append(x)
            x = x[1]
        x = T.strip(x)
        if x[0] != "call":
            return
        c = x[1]
        idxfield = [p[2] for p in path if p[0] == "field"]
        if c.endswith("Range<A>>::next") or c.endswith("ops::Range<T> as std::iter::Iterator>::next"):
            rng = None
            for y in T.walk(x):
                if y[0] == "agg" and y[1] == "adt" and (y[2] or "").endswith("ops::Range") and len(y[4]) == 2:
                    rng = y
                    break
            if rng is not None:
                hn, ho = self.lin(rng[4][1], g, depth + 1)
                ln, lo = self.lin(rng[4][0], g, depth + 1)
                g.add(node, hn, ho - 1)      # i <= hi - 1
                g.add(ln, node, -lo)          # lo <= i
                if hn in self._satsub:
                    n, o, k = self._satsub[hn]
                    g.add(node, n, o + ho - k - 1)   # i < satsub(x,k)  =>  i <= x - k - 1
        elif c.endswith("Iterator::position") or c.endswith("::position") or (c.endswith("::find") and "str" in c) or c.endswith("::rposition") or c.endswith("::rfind"):
            src = None
            for a in x[2][:1]:
                src = a
            if src is not None:
                # the searched container: first slice::iter / direct str receiver
                cont = None
                direct = "str" in c and c.endswith(("::find", "::rfind"))
                for y in ([] if direct else T.walk(src)):
                    if y[0] == "call" and (y[1].endswith("::iter") or y[1].endswith("::windows") or y[1].endswith("::chars") or y[1].endswith("::bytes")) and y[2]:
                        cont = y[2][0]
                        break
                if cont is None:
                    cont = src
                ln = ("len", sid(cont))
                g.add(node, ln, -1)
        elif c.endswith("Enumerate<I> as std::iter::Iterator>::next") and idxfield and idxfield[-1] in (0, "0"):
            # index of enumerate over slice::iter(S): idx < len(S)
            for y in T.walk(x):
                if y[0] == "call" and y[1].endswith("::iter") and y[2] and not y[1].endswith("chunks_exact"):
                    ln = ("len", sid(y[2][0]))
                    g.add(node, ln, -1)
                    break

    # -- conditions -----------------------------------------------------------
    def conds_at(self, blk):
        if blk not in self._dc:
            self._dc[blk] = Q.canon_conds(self.P, T.dom_conds(self.b, self.S, blk))
        return self._dc[blk]

    def graph_at(self, blk):
        g = Graph()
        self._satsub = {}
        self._rem_bound = {}
        for c in self.conds_at(blk):
            self.add_cond(c, g, blk)
        return g

    def add_cond(self, c, g, blk):
        if c[0] == "cmp":
            op, a, b, pol = c[1], c[2], c[3], c[4]
            if not pol:
                op = {"Lt": "Ge", "Ge": "Lt", "Gt": "Le", "Le": "Gt", "Eq": "Ne", "Ne": "Eq"}[op]
            if not self._still_valid(c, blk):
                return
            an, ao = self.lin(a, g)
            bn, bo = self.lin(b, g)
            # a + ao  OP  b + bo
            if op == "Lt":
                g.add(an, bn, bo - ao - 1)
            elif op == "Le":
                g.add(an, bn, bo - ao)
            elif op == "Gt":
                g.add(bn, an, ao - bo - 1)
            elif op == "Ge":
                g.add(bn, an, ao - bo)
            elif op == "Eq":
                g.add(an, bn, bo - ao)
                g.add(bn, an, ao - bo)
            elif op == "Ne":
                if bn == ZERO and bo == 0:
                    g.nonzero.add((an, ao))
                    g.add(ZERO, an, ao - 1) if True else None   # unsigned: a != 0  =>  a >= 1
                if an == ZERO and ao == 0:
                    g.nonzero.add((bn, bo))
                    g.add(ZERO, bn, bo - 1)
        elif c[0] == "bool":
            t, pol = c[1], c[2]
            if not self._still_valid(c, blk):
                return
            t = self._bool_summary(t)
            if t[0] == "call":
                n = t[1]
                if n.endswith("::is_empty") and t[2]:
                    node = ("len", sid(t[2][0]))
                    if pol is False:
                        g.add(ZERO, node, -1)
                    else:
                        g.add(node, ZERO, 0)
                elif n.endswith("::starts_with") and len(t[2]) == 2 and pol is True:
                    pat = T.strip(t[2][1])
                    node = ("len", sid(t[2][0]))
                    ln = None
                    if pat[0] == "const" and isinstance(pat[1], (bytes, bytearray, str)):
                        ln = len(pat[1]) if not isinstance(pat[1], str) else len(pat[1].encode())
                    if ln is not None:
                        g.add(ZERO, node, -ln)
        elif c[0] == "variant":
            place, var, pol = c[1], c[2], c[3]
            if not self._still_valid(c, blk):
                return
            p = T.strip(place)
            if p[0] == "call" and pol and var == "Some":
                n = p[1]
                if (n.endswith("[T]>::get") or n.endswith("::get") and ("slice" in n or "Vec" in n or "str" in n)) and len(p[2]) == 2:
                    cont = ("len", sid(p[2][0]))
                    r = T.strip(p[2][1])
                    if r[0] == "agg" and r[1] == "adt" and r[2]:
                        if r[2].endswith("ops::RangeFrom"):
                            an, ao = self.lin(r[4][0], g)
                            g.add(an, cont, -ao)
                        elif r[2].endswith("ops::RangeTo"):
                            an, ao = self.lin(r[4][0], g)
                            g.add(an, cont, -ao)
                        elif r[2].endswith("ops::Range") and len(r[4]) == 2:
                            an, ao = self.lin(r[4][1], g)
                            g.add(an, cont, -ao)
                    else:
                        an, ao = self.lin(p[2][1], g)
                        g.add(an, cont, -ao - 1)
                elif n.endswith("TcpOptionPacket::<'p>::new") or n.endswith("Packet::<'p>::new") or n.endswith("::new") and "pnet" in n:
                    pass

    def _still_valid(self, c, blk):
        return True

    def _bool_summary(self, t):
        """Inline a workspace predicate whose body is `return <std predicate>(param_i, CONST)` (e.g. has_http2_preface)."""
        if t[0] != "call" or t[1] not in self.P.bodies:
            return t
        fb = self.P.bodies[t[1]]
        if len(fb.blocks) > 6:
            return t
        fs = T.Slicer(fb, self.P)
        rets = fb.return_blocks()
        if len(rets) != 1:
            return t
        r = fs.local(0, rets[0], len(fb.blocks[rets[0]]["s"]))
        if r[0] == "call" and (r[1].endswith("::starts_with") or r[1].endswith("::is_empty")):
            def sub(x):
                if x[0] == "param" and x[1] < len(t[2]):
                    return t[2][x[1]]
                return None
            return T.rebuild(r, sub)
        return t


def mutated_between(body, S, program, container_root_fields, from_blk, to_blk):
    """Is there a call receiving a &mut of a place mentioning one of the given field names / locals on a path from_blk ->* to_blk?"""
    between = C.reachable_from(body, from_blk) | {from_blk}
    for x in sorted(between):
        if not C.reaches(body, x, to_blk):
            continue
        t = body.blocks[x]["t"]
        if t["k"] != "call" or x == to_blk:
            continue
        n = len(body.blocks[x]["s"])
        for a in t["args"]:
            at = S.operand(a, x, n)
            for y in T.walk(at):
                if y[0] == "ref" and y[1] == "mut":
                    names = {z[2] for z in T.walk(y) if z[0] == "field" and isinstance(z[2], str)}
                    if names & container_root_fields:
                        return x
    return None
