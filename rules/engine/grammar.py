"""Extraction of nom grammars and Display tables from MIR origin terms."""
import re

from . import paths as PA
from . import q as Q
from . import terms as T
from .facts import AnchorMissing, callee_of

CLASS_FNS = {"digit1": "digits", "alpha1": "alpha", "alphanumeric1": "alnum", "space0": "space0", "rest": "rest",
             "space1": "space1", "multispace0": "space0"}


def _fn_const(t):
    t = T.strip(t)
    if t[0] == "const" and isinstance(t[1], tuple) and t[1] and t[1][0] == "fn":
        return t[1][1]
    return None


def interp(program, t, depth=0):
    """Origin term of a nom parser value -> grammar node."""
    if depth > 30:
        return ("deep",)
    t = T.strip(t)
    fnp = _fn_const(t)
    if fnp is not None:
        last = fnp.rsplit("::", 1)[-1]
        if last in CLASS_FNS:
            return ("class", CLASS_FNS[last])
        if fnp in program.bodies:
            return ("sub", fnp)
        return ("class", "fn:" + last)
    if t[0] == "agg" and t[1] == "tuple":
        return ("seq", [interp(program, x, depth + 1) for x in t[4]])
    if t[0] != "call":
        return ("unknown", T.pp(t)[:60])
    callee = t[1]
    last = T.short(callee).rsplit("::", 1)[-1]
    args = t[2]
    if last == "tag" or last == "tag_no_case":
        c = T.strip(args[0])
        if c[0] == "const" and isinstance(c[1], str):
            return ("lit", c[1])
        return ("unknown", "tag(?)")
    if last == "char" and "nom::" in callee:
        c = T.strip(args[0])
        if c[0] == "const":
            return ("lit", str(c[1]))
    if last == "alt":
        inner = interp(program, args[0], depth + 1)
        if inner[0] == "seq":
            return ("alt", inner[1])
        return ("alt", [inner])
    if last in ("map", "map_res", "map_opt") and len(args) == 2:
        return ("map", interp(program, args[0], depth + 1), _action(program, args[1]))
    if last == "value" and "nom::" in callee and len(args) == 2:
        # `value(X, p)`: recognise p, yield the constant X - the same as `map(p, |_| X)`
        return ("map", interp(program, args[1], depth + 1), ("value", args[0]))
    if last == "delimited" and len(args) == 3:
        return ("seq", [interp(program, a, depth + 1) for a in args])
    if last in ("terminated", "preceded", "pair"):
        return ("seq", [interp(program, a, depth + 1) for a in args])
    if last == "separated_pair":
        return ("seq", [interp(program, a, depth + 1) for a in args])
    if last == "opt":
        return ("opt", interp(program, args[0], depth + 1))
    if last in ("separated_list0", "separated_list1"):
        return (last, interp(program, args[0], depth + 1), interp(program, args[1], depth + 1))
    if last == "take_until":
        c = T.strip(args[0])
        return ("class", "until:" + (c[1] if c[0] == "const" else "?"))
    if last in ("take_while", "take_while1", "take_till"):
        return ("class", last)
    if last in CLASS_FNS:
        return ("class", CLASS_FNS[last])
    return ("unknown", last)


def _action(program, t):
    t = T.strip(t)
    fnp = _fn_const(t)
    if fnp is not None:
        return ("fn", fnp)
    if t[0] == "agg" and t[1] == "closure":
        return ("closure", t[2])
    return ("unknown", T.pp(t)[:40])


def action_variants(program, action):
    """Enum variants (adt_path, variant) an action can construct."""
    out = set()
    if action[0] == "fn":
        p = action[1]
        par = p.rsplit("::", 1)[0]
        if par in program.adts and program.adts[par]["kind"] == "enum":
            out.add((par, p.rsplit("::", 1)[1]))
            return out
        if p not in program.bodies:
            return out
        # a named function used as the action (`map_res(p, build_x)`) is read like a closure with the same body
    if action[0] == "value":
        t = T.strip(action[1])
        while t[0] in ("ref", "deref"):
            t = T.strip(t[2] if t[0] == "ref" else t[1])
        if t[0] == "agg" and t[1] == "adt" and t[2] in program.adts and program.adts[t[2]]["kind"] == "enum":
            out.add((t[2], t[3]))
        elif t[0] == "const" and t[3]:
            # a unit variant reaches MIR as a constant of the enum's type: its discriminant byte names the variant
            ty = t[3].lstrip("&")
            adt = program.adts.get(ty)
            if adt is not None and adt["kind"] == "enum" and isinstance(t[1], (bytes, bytearray)) and len(t[1]) >= 1:
                for v in adt["variants"]:
                    if v.get("discr") == t[1][0] and not v.get("fields"):
                        out.add((ty, v["name"]))
        return out
    if action[0] in ("closure", "fn"):
        b = program.bodies.get(action[1])
        if b is None:
            return out
        for i, j, s in b.iter_stmts():
            if s["k"] != "assign":
                continue
            r = s["r"]
            if r["k"] == "agg" and r["ak"] == "adt" and r["path"] in program.adts and program.adts[r["path"]]["kind"] == "enum":
                out.add((r["path"], r["variant"]))
        for i, t in b.calls():
            for a in t["args"]:
                if "k" in a:
                    cv = T.const_value(a["k"])
                    if isinstance(cv[1], tuple) and cv[1] and cv[1][0] == "fn":
                        p = cv[1][1]
                        par = p.rsplit("::", 1)[0]
                        if par in program.adts and program.adts[par]["kind"] == "enum":
                            out.add((par, p.rsplit("::", 1)[1]))
    return out


def parser_grammar(program, body):
    """Grammar node of a `fn parse_x(input) -> IResult<..>`: the receiver of its Parser::parse call.  A body that applies several
    parsers one after the other, each to what the previous one left (`let (input, a) = p1.parse(input)?; let (input, b) =
    p2(input)?; ..`), is the sequence of them - the same grammar as the tuple `(p1, p2, ..).parse(input)`."""
    S = T.Slicer(body, program)
    cs = Q.calls(body, "nom::Parser::parse") + Q.calls(body, "Parser<I>>::parse")
    if not cs:
        raise AnchorMissing("no nom Parser::parse call in " + body.path)
    steps = []
    for blk, t in cs:
        a = Q.call_args(body, S, blk, t)
        if len(a) == 2:
            steps.append((blk, interp(program, a[0]), a[1]))
    seen = {blk for blk, _n, _i in steps}
    for blk, t in body.calls():
        cal = program.bodies.get(callee_of(t))
        if blk in seen or cal is None or len(t["args"]) != 1 or cal.kind not in ("Fn", "AssocFn"):
            continue
        if "IResult" in (cal.local_ty(0) or "") or "nom::Err" in (cal.local_ty(0) or ""):
            steps.append((blk, ("sub", cal.path), Q.call_args(body, S, blk, t)[0]))
    # a combinator's result applied directly (`tag(":")(input)?`): a call through the Fn traits of a parser value
    seen = {blk for blk, _n, _i in steps}
    for blk, t in body.calls():
        if blk in seen or not (t.get("decl") or "").endswith(("ops::Fn::call", "ops::FnMut::call_mut", "ops::FnOnce::call_once")) or len(t["args"]) != 2:
            continue
        a = Q.call_args(body, S, blk, t)
        f = T.strip(a[0])
        while f[0] in ("ref", "deref"):
            f = T.strip(f[2] if f[0] == "ref" else f[1])
        if f[0] == "call" and "nom::" in f[1]:
            steps.append((blk, interp(program, f), a[1]))
    if len(steps) > 1:
        blocks = {blk for blk, _n, _i in steps}
        prev = {}
        for blk, _n, inp in steps:
            srcs = {x[3] for x in T.walk(inp) if x[0] == "call" and len(x) > 3 and x[3] in blocks and x[3] != blk}
            # the nearest earlier step: the one no other source of this input is fed by
            prev[blk] = srcs
        order = []
        left = dict(prev)
        while left:
            ready = [b_ for b_, srcs in left.items() if not (srcs - set(order))]
            if len(ready) != 1:
                order = None
                break
            order.append(ready[0])
            del left[ready[0]]
        if order is not None and all(prev[b_] for b_ in order[1:]) and not prev[order[0]]:
            nodes = {blk: n for blk, n, _i in steps}
            return ("seq", [nodes[b_] for b_ in order])
    blk, t = cs[0]
    a = Q.call_args(body, S, blk, t)
    return interp(program, a[0])


def flatten(program, g, expand_sub=True, depth=0):
    """Flatten a grammar node without alternatives into a list of ('lit', s) | ('digits',) | ('class', n)."""
    if g[0] == "lit":
        return [g]
    if g[0] == "class":
        if g[1] == "digits":
            return [("digits",)]
        return [g]
    if g[0] == "seq":
        out = []
        for x in g[1]:
            out += flatten(program, x, expand_sub, depth + 1)
        return out
    if g[0] == "map":
        return flatten(program, g[1], expand_sub, depth + 1)
    if g[0] == "sub":
        return [("sub", g[1])]
    return [g]


def alternatives(program, g):
    """For an alt-grammar: list of (pattern pieces, set of (enum, variant)) in order."""
    if g[0] == "map" and g[1][0] == "alt":
        g = g[1]
    if g[0] != "alt":
        return None
    # an alternative that is itself a named sub-parser made of alternatives (`alt((parse_ip_quirk, parse_tcp_quirk))`) contributes its
    # own alternatives, in place
    flat = []

    def expand(a, depth=0):
        if a[0] == "sub" and depth < 4 and a[1] in program.bodies:
            try:
                sg = parser_grammar(program, program.bodies[a[1]])
            except AnchorMissing:
                sg = None
            if sg is not None and sg[0] == "map" and sg[1][0] == "alt" and False:
                sg = sg[1]
            if sg is not None and sg[0] == "alt":
                for x in sg[1]:
                    expand(x, depth + 1)
                return
        flat.append(a)
    for a in g[1]:
        expand(a)
    out = []
    for a in flat:
        pieces = merge_lits(flatten(program, a))
        vs = set()
        _collect_actions(program, a, vs)
        out.append((pieces, vs))
    return out


def _collect_actions(program, g, acc):
    if g[0] == "map":
        acc |= action_variants(program, g[2])
        _collect_actions(program, g[1], acc)
    elif g[0] in ("seq", "alt"):
        for x in g[1]:
            _collect_actions(program, x, acc)
    elif g[0] == "opt":
        _collect_actions(program, g[1], acc)


def merge_lits(pieces):
    out = []
    for p in pieces:
        if p[0] == "lit" and out and out[-1][0] == "lit":
            out[-1] = ("lit", out[-1][1] + p[1])
        else:
            out.append(p)
    return out


def pattern_regex(pieces):
    r = ""
    for p in pieces:
        if p[0] == "lit":
            r += re.escape(p[1])
        elif p[0] == "digits":
            r += "[0-9]+"
        else:
            return None
    return r


def pattern_samples(pieces, digit_samples=("7", "0", "1", "2", "64", "10", "255")):
    outs = [""]
    for p in pieces:
        if p[0] == "lit":
            outs = [o + p[1] for o in outs]
        elif p[0] == "digits":
            outs = [o + d for o in outs for d in digit_samples][:400]
        else:
            return None
    return outs


def pp_pattern(pieces):
    s = ""
    for p in pieces:
        if p[0] == "lit":
            s += p[1]
        elif p[0] == "digits":
            s += "<n>"
        elif p[0] == "hole":
            s += "{}"
        else:
            s += "<%s>" % (p[1] if len(p) > 1 else p[0])
    return s


# ---------------------------------------------------------------------------
# Display side


def display_body(program, ty_path):
    for b in program.bodies.values():
        if b.kind == "AssocFn" and b.name == "fmt" and (b.impl_trait or "").endswith("fmt::Display") and (b.impl_self or "") == ty_path:
            return b
    raise AnchorMissing("Display impl not found for " + ty_path)


def display_enum_table(program, enum_path):
    """variant -> list of pieces [('lit', s) | ('hole', term, kind)] from the Display impl of an enum."""
    b = display_body(program, enum_path)
    trails, trunc = PA.enumerate_paths(b, 0, 4000)
    if trunc:
        raise AnchorMissing("too many paths in " + b.path)
    S = T.Slicer(b, program)
    table = {}
    variants = program.variants(enum_path)
    for trail in trails:
        vs = None
        for k in range(len(trail) - 1):
            be = T.branch_edges(b, S, trail[k])
            if be is None:
                continue
            atom, labels = be
            if atom[0] != "variant":
                continue
            place = T.strip(atom[1])
            if not (place[0] == "param" and place[1] == 0):
                continue
            lab = labels.get(trail[k + 1])
            if isinstance(lab, str):
                cur = {lab}
            elif isinstance(lab, tuple) and lab and lab[0] == "else":
                cur = set(lab[1])
            elif isinstance(lab, tuple) and lab and lab[0] == "anyof":
                cur = {x for x in lab[1] if isinstance(x, str)}
            else:
                continue
            vs = cur if vs is None else (vs & cur)
        if not vs:
            continue
        ev = PA.write_events(b, trail, program)
        for v in vs:
            if v in variants:
                if v not in table or len(ev) > len(table[v]):
                    table[v] = ev
    return table, b


def display_to_pattern(program, enum_path, variant, pieces):
    """Convert display pieces into a pattern comparable with parser patterns: integer holes become digits."""
    adt = program.adt(enum_path)
    var = [v for v in adt["variants"] if v["name"] == variant][0]
    int_fields = all(f["ty"] in ("u8", "u16", "u32", "u64", "usize") for f in var["fields"])
    out = []
    for p in pieces:
        if p[0] == "lit":
            out.append(p)
        elif p[0] == "hole":
            if int_fields and var["fields"]:
                out.append(("digits",))
            else:
                out.append(("hole",))
        else:
            out.append(("dyn",))
    return merge_lits(out)
