"""Query helpers shared by the property rules."""
from . import cfg as C
from . import terms as T
from .facts import AnchorMissing, callee_of

TRACING_MACROS = ("debug!", "trace!", "info!", "warn!", "error!", "$crate::event!", "$crate::level_enabled!",
                  "$crate::valueset_all!", "$crate::callsite2!", "$crate::fieldset!", "$crate::valueset!", "$crate::callsite!")


def in_tracing(span):
    bt = span.get("expbt") or []
    return any(x in TRACING_MACROS for x in bt)


def calls(body, frag=None, skip_tracing=True, pred=None):
    """(blk, terminator) of reachable calls whose resolved-or-declared callee contains `frag`."""
    out = []
    for i, t in body.calls():
        if skip_tracing and in_tracing(t["span"]):
            continue
        name = callee_of(t)
        decl = t.get("decl") or ""
        if frag is not None:
            frs = frag if isinstance(frag, (list, tuple)) else [frag]
            if not any(f in name or f in decl for f in frs):
                continue
        if pred is not None and not pred(i, t):
            continue
        out.append((i, t))
    return out


def call_args(body, S, blk, t):
    n = len(body.blocks[blk]["s"])
    return [S.operand(a, blk, n) for a in t["args"]]


def region(body, branch_blk, succ):
    """Blocks that are (transitively) control dependent on taking edge branch_blk->succ."""
    out = set()
    for b in body.reachable:
        if (branch_blk, succ) in C.transitive_controls(body, b):
            out.add(b)
    return out


def dominated_region(body, blk):
    """Blocks dominated by `blk` (the arm of a branch whose target has the branch as its only predecessor)."""
    return {x for x in body.reachable if C.dominates(body, blk, x)}


def aggregates(body, adt_path=None, blocks=None):
    """(blk, idx, stmt) for aggregate assignments of the given ADT (path suffix match)."""
    out = []
    for i, j, s in body.iter_stmts():
        if blocks is not None and i not in blocks:
            continue
        if s["k"] == "assign" and s["r"]["k"] == "agg" and s["r"]["ak"] == "adt":
            p = s["r"]["path"]
            if adt_path is None or p == adt_path or p.endswith("::" + adt_path):
                out.append((i, j, s))
    return out


_NEG = {"Lt": "Ge", "Ge": "Lt", "Gt": "Le", "Le": "Gt", "Eq": "Ne", "Ne": "Eq"}
_MIRROR = {"Lt": "Gt", "Gt": "Lt", "Le": "Ge", "Ge": "Le", "Eq": "Eq", "Ne": "Ne"}


def _constish(t):
    t = T.strip(t)
    if t[0] == "const" or T.fold_int(t) is not None:
        return True
    if t[0] == "agg" and t[1] in ("adt", "tuple", "array"):
        return all(_constish(x) for x in t[4])
    return False


def _norm_cmp(c):
    """canonical comparison: polarity True (a negated test becomes the complementary operator), a constant operand on the right
    (`0x16 != x` false  ==  `x == 0x16`)"""
    if c[0] != "cmp":
        return c
    op, a, b, pol, blk = c[1], c[2], c[3], c[4], c[5] if len(c) > 5 else None
    if pol is False:
        op, pol = _NEG[op], True
    if _constish(a) and not _constish(b):
        a, b, op = b, a, _MIRROR[op]
    return ("cmp", op, a, b, pol, blk)


SEARCH_ADAPTERS = ("::find", "::rfind", "::any", "::position", "::rposition", "::filter", "::take_while", "::skip_while", "::find_map", "::all")


def closure_result_conds(program, closure_term):
    """For a closure value term: canonical conditions equivalent to `the closure returned true`, one list per return site
    (captured variables replaced by their origin in the creating body)."""
    from . import tables as TB
    ct = T.strip(closure_term)
    if not (ct[0] == "agg" and ct[1] == "closure"):
        return []
    cb = program.bodies.get(ct[2])
    if cb is None:
        return []
    out = []
    CS = T.Slicer(cb, program)

    def ex(c):
        # captured variables / closure parameters in condition terms -> origin in the creating body
        return tuple(T.expand_upvars(program, cb, x) if isinstance(x, tuple) and x and isinstance(x[0], str) else x for x in c)
    for (i, j, t, _c) in TB.return_sites(cb, program):
        t = T.expand_upvars(program, cb, t)
        pol = True
        while t[0] == "unop" and t[1] == "Not":
            t, pol = t[2], not pol
        if t[0] == "const" and isinstance(t[1], bool):
            if t[1] != pol:
                continue            # this exit returns false: not a way for the predicate to hold
            val = []
        else:
            val = [_norm_cmp(x) for x in canon_cond(program, t, pol, None)]
        # `a && b` returns b on the path where a held: the conditions dominating the exit belong to the predicate
        dom = [ex(c) for c in canon_conds(program, T.dom_conds(cb, CS, i))]
        out.append(dom + val)
    return out


def predicate_conds(program, term):
    """Conditions tested by the predicate closures of iterator searches inside `term`
    (`xs.iter().find(|x| p(x))` tests p just as `for x in xs { if p(x) {..} }` does): [(search call term, [cond...])]."""
    out = []
    for x in T.walk(term):
        if x[0] == "call" and x[1].endswith(SEARCH_ADAPTERS) and len(x[2]) >= 2:
            for cs in closure_result_conds(program, x[2][-1]):
                out.append((x, cs))
    return out


def oriented(c, left):
    """(op, a, b) of a canonical comparison with the operand satisfying predicate `left` on the left (`needed <= len` is read as
    `len >= needed`); None when `c` is no comparison or neither operand satisfies it."""
    if c[0] != "cmp":
        return None
    if left(c[2]):
        return (c[1], c[2], c[3])
    if left(c[3]):
        return (_MIRROR[c[1]], c[3], c[2])
    return None


def int_lower_bound(op, k):
    """Smallest integer admitted by `x op k` when that is a lower bound (x >= k / x > k-... ), else None."""
    if k is None:
        return None
    if op == "Ge":
        return k
    if op == "Gt":
        return k + 1
    return None


def reduced_index(t):
    """(dividend, divisor, default) when t is a value reduced modulo a divisor: `x % n`, `x.checked_rem(n).unwrap_or(k)`, or the
    same written as a match (`match x.checked_rem(n) { Some(v) => v, None => k }`: the merge of the payload and k).  Else None."""
    t = T.strip(t)
    while t[0] == "cast":
        t = T.strip(t[2])
    if t[0] == "binop" and t[1] == "Rem":
        return (t[2], t[3], None)
    # `x % n` with n: NonZero<_> is the operator trait `Rem<NonZero<usize>> for usize` (it cannot divide by zero)
    if t[0] == "call" and "ops::Rem<" in t[1] and t[1].endswith("::rem") and len(t[2]) == 2:
        return (t[2][0], t[2][1], None)

    def rem_payload(x):
        x = T.strip(x)
        if x[0] == "field" and x[1][0] == "downcast" and x[1][2] == "Some":
            c = T.strip(x[1][1])
            if c[0] == "call" and c[1].endswith("::checked_rem") and len(c[2]) == 2:
                return c
        return None
    if t[0] == "call" and t[1].endswith("::unwrap_or") and len(t[2]) == 2:
        c = T.strip(t[2][0])
        if c[0] == "call" and c[1].endswith("::checked_rem") and len(c[2]) == 2:
            return (c[2][0], c[2][1], t[2][1])
    if t[0] == "phi" and len(t[1]) == 2:
        for a, k in ((t[1][0], t[1][1]), (t[1][1], t[1][0])):
            c = rem_payload(a)
            if c is not None and T.fold_int(k) is not None:
                return (c[2][0], c[2][1], k)
    return None


def quantified(program, t):
    """For `iter.any(|x| x OP k)` / `iter.all(|x| x OP k)` (also `contains(&k)`): ("exists", iter-or-container term, OP, k) or
    ("forall", ..) with OP in Eq/Ne and the element on the left - so that `any(|b| b != 0)`, `!all(|b| b == 0)` and
    `contains(&K)` / `any(|o| o == K)` can be compared.  None when the call is not of that form."""
    from . import tables as TB
    t = T.strip(t)
    if t[0] != "call" or len(t[2]) != 2:
        return None
    last = t[1].rsplit("::", 1)[-1]
    if last == "contains" and ("[T]" in t[1] or "slice" in t[1] or "Vec" in t[1]):
        k = T.strip(t[2][1])
        while k[0] in ("ref", "deref"):
            k = T.strip(k[2] if k[0] == "ref" else k[1])
        return ("exists", t[2][0], "Eq", k)
    if last not in ("any", "all") or "Iterator" not in t[1] and "iter" not in t[1]:
        return None
    cl = T.strip(t[2][1])
    if not (cl[0] == "agg" and cl[1] == "closure" and program is not None and cl[2] in program.bodies):
        return None
    cb = program.bodies[cl[2]]
    rets = TB.return_sites(cb, program)
    if len(rets) != 1:
        return None
    r = T.strip(rets[0][2])
    neg = False
    while r[0] == "unop" and r[1] == "Not":
        r, neg = T.strip(r[2]), not neg
    cs = canon_cond(program, r, not neg, None)
    if len(cs) != 1:
        return None
    c = _norm_cmp(cs[0])
    if c[0] == "variant":
        # comparison with a unit enum variant
        if not T.contains(c[1], lambda x: x[0] == "param" and x[1] >= 1):
            return None
        return ("exists" if last == "any" else "forall", t[2][0], "Eq" if c[3] else "Ne", ("variant", c[2]))
    if c[0] != "cmp" or c[1] not in ("Eq", "Ne") or not c[4]:
        return None
    a, b = T.strip(c[2]), T.strip(c[3])
    if not T.contains(a, lambda x: x[0] == "param" and x[1] >= 1):
        a, b = b, a
    if not T.contains(a, lambda x: x[0] == "param" and x[1] >= 1) or T.contains(b, lambda x: x[0] == "param" and x[1] >= 1):
        return None
    while a[0] in ("ref", "deref"):
        a = T.strip(a[2] if a[0] == "ref" else a[1])
    if a[0] != "param":
        return None
    while b[0] in ("ref", "deref"):
        b = T.strip(b[2] if b[0] == "ref" else b[1])
    return ("exists" if last == "any" else "forall", t[2][0], c[1], b)


def canon_conds(program, conds):
    """Normalise controls() output into canonical predicates:
       ('variant', place_term, VariantName, polarity)
       ('cmp', op, a, b, polarity)       op in Lt Le Gt Ge Eq Ne
       ('bool', term, polarity)          anything else boolean
       ('int', term, value|('else', ...))
    """
    out = []
    for (atom, label, blk) in conds:
        out.extend(canon_cond(program, atom, label, blk))
    return [_norm_cmp(c) for c in out]


_PRED_MEMO = {}


def _expand_predicate(program, t, depth=0):
    """For a call to a workspace function whose whole body is one straight-line boolean expression of its parameters (at most a
    couple of std calls, no branches, no other workspace calls): that expression with the arguments substituted; else None."""
    if program is None or t[0] != "call" or depth > 2:
        return None
    b = program.bodies.get(t[1])
    if b is None or b.kind not in ("Fn", "AssocFn") or b.local_ty(0) != "bool" or len(b.blocks) > 6:
        return None
    if b.impl_trait or b.raw.get("trait_default_of") or b.from_macro:
        return None          # trait methods (derived PartialEq::eq ..) keep their meaning as calls
    key = t[1]
    if key not in _PRED_MEMO:
        ret = None
        ok = all(blk["t"]["k"] in ("call", "return", "goto", "drop", "resume", "unreachable", "abort") for blk in b.blocks) and \
            not any(blk["t"]["k"] == "call" and (blk["t"].get("res") or blk["t"].get("decl") or "").startswith("huginn_net") for blk in b.blocks)
        if ok:
            S = T.Slicer(b, program)
            defs = [(bi, bj) for (bi, bj, full) in S.defs().get(0, []) if full]
            if len(defs) == 1:
                ret = S.def_term(0, defs[0][0], defs[0][1], 0)
                if T.contains(ret, lambda x: x[0] in ("phi", "loopvar", "unknown", "deep")):
                    ret = None
        _PRED_MEMO[key] = ret
    ret = _PRED_MEMO[key]
    if ret is None:
        return None
    args = t[2]

    def sub(n):
        if n[0] == "param" and n[1] < len(args):
            return args[n[1]]
        return None
    return T.rebuild(ret, sub)


def canon_cond(program, atom, label, blk=None):
    res = []
    if atom[0] == "variant":
        place = T.strip(atom[1])
        # `x?`: ControlFlow of Try::branch(x) is Continue exactly when x is Some / Ok  (core::ops::Try for Option and Result)
        if place[0] == "call" and place[1].endswith("::branch") and "Try" in place[1] and len(place[2]) == 1 and \
                ("option::Option" in place[1] or "result::Result" in place[1]):
            m = {"Continue": "Some", "Break": "None"} if "option::Option" in place[1] else {"Continue": "Ok", "Break": "Err"}

            def tr(l):
                if isinstance(l, str):
                    return m.get(l, l)
                if isinstance(l, tuple) and l and l[0] in ("else", "anyof"):
                    return (l[0], tuple(m.get(x, x) for x in l[1])) + tuple(tuple(m.get(x, x) for x in y) for y in l[2:])
                return l
            label = tr(label)
            place = T.strip(place[2][0])
        # `s.first_chunk::<N>()` is Some exactly when `s.len() >= N`
        if place[0] == "call" and "::first_chunk::<" in place[1] and len(place[2]) == 1:
            lab = label[1][0] if isinstance(label, tuple) and label and label[0] == "else" and len(label[1]) == 1 else label
            if lab in ("Some", "None"):
                n = int(place[1].rsplit("::<", 1)[1].rstrip(">"))
                ln = ("call", "core::slice::<impl [T]>::len", (place[2][0],))
                return [("cmp", "Ge" if lab == "Some" else "Lt", ln, ("const", n, None, "usize"), True, blk)]
        # `s.get(a..b)` (constant a <= b) is Some exactly when `s.len() >= b`
        if place[0] == "call" and place[1].endswith("::get") and ("[T]" in place[1] or "slice::" in place[1]) and len(place[2]) == 2:
            r_ = T.strip(place[2][1])
            lab = label[1][0] if isinstance(label, tuple) and label and label[0] == "else" and len(label[1]) == 1 else label
            if r_[0] == "agg" and (r_[2] or "").endswith("ops::Range") and len(r_[4]) == 2 and lab in ("Some", "None"):
                a_, b_ = T.fold_int(r_[4][0]), T.fold_int(r_[4][1])
                if a_ is not None and b_ is not None and a_ <= b_:
                    ln = ("call", "core::slice::<impl [T]>::len", (place[2][0],))
                    return [("cmp", "Ge" if lab == "Some" else "Lt", ln, ("const", b_, None, "usize"), True, blk)]
            # `s.get(i)` (an index) is Some exactly when `i < s.len()`
            if r_[0] != "agg" and lab in ("Some", "None") and "Range" not in place[1]:
                ln = ("call", "core::slice::<impl [T]>::len", (place[2][0],))
                return [("cmp", "Lt" if lab == "Some" else "Ge", place[2][1], ln, True, blk)]
        if isinstance(label, tuple) and label and label[0] == "else":
            rest = label[1]
            if len(rest) == 1:
                res.append(("variant", place, rest[0], True, blk))
            else:
                res.append(("variant_in", place, tuple(rest), True, blk))
                # the catch-all arm also says which variants the value is NOT (`match x { Any => .., other => .. }`: other is not Any)
                for ex in (label[2] if len(label) > 2 else ()):
                    res.append(("variant", place, ex, False, blk))
        elif isinstance(label, tuple) and label and label[0] == "anyof":
            res.append(("variant_in", place, tuple(label[1]), True, blk))
        else:
            res.append(("variant", place, label, True, blk))
        return res
    if atom[0] == "int":
        res.append(("int", atom[1], label, blk))
        return res
    # boolean
    pol = label
    if not isinstance(pol, bool):
        return [("bool", atom, pol, blk)]
    t = atom
    # a test through a one-line predicate method (`self.signature_parsed()` for `self.signature.is_some()`) is the test it wraps
    exp = _expand_predicate(program, t)
    if exp is not None:
        neg = False
        while exp[0] == "unop" and exp[1] == "Not":
            exp, neg = exp[2], not neg
        return canon_cond(program, exp, pol != neg, blk)
    if t[0] == "binop" and t[1] in ("Lt", "Le", "Gt", "Ge", "Eq", "Ne"):
        res.append(("cmp", t[1], t[2], t[3], pol, blk))
        return res
    if t[0] == "call":
        callee = t[1]
        args = t[2]
        if ("PartialEq" in callee and (callee.endswith("::eq") or callee.endswith("::ne"))) and len(args) == 2:
            p = pol if callee.endswith("::eq") else (not pol)
            for (x, y) in ((args[0], args[1]), (args[1], args[0])):
                cv = _const_enum(program, y)
                if cv is not None:
                    res.append(("variant", T.strip(x), cv, p, blk))
                    return res
            res.append(("cmp", "Eq", T.rewrap(T.strip(args[0])), T.rewrap(T.strip(args[1])), p, blk))
            return res
        for (nm, op) in (("::lt", "Lt"), ("::le", "Le"), ("::gt", "Gt"), ("::ge", "Ge")):
            if "PartialOrd" in callee and callee.endswith(nm) and len(args) == 2:
                res.append(("cmp", op, T.strip(args[0]), T.strip(args[1]), pol, blk))
                return res
        if callee.endswith("::is_some") or callee.endswith("::is_none") or callee.endswith("::is_ok") or callee.endswith("::is_err"):
            v = {"is_some": "Some", "is_none": "None", "is_ok": "Ok", "is_err": "Err"}[callee.rsplit("::", 1)[1]]
            res.append(("variant", T.strip(args[0]), v, pol, blk))
            return res
    res.append(("bool", t, pol, blk))
    return res


def _const_enum(program, t):
    t = T.strip(t)
    if t[0] == "const":
        return T.enum_variant_of_const(program, t)
    if t[0] == "agg" and t[1] == "adt" and not t[4]:
        return t[3]
    return None


def field_path(t):
    """For a term that is a chain of field/deref/ref over a param, return (param_index, [field names]); else None."""
    names = []
    while True:
        if t[0] in ("ref",):
            t = t[2]
        elif t[0] == "deref":
            t = t[1]
        elif t[0] == "field":
            names.append(t[2])
            t = t[1]
        elif t[0] == "call" and T.is_identity_call(t[1]) and t[2]:
            t = t[2][0]
        elif t[0] == "cast":
            t = t[2]
        elif t[0] == "param":
            return t[1], list(reversed(names))
        else:
            return None


def mentions_field(t, param_idx, fname):
    """Does the term contain a read of <param>.fname (through refs/derefs)?"""
    for x in T.walk(t):
        if x[0] == "field" and x[2] == fname:
            fp = field_path(x)
            if fp and fp[0] == param_idx and fp[1] and fp[1][0] == fname or (fp and fp[0] == param_idx and fname in fp[1]):
                return True
    return False


def callgraph_closure(program, root, depth=4, same_crate=True):
    """Bodies reachable from `root` through resolved calls and created closures (bounded depth)."""
    seen = {root.path: root}
    frontier = [root]
    for _ in range(depth):
        nxt = []
        for b in frontier:
            for i, t in b.calls():
                for name in (t.get("res"), t.get("decl")):
                    if name and name in program.bodies and name not in seen:
                        nb = program.bodies[name]
                        if same_crate and nb.crate != root.crate:
                            continue
                        seen[name] = nb
                        nxt.append(nb)
            for i, j, s in b.iter_stmts():
                if s["k"] == "assign" and s["r"]["k"] == "agg" and s["r"]["ak"] == "closure":
                    p = s["r"]["path"]
                    if p in program.bodies and p not in seen:
                        seen[p] = program.bodies[p]
                        nxt.append(program.bodies[p])
        frontier = nxt
        if not frontier:
            break
    return list(seen.values())


def dyn_impl_targets(program, decl):
    """For a declared trait-method path (unresolved: generic or dyn receiver) return all workspace impl bodies."""
    name = decl.rsplit("::", 1)[-1]
    trait = decl.rsplit("::", 1)[0]
    out = []
    for b in program.bodies.values():
        if b.kind == "AssocFn" and b.name == name and (b.impl_trait == trait or b.raw.get("trait_default_of") == trait):
            out.append(b)
    return out


def stmt_line(body, blk, idx=None):
    b = body.blocks[blk]
    if idx is not None and idx >= 0 and idx < len(b["s"]):
        return b["s"][idx]["line"]
    return b["t"]["span"]["lo"]


GROWERS = ("::push", "::push_back", "::push_front", "::insert", "::extend", "::extend_from_slice", "::append", "::push_str")
EMPTY_CTORS = ("Vec::<T>::new", "Vec::<T>::with_capacity", "::default", "VecDeque::<T>::new", "String::new")


def grown_values(program, body, S, local):
    """Values added to the collection held in `local` by push/insert/extend calls whose receiver is a borrow of that local:
    [(call block, callee, value term)].  `let mut v = Vec::new(); for x in xs { if p(x) { v.push(f(x)) } }` feeds v exactly
    as `xs.iter().filter(p).map(f).collect()` does; rules that ask where the elements of a list come from use both."""
    from . import tables as TB
    root = TB._root_local(body, local)
    out = []
    for blk, t in body.calls():
        name = t.get("res") or t.get("decl") or ""
        if not name.endswith(GROWERS) or len(t["args"]) < 2:
            continue
        r = t["args"][0]
        p = r.get("m") or r.get("c")
        if p is None or p["pr"]:
            continue
        if TB._root_local(body, p["l"]) != root:
            continue
        n = len(body.blocks[blk]["s"])
        out.append((blk, name, S.operand(t["args"][-1], blk, n)))
    return out


def element_sources(program, body, S, op, blk, idx):
    """Origin terms of the elements of a list-valued operand: its own origin term plus, when that is an empty constructor,
    every value pushed into the local it is moved from."""
    t = S.operand(op, blk, idx)
    out = [t]
    p = op.get("m") or op.get("c")
    st = T.strip(t)
    if p is not None and not p["pr"] and st[0] == "call" and st[1].endswith(EMPTY_CTORS):
        out += [v for (_, _, v) in grown_values(program, body, S, p["l"])]
    return out
