"""Decision-table extraction for loop-free bodies (P4): acyclic path enumeration with uninterpreted atoms."""
from . import paths as PA
from . import q as Q
from . import terms as T


class Row:
    __slots__ = ("conds", "ret", "trail")

    def __init__(self, conds, ret, trail):
        self.conds = conds
        self.ret = ret
        self.trail = trail


def decision_rows(program, body, max_paths=20000, loop_once=False):
    trails, trunc = PA.enumerate_paths(body, 0, max_paths, loop_once=loop_once)
    if trunc:
        return None
    rows = []
    for tr in trails:
        ps = PA.PathSlicer(body, tr, program)
        conds = []
        for k in range(len(tr) - 1):
            t = body.blocks[tr[k]]["t"]
            if t["k"] != "switch":
                continue
            ps.at(k)
            be = T.branch_edges(body, ps, tr[k])
            if be is None:
                continue
            atom, labels = be
            lab = labels.get(tr[k + 1])
            if lab is None:
                continue
            conds.extend(Q.canon_cond(program, atom, lab, tr[k]))
        ps.at(len(tr) - 1)
        ret = ps.local(0, tr[-1], len(body.blocks[tr[-1]]["s"]))
        rows.append(Row(conds, ret, tr))
    return rows


def eval_bool(term, valuation):
    """Evaluate a boolean return term under `valuation(term) -> bool|None` for atoms."""
    t = term
    if t[0] == "const" and isinstance(t[1], bool):
        return t[1]
    if t[0] == "unop" and t[1] == "Not":
        v = eval_bool(t[2], valuation)
        return None if v is None else (not v)
    if t[0] == "binop" and t[1] in ("BitAnd", "BitOr", "BitXor", "Eq", "Ne"):
        a = eval_bool(t[2], valuation)
        b = eval_bool(t[3], valuation)
        if a is None or b is None:
            return None
        return {"BitAnd": a and b, "BitOr": a or b, "BitXor": a != b, "Eq": a == b, "Ne": a != b}[t[1]]
    if t[0] == "phi":
        vals = {eval_bool(x, valuation) for x in t[1]}
        if len(vals) == 1:
            return vals.pop()
        return None
    return valuation(t)


def truth_check(rows, cond_key, term_key, spec, feasible=None, limit_atoms=16):
    """Compare the extracted decision rows with a reference boolean function over named atoms.

    cond_key(cond)  -> (key, bool) | None (condition is irrelevant) | "infeasible" | "unknown"
    term_key(term)  -> key | None   for atom terms occurring in return expressions
    spec(assign)    -> bool | None (None = don't care)
    Returns (problems, stats): problems is a list of (kind, assignment, detail)."""
    import itertools
    problems = []
    prepared = []
    universe = []

    def atoms_of(key):
        """a key is an atom, or ("OR", atom, atom, ...): `exists x in L: p(x) or q(x)` = (exists x: p(x)) or (exists x: q(x))"""
        return list(key[1:]) if isinstance(key, tuple) and key and key[0] == "OR" else [key]

    def ev(key, assign):
        if isinstance(key, tuple) and key and key[0] == "OR":
            return any(assign.get(a) for a in key[1:])
        return assign.get(key)
    for r in rows:
        req = {}
        bad = False
        for c in r.conds:
            k = cond_key(c)
            if k is None:
                continue
            if k == "infeasible":
                bad = True
                break
            if k == "unknown":
                problems.append(("unknown-condition", None, str(c)[:200]))
                bad = True
                break
            key, val = k
            if key in req and req[key] != val:
                bad = True
                break
            req[key] = val
            for a_ in atoms_of(key):
                if a_ not in universe:
                    universe.append(a_)
        if bad:
            continue
        # atoms in the return expression
        for x in T.walk(r.ret):
            if x[0] in ("call", "field", "param", "deref"):
                tk = term_key(x)
                if tk is not None:
                    for a_ in atoms_of(tk):
                        if a_ not in universe:
                            universe.append(a_)
        prepared.append((req, r))
    if len(universe) > limit_atoms:
        problems.append(("too-many-atoms", None, str(universe)))
        return problems, {"atoms": universe, "rows": len(prepared)}
    n = 0
    for bits in itertools.product((False, True), repeat=len(universe)):
        assign = dict(zip(universe, bits))
        if feasible is not None and not feasible(assign):
            continue
        want = spec(assign)
        if want is None:
            continue
        n += 1
        vals = set()
        for req, r in prepared:
            if all(ev(k, assign) == v for k, v in req.items()):
                def val(t, assign=assign):
                    tk = term_key(t)
                    if tk is None:
                        return None
                    return ev(tk, assign)
                vals.add(eval_bool(r.ret, val))
        if not vals:
            problems.append(("no-row", assign, "no path covers this valuation"))
        elif len(vals) > 1 or None in vals:
            problems.append(("ambiguous", assign, "paths give %s" % sorted(map(str, vals))))
        elif vals.pop() != want:
            problems.append(("mismatch", assign, "code returns %s, documented rule gives %s" % (not want, want)))
    return problems, {"atoms": universe, "rows": len(prepared), "valuations": n}
