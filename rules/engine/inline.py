"""Facts-level inlining of functions that do not exist on the reference tree.

Every rule is anchored in functions of the reference tree (tables/reference_functions.json lists
their paths).  Extracting part of such a function into a new helper leaves behaviour unchanged but
moves the statements a rule reads into a body the rule never visits.  Inlining is semantics
preserving, so before any rule runs each call to a function *absent from the reference list* is
replaced by a renumbered copy of the callee's MIR: parameters become assignments from the
argument operands, every `return` becomes an assignment of the callee's return place to the call's
destination followed by a jump to the call's continuation.  Rules therefore see the same dataflow
and the same control flow whether or not the helper was extracted - and a defect hidden inside a
new helper is seen in the context of its caller.

Not inlined (the call stays a call, rules that need to see through it report `cannot decide`):
recursive functions, trait-impl methods (dispatch), callees whose MIR contains constructs the fact
format records only as debug text, and anything beyond the size bound.

A new private function whose every use is an inlined call is removed from the program afterwards
(it is dead as a separate body: its statements are analysed inside each caller).
"""
import copy
import json
import os

VERIF = os.path.dirname(os.path.dirname(os.path.dirname(os.path.abspath(__file__))))
REFERENCE = os.path.join(VERIF, "tables", "reference_functions.json")
MAX_CALLEE_BLOCKS = 400
MAX_BODY_BLOCKS = 4000


def reference_paths():
    with open(REFERENCE) as fh:
        return set(json.load(fh)["paths"])


def reference_closures():
    """{parent path: [signature, ..]} of the closures of the reference tree"""
    with open(REFERENCE) as fh:
        out = {}
        for parent, sig in json.load(fh).get("closures", []):
            out.setdefault(parent, []).append(sig)
        return out


def closure_signature(raw, raws=None):
    """What a closure is, independent of its number (and of how precisely it captures): its parameters, the function it is handed
    to, and the functions it calls."""
    return [raw.get("arg_count"), _consumer(raw, raws), sorted(c for c in _callees_list(raw))]


def _consumer(raw, raws):
    """name of the call the closure value is passed to in the body that creates it (`call` when it is called by name)"""
    if raws is None:
        return "?"
    parent = raws.get(raw["path"].rsplit("::{closure#", 1)[0])
    if parent is None:
        return "-"
    holders = set()
    for blk in parent["blocks"]:
        for s in blk["s"]:
            r = s.get("r") or {}
            if r.get("k") == "agg" and r.get("ak") == "closure" and r.get("path") == raw["path"] and not s["p"]["pr"]:
                holders.add(s["p"]["l"])
    for _round in range(3):
        for blk in parent["blocks"]:
            for s in blk["s"]:
                r = s.get("r") or {}
                src = None
                if r.get("k") == "use":
                    src = r["o"].get("m") or r["o"].get("c")
                elif r.get("k") == "ref":
                    src = r.get("p")
                if src is not None and not src["pr"] and src["l"] in holders and not s["p"]["pr"]:
                    holders.add(s["p"]["l"])
    for blk in parent["blocks"]:
        t = blk["t"]
        if t["k"] != "call":
            continue
        for a in t["args"]:
            p = a.get("m") or a.get("c")
            if p is not None and not p["pr"] and p["l"] in holders:
                n = t.get("res") or t.get("decl") or "?"
                return "call" if n == raw["path"] else n
    return "-"


def _callees_list(raw):
    out = []
    for blk in raw["blocks"]:
        t = blk["t"]
        if t["k"] == "call":
            n = t.get("res") or t.get("decl")
            if n:
                out.append(n)
    return out


def new_closures(raws):
    """Paths of the closures no closure of the reference tree accounts for.  A closure is accounted for by a reference closure of the
    same enclosing function with the same parameters that is handed to the same function - first those that also call the same
    functions, then (a closure whose body was rewritten) the remaining ones."""
    ref = reference_closures()
    if not ref:
        return None
    by_parent = {}
    for path in sorted(raws):
        if raws[path]["kind"] == "Closure":
            by_parent.setdefault(path.rsplit("::{closure#", 1)[0], []).append(path)
    new = set()
    for parent, paths in by_parent.items():
        pool = list(ref.get(parent, []))
        left = []
        for path in paths:
            sig = closure_signature(raws[path], raws)
            if sig in pool:
                pool.remove(sig)
            else:
                left.append((path, sig))
        for path, sig in left:
            loose = [x for x in pool if x[:2] == sig[:2]]
            if loose:
                pool.remove(loose[0])
            else:
                new.add(path)
    return new


def _has_opaque(raw):
    for blk in raw["blocks"]:
        for s in blk["s"]:
            if s["k"] == "assign" and s["r"]["k"] == "other":
                return True
        if blk["t"]["k"] in ("other", "tailcall"):
            return True
    return False


class _Remap:
    def __init__(self, loff, boff, poff, lmap=None):
        self.loff, self.boff, self.poff = loff, boff, poff
        self.lmap = lmap or {}

    def local(self, l):
        return self.lmap[l] if l in self.lmap else l + self.loff

    def place(self, p):
        pr = []
        for e in p["pr"]:
            if isinstance(e, dict) and "i" in e:
                e = dict(e)
                e["i"] = self.local(e["i"])
            pr.append(e)
        return {"l": self.local(p["l"]), "pr": pr}

    def operand(self, o):
        if "c" in o:
            return {"c": self.place(o["c"])}
        if "m" in o:
            return {"m": self.place(o["m"])}
        k = o.get("k")
        if isinstance(k, dict) and k.get("promoted") is not None:
            k = dict(k)
            k["promoted"] = k["promoted"] + self.poff
            return {"k": k}
        return o

    def rvalue(self, r):
        r = dict(r)
        for key in ("o", "a", "b"):
            if key in r and isinstance(r[key], dict):
                r[key] = self.operand(r[key])
        if "p" in r and isinstance(r["p"], dict):
            r["p"] = self.place(r["p"])
        if "ops" in r:
            r["ops"] = [self.operand(x) for x in r["ops"]]
        return r

    def stmt(self, s):
        s = dict(s)
        s["p"] = self.place(s["p"])
        if "r" in s:
            s["r"] = self.rvalue(s["r"])
        return s

    def term(self, t):
        t = dict(t)
        k = t["k"]
        if "target" in t and t["target"] is not None:
            t["target"] = t["target"] + self.boff
        if k == "switch":
            t["discr"] = self.operand(t["discr"])
            t["arms"] = [[v, b + self.boff] for v, b in t["arms"]]
            t["otherwise"] = t["otherwise"] + self.boff
        elif k == "drop":
            t["p"] = self.place(t["p"])
        elif k == "call":
            t["args"] = [self.operand(a) for a in t["args"]]
            t["dest"] = self.place(t["dest"])
            if "fnop" in t:
                t["fnop"] = self.operand(t["fnop"])
        elif k == "assert":
            t["cond"] = self.operand(t["cond"])
            t["ops"] = [self.operand(a) for a in t["ops"]]
        return t


def _writes_local(raw, l):
    """Does the body assign to local `l` itself (not through a pointer it holds), borrow it mutably or use it as a call destination?"""
    def direct(p):
        return p["l"] == l and (not p["pr"] or p["pr"][0] != "*")
    for blk in raw["blocks"]:
        for s in blk["s"]:
            if direct(s["p"]):
                return True
            r = s.get("r")
            if r and r["k"] in ("ref", "rawptr") and r.get("bk") != "shared" and direct(r["p"]):
                return True
        t = blk["t"]
        if t["k"] == "call" and direct(t["dest"]):
            return True
        if t["k"] == "drop" and direct(t["p"]):
            return True
    return False


def _single_def(raw, l):
    d = None
    for blk in raw["blocks"]:
        for s in blk["s"]:
            if s["p"]["l"] == l and not s["p"]["pr"]:
                if d is not None:
                    return None
                d = s
        t = blk["t"]
        if t["k"] == "call" and t["dest"]["l"] == l:
            return None
    return d


def _mentions(op, l):
    p = op.get("c") or op.get("m")
    return p is not None and (p["l"] == l or any(isinstance(e, dict) and e.get("i") == l for e in p["pr"]))


def _inline_call(caller, bi, callee):
    """Replace the call terminating block `bi` of raw body `caller` by a copy of raw body `callee`.

    The copy is written the way the code would read had it never been extracted:
      - the callee's return place IS the call's destination when that is a plain local no argument mentions;
      - a parameter IS the argument local when the argument is a moved temporary (dead after the call), or a copied local the
        callee never writes; a moved temporary that merely reborrows a reference (`tmp = &mut *r`) is replaced by `r` itself;
      - anything else becomes an explicit assignment `param = argument` before the entry block."""
    call = caller["blocks"][bi]["t"]
    loff = len(caller["locals"])
    boff = len(caller["blocks"])
    poff = len(caller.get("promoted") or [])
    lmap = {}
    dest = call["dest"]
    if not dest["pr"] and not any(_mentions(a, dest["l"]) for a in call["args"]):
        lmap[0] = dest["l"]
    assigns = []
    for i, a in enumerate(call["args"]):
        pl = i + 1
        src = a.get("m") or a.get("c")
        if src is not None and not src["pr"]:
            if "m" in a:
                tgt = src["l"]
                d = _single_def(caller, tgt)
                # reborrow of a reference held in another local: the temporary is that reference
                if d is not None and d.get("r", {}).get("k") == "ref" and d["r"]["p"]["pr"] == ["*"] and tgt > caller["arg_count"]:
                    base = d["r"]["p"]["l"]
                    if caller["locals"][base]["ty"].startswith("&") and not _writes_local(callee, pl):
                        tgt = base
                lmap[pl] = tgt
                continue
            if not _writes_local(callee, pl):
                lmap[pl] = src["l"]
                continue
        assigns.append((pl, a))
    rm = _Remap(loff, boff, poff, lmap)
    line = (call.get("span") or {}).get("lo")
    caller["locals"].extend(copy.deepcopy(callee["locals"]))
    if callee.get("promoted"):
        caller.setdefault("promoted", [])
        caller["promoted"].extend(callee["promoted"])
    cont = call["target"]
    for blk in callee["blocks"]:
        nb = {"s": [rm.stmt(s) for s in blk["s"]], "t": rm.term(blk["t"])}
        if blk.get("cleanup"):
            nb["cleanup"] = True
        if nb["t"]["k"] == "return":
            if 0 not in lmap:
                st = {"k": "assign", "p": dest, "r": {"k": "use", "o": {"m": {"l": loff, "pr": []}}}, "inl": "ret"}
                if blk["s"] and "line" in blk["s"][-1]:
                    st["line"] = blk["s"][-1]["line"]
                else:
                    st["line"] = line or 0
                nb["s"].append(st)
            if cont is None:
                nb["t"] = {"k": "unreachable", "span": nb["t"].get("span")}
            else:
                nb["t"] = {"k": "goto", "target": cont, "span": nb["t"].get("span")}
        caller["blocks"].append(nb)
    pre = caller["blocks"][bi]
    for pl, a in assigns:
        st = {"k": "assign", "p": {"l": loff + pl, "pr": []}, "r": {"k": "use", "o": a}, "inl": "arg", "line": line or 0}
        pre["s"].append(st)
    pre["t"] = {"k": "goto", "target": boff, "span": call.get("span"), "inl_call": callee["path"]}


def _callees(raw):
    out = set()
    for blk in raw["blocks"]:
        t = blk["t"]
        if t["k"] == "call":
            n = t.get("res") or t.get("decl")
            if n:
                out.add(n)
    return out


def _fn_refs(raw, names):
    """Names of `names` mentioned in constant operand types of raw (function items used as values)."""
    txt = json.dumps([raw["blocks"], raw.get("promoted")])
    return {n for n in names if ("{" + n + "}") in txt or (n + "}") in txt or ("fn item " + n) in txt}


# ---------------------------------------------------------------------------
# Option / Result combinators applied to a closure that does not exist on the reference tree
#
# `x.map(|v| e)` for `match x { Some(v) => Some(e), None => None }` (and its relatives) moves the statements a rule reads into a
# closure body.  core's definitions of these combinators are one `match` each; a call whose closure argument is *new* is replaced by
# that match, the closure being called directly in the arm that uses it - and then inlined like any other new function.

_OPT, _RES = "std::option::Option", "std::result::Result"
_VARIANTS = {_OPT: [[0, "None"], [1, "Some"]], _RES: [[0, "Ok"], [1, "Err"]]}
#  callee suffix: (receiver enum, variant the closure runs on, closure takes the payload, index of the closure argument,
#                  wrap the closure's result in (enum, variant) or None, what the other variant yields)
_COMBINATORS = {
    "option::Option::<T>::map": (_OPT, "Some", True, 1, (_OPT, "Some"), ("unit", _OPT, "None")),
    "option::Option::<T>::and_then": (_OPT, "Some", True, 1, None, ("unit", _OPT, "None")),
    "option::Option::<T>::is_some_and": (_OPT, "Some", True, 1, None, ("bool", False)),
    "option::Option::<T>::is_none_or": (_OPT, "Some", True, 1, None, ("bool", True)),
    "option::Option::<T>::map_or": (_OPT, "Some", True, 2, None, ("arg", 1)),
    "option::Option::<T>::unwrap_or_else": (_OPT, "None", False, 1, None, ("payload",)),
    "option::Option::<T>::ok_or_else": (_OPT, "None", False, 1, (_RES, "Err"), ("rewrap", _RES, "Ok")),
    "option::Option::<T>::or_else": (_OPT, "None", False, 1, None, ("rewrap", _OPT, "Some")),
    "result::Result::<T, E>::map": (_RES, "Ok", True, 1, (_RES, "Ok"), ("rewrap", _RES, "Err")),
    "result::Result::<T, E>::map_err": (_RES, "Err", True, 1, (_RES, "Err"), ("rewrap", _RES, "Ok")),
    "result::Result::<T, E>::and_then": (_RES, "Ok", True, 1, None, ("rewrap", _RES, "Err")),
    "result::Result::<T, E>::is_ok_and": (_RES, "Ok", True, 1, None, ("bool", False)),
    "result::Result::<T, E>::unwrap_or_else": (_RES, "Err", True, 1, None, ("payload",)),
}


def _vi(enum, name):
    return [v for v, n in _VARIANTS[enum] if n == name][0]


def desugar_combinators(raws, reference):
    """Rewrites, in place, every call of a combinator above whose closure argument is a closure absent from the reference tree into
    the `match` it stands for.  Returns the set of closure paths that are now called directly (to be inlined by inline_new)."""
    direct = set()
    fresh = new_closures(raws)
    if fresh is None:
        return direct
    for path, raw in raws.items():
        if _has_opaque(raw):
            continue
        nb0 = len(raw["blocks"])
        for bi in range(nb0):
            t = raw["blocks"][bi]["t"]
            if t["k"] != "call" or t.get("target") is None:
                continue
            name = t.get("res") or t.get("decl") or ""
            # a new local closure called by name (`let in_range = |p| ..; in_range(a) || in_range(b)`): a direct call of its body,
            # the argument tuple of the "rust-call" convention spread out
            if name in fresh and (t.get("decl") or "").endswith(("ops::Fn::call", "ops::FnMut::call_mut", "ops::FnOnce::call_once")) \
                    and len(t["args"]) == 2 and raws[name]["kind"] == "Closure":
                tp = t["args"][1].get("m") or t["args"][1].get("c")
                ep = t["args"][0].get("m") or t["args"][0].get("c")
                td = _single_def(raw, tp["l"]) if tp is not None and not tp["pr"] else None
                cl = raws[name]
                if td is not None and td.get("r", {}).get("k") == "agg" and td["r"].get("ak") == "tuple" and ep is not None and not ep["pr"] \
                        and len(td["r"]["ops"]) == cl["arg_count"] - 1 \
                        and cl["locals"][1]["ty"].startswith("&") == raw["locals"][ep["l"]]["ty"].startswith("&"):
                    t["args"] = [t["args"][0]] + list(td["r"]["ops"])
                    t["decl"] = name
                    direct.add(name)
                    raw.setdefault("desugared", []).append(["call", name])
                continue
            # `c.then(|| v)`: `if c { Some(v) } else { None }`
            if name in ("core::bool::<impl bool>::then", "std::bool::<impl bool>::then") and len(t["args"]) == 2:
                ca = t["args"][1]
                cp = ca.get("m") or ca.get("c")
                cond = t["args"][0]
                d = _single_def(raw, cp["l"]) if cp is not None and not cp["pr"] else None
                cpath = d["r"].get("path") if d is not None and d.get("r", {}).get("k") == "agg" and d["r"].get("ak") == "closure" else None
                cl = raws.get(cpath) if cpath else None
                if cl is not None and cpath in fresh and cl["kind"] == "Closure" and cl["arg_count"] == 1 and (cond.get("m") or cond.get("c") or cond.get("k")) is not None:
                    line = (t.get("span") or {}).get("lo") or 0
                    span = t.get("span")
                    locs = raw["locals"]

                    def newlocal3(ty):
                        locs.append({"ty": ty, "mut": True})
                        return len(locs) - 1
                    res = newlocal3(cl["locals"][0]["ty"])
                    cnd = newlocal3("bool")
                    blocks = raw["blocks"]
                    b_on, b_wrap, b_none = (len(blocks) + k_ for k_ in range(3))
                    cont, dest = t["target"], t["dest"]
                    on_stmts = []
                    env_ty = cl["locals"][1]["ty"]
                    if env_ty.startswith("&"):
                        env = newlocal3(env_ty)
                        on_stmts.append({"k": "assign", "p": {"l": env, "pr": []}, "line": line,
                                         "r": {"k": "ref", "bk": "mut" if env_ty.startswith("&mut") else "shared", "p": {"l": cp["l"], "pr": []}}})
                        cargs = [{"m": {"l": env, "pr": []}}]
                    else:
                        cargs = [{"m": {"l": cp["l"], "pr": []}}]
                    blocks.append({"s": on_stmts, "t": {"k": "call", "decl": cpath, "res": cpath, "res_kind": "Item", "args": cargs,
                                                        "dest": {"l": res, "pr": []}, "target": b_wrap, "span": span}})
                    blocks.append({"s": [{"k": "assign", "p": dest, "line": line,
                                          "r": {"k": "agg", "ak": "adt", "path": _OPT, "variant": "Some", "vi": 1, "fields": ["0"], "ops": [{"m": {"l": res, "pr": []}}]}}],
                                   "t": {"k": "goto", "target": cont, "span": span}})
                    blocks.append({"s": [{"k": "assign", "p": dest, "line": line,
                                          "r": {"k": "agg", "ak": "adt", "path": _OPT, "variant": "None", "vi": 0, "fields": [], "ops": []}}],
                                   "t": {"k": "goto", "target": cont, "span": span}})
                    pre = blocks[bi]
                    pre["s"].append({"k": "assign", "p": {"l": cnd, "pr": []}, "line": line, "r": {"k": "use", "o": cond}})
                    pre["t"] = {"k": "switch", "discr": {"m": {"l": cnd, "pr": []}}, "ty": "bool", "arms": [[0, b_none]], "otherwise": b_on,
                                "span": span, "desugared": name}
                    direct.add(cpath)
                    raw.setdefault("desugared", []).append([name, cpath])
                    continue
            # `x.filter(|v| p(v))`: `match x { Some(v) if p(&v) => Some(v), _ => None }`
            if name in ("std::option::Option::<T>::filter", "core::option::Option::<T>::filter") and len(t["args"]) == 2:
                ca = t["args"][1]
                cp = ca.get("m") or ca.get("c")
                recv = t["args"][0].get("m") or t["args"][0].get("c")
                d = _single_def(raw, cp["l"]) if cp is not None and not cp["pr"] else None
                cpath = d["r"].get("path") if d is not None and d.get("r", {}).get("k") == "agg" and d["r"].get("ak") == "closure" else None
                cl = raws.get(cpath) if cpath else None
                if cl is not None and cpath in fresh and cl["kind"] == "Closure" and cl["arg_count"] == 2 and recv is not None and not recv["pr"]:
                    line = (t.get("span") or {}).get("lo") or 0
                    span = t.get("span")
                    locs = raw["locals"]

                    def newlocal2(ty):
                        locs.append({"ty": ty, "mut": True})
                        return len(locs) - 1
                    disc = newlocal2("isize")
                    res = newlocal2("bool")
                    payref = newlocal2(cl["locals"][2]["ty"])
                    blocks = raw["blocks"]
                    b_on, b_test, b_keep, b_none, b_unr = (len(blocks) + k_ for k_ in range(5))
                    cont, dest = t["target"], t["dest"]
                    on_stmts = []
                    env_ty = cl["locals"][1]["ty"]
                    if env_ty.startswith("&"):
                        env = newlocal2(env_ty)
                        on_stmts.append({"k": "assign", "p": {"l": env, "pr": []}, "line": line,
                                         "r": {"k": "ref", "bk": "mut" if env_ty.startswith("&mut") else "shared", "p": {"l": cp["l"], "pr": []}}})
                        cargs = [{"m": {"l": env, "pr": []}}]
                    else:
                        cargs = [{"m": {"l": cp["l"], "pr": []}}]
                    on_stmts.append({"k": "assign", "p": {"l": payref, "pr": []}, "line": line,
                                     "r": {"k": "ref", "bk": "shared", "p": {"l": recv["l"], "pr": [{"dc": "Some", "vi": 1}, {"f": 0, "n": "0"}]}}})
                    cargs.append({"m": {"l": payref, "pr": []}})
                    blocks.append({"s": on_stmts, "t": {"k": "call", "decl": cpath, "res": cpath, "res_kind": "Item", "args": cargs,
                                                        "dest": {"l": res, "pr": []}, "target": b_test, "span": span}})
                    blocks.append({"s": [], "t": {"k": "switch", "discr": {"m": {"l": res, "pr": []}}, "ty": "bool", "arms": [[0, b_none]], "otherwise": b_keep, "span": span}})
                    blocks.append({"s": [{"k": "assign", "p": dest, "r": {"k": "use", "o": {"m": {"l": recv["l"], "pr": []}}}, "line": line}],
                                   "t": {"k": "goto", "target": cont, "span": span}})
                    blocks.append({"s": [{"k": "assign", "p": dest, "line": line,
                                          "r": {"k": "agg", "ak": "adt", "path": _OPT, "variant": "None", "vi": 0, "fields": [], "ops": []}}],
                                   "t": {"k": "goto", "target": cont, "span": span}})
                    blocks.append({"s": [], "t": {"k": "unreachable", "span": span}})
                    pre = blocks[bi]
                    pre["s"].append({"k": "assign", "p": {"l": disc, "pr": []}, "line": line,
                                     "r": {"k": "discr", "p": {"l": recv["l"], "pr": []}, "ty": locs[recv["l"]]["ty"], "variants": _VARIANTS[_OPT]}})
                    pre["t"] = {"k": "switch", "discr": {"m": {"l": disc, "pr": []}}, "ty": "isize", "arms": [[0, b_none], [1, b_on]], "otherwise": b_unr,
                                "span": span, "desugared": name}
                    direct.add(cpath)
                    raw.setdefault("desugared", []).append([name, cpath])
                    continue
            spec = None
            for suf, sp in _COMBINATORS.items():
                if name.endswith(suf) and name[:-len(suf)] in ("std::", "core::"):
                    spec = sp
            if spec is None:
                continue
            enum, on, takes, ci, wrap, other = spec
            if len(t["args"]) <= ci:
                continue
            ca = t["args"][ci]
            cp = ca.get("m") or ca.get("c")
            recv = t["args"][0].get("m") or t["args"][0].get("c")
            if cp is None or cp["pr"] or recv is None:
                continue
            d = _single_def(raw, cp["l"])
            if d is None or d.get("r", {}).get("k") != "agg" or d["r"].get("ak") != "closure":
                continue
            cpath = d["r"].get("path")
            cl = raws.get(cpath)
            if cl is None or cpath not in fresh or cl["kind"] != "Closure" or cl["arg_count"] != (2 if takes else 1):
                continue
            if other[0] == "arg" and len(t["args"]) <= other[1]:
                continue
            line = (t.get("span") or {}).get("lo") or 0
            span = t.get("span")
            locs = raw["locals"]

            def newlocal(ty):
                locs.append({"ty": ty, "mut": True})
                return len(locs) - 1
            disc = newlocal("isize")
            res = newlocal(cl["locals"][0]["ty"])
            rty = locs[recv["l"]]["ty"] if not recv["pr"] else "?"
            blocks = raw["blocks"]
            b_on, b_wrap, b_other, b_unr = len(blocks), len(blocks) + 1, len(blocks) + 2, len(blocks) + 3
            cont = t["target"]
            dest = t["dest"]
            other_variant = [n for _v, n in _VARIANTS[enum] if n != on][0]
            # the arm that runs the closure
            on_stmts = []
            env_ty = cl["locals"][1]["ty"]
            if env_ty.startswith("&"):
                env = newlocal(env_ty)
                on_stmts.append({"k": "assign", "p": {"l": env, "pr": []}, "line": line,
                                 "r": {"k": "ref", "bk": "mut" if env_ty.startswith("&mut") else "shared", "p": {"l": cp["l"], "pr": []}}})
                cargs = [{"m": {"l": env, "pr": []}}]
            else:
                cargs = [{"m": {"l": cp["l"], "pr": []}}]
            if takes:
                pay = newlocal(cl["locals"][2]["ty"])
                on_stmts.append({"k": "assign", "p": {"l": pay, "pr": []}, "line": line,
                                 "r": {"k": "use", "o": {"m": {"l": recv["l"], "pr": list(recv["pr"]) + [{"dc": on, "vi": _vi(enum, on)}, {"f": 0, "n": "0"}]}}}})
                cargs.append({"m": {"l": pay, "pr": []}})
            blocks.append({"s": on_stmts, "t": {"k": "call", "decl": cpath, "res": cpath, "res_kind": "Item", "args": cargs,
                                                "dest": {"l": res, "pr": []}, "target": b_wrap, "span": span}})
            if wrap is None:
                r_ = {"k": "use", "o": {"m": {"l": res, "pr": []}}}
            else:
                r_ = {"k": "agg", "ak": "adt", "path": wrap[0], "variant": wrap[1], "vi": _vi(wrap[0], wrap[1]), "fields": ["0"], "ops": [{"m": {"l": res, "pr": []}}]}
            blocks.append({"s": [{"k": "assign", "p": dest, "r": r_, "line": line}], "t": {"k": "goto", "target": cont, "span": span}})
            # the other arm
            opay = {"m": {"l": recv["l"], "pr": list(recv["pr"]) + [{"dc": other_variant, "vi": _vi(enum, other_variant)}, {"f": 0, "n": "0"}]}}
            if other[0] == "unit":
                r2 = {"k": "agg", "ak": "adt", "path": other[1], "variant": other[2], "vi": _vi(other[1], other[2]), "fields": [], "ops": []}
            elif other[0] == "bool":
                r2 = {"k": "use", "o": {"k": {"ty": "bool", "v": {"bool": other[1]}}}}
            elif other[0] == "arg":
                r2 = {"k": "use", "o": t["args"][other[1]]}
            elif other[0] == "payload":
                r2 = {"k": "use", "o": opay}
            else:
                r2 = {"k": "agg", "ak": "adt", "path": other[1], "variant": other[2], "vi": _vi(other[1], other[2]), "fields": ["0"], "ops": [opay]}
            blocks.append({"s": [{"k": "assign", "p": dest, "r": r2, "line": line}], "t": {"k": "goto", "target": cont, "span": span}})
            blocks.append({"s": [], "t": {"k": "unreachable", "span": span}})
            pre = blocks[bi]
            pre["s"].append({"k": "assign", "p": {"l": disc, "pr": []}, "line": line,
                             "r": {"k": "discr", "p": {"l": recv["l"], "pr": list(recv["pr"])}, "ty": rty, "variants": _VARIANTS[enum]}})
            arms = [[_vi(enum, on), b_on], [_vi(enum, other_variant), b_other]]
            pre["t"] = {"k": "switch", "discr": {"m": {"l": disc, "pr": []}}, "ty": "isize", "arms": sorted(arms), "otherwise": b_unr, "span": span,
                        "desugared": name}
            direct.add(cpath)
            raw.setdefault("desugared", []).append([name, cpath])
    return direct


def inline_new(raws, reference, direct=()):
    """raws: {path: raw body dict} of the whole program (mutated in place).  `direct`: closures that desugar_combinators turned into
    directly called functions.
    Returns a report: {"inlined": [[caller, callee, n_sites]], "removed": [paths], "skipped": [[callee, reason]]}."""
    new = {}
    skipped = []
    for p, r in raws.items():
        if p in reference or (r["kind"] not in ("Fn", "AssocFn") and p not in direct):
            continue
        # closures / consts nested in a new function follow their parent: never callees themselves
        if r.get("impl_trait") or r.get("trait_default_of"):
            skipped.append([p, "trait method"])
            continue
        if _has_opaque(r):
            skipped.append([p, "opaque MIR construct"])
            continue
        if len(r["blocks"]) > MAX_CALLEE_BLOCKS:
            skipped.append([p, "too large"])
            continue
        new[p] = r
    if not new:
        return {"inlined": [], "removed": [], "skipped": skipped}
    # recursion among new functions: drop every member of a cycle
    graph = {p: _callees(r) & set(new) for p, r in new.items()}

    def reaches(a, b, seen):
        for c in graph.get(a, ()):
            if c == b:
                return True
            if c not in seen:
                seen.add(c)
                if reaches(c, b, seen):
                    return True
        return False
    for p in list(new):
        if reaches(p, p, set()):
            skipped.append([p, "recursive"])
            del new[p]
    # bottom-up order: a new function is final once the new functions it calls are inlined into it
    done = set()
    order = []
    while len(done) < len(new):
        prog = False
        for p in sorted(new):
            if p in done:
                continue
            if all(c in done or c not in new for c in graph[p]):
                order.append(p)
                done.add(p)
                prog = True
        if not prog:
            break
    inlined = []
    pristine = {}

    def process(raw):
        n = {}
        i = 0
        while i < len(raw["blocks"]):
            t = raw["blocks"][i]["t"]
            if t["k"] == "call":
                c = t.get("res") or t.get("decl")
                if c in new and c != raw["path"] and c in pristine and len(raw["blocks"]) + len(pristine[c]["blocks"]) <= MAX_BODY_BLOCKS:
                    _inline_call(raw, i, pristine[c])
                    n[c] = n.get(c, 0) + 1
            i += 1
        for c, k in sorted(n.items()):
            inlined.append([raw["path"], c, k])
            raw.setdefault("inlined", []).append(c)
    for p in order:
        process(new[p])
        pristine[p] = new[p]
    for p, r in raws.items():
        if p not in new:
            process(r)
    # remove new private functions with no remaining use
    removed = []
    still = set()
    for p, r in raws.items():
        if p in new:
            continue
        still |= (_callees(r) & set(new))
        still |= _fn_refs(r, set(new))
    for p in sorted(new):
        r = new[p]
        if r.get("pub"):
            continue
        if p in still:
            continue
        removed.append(p)
    for p in removed:
        del raws[p]
    return {"inlined": inlined, "removed": removed, "skipped": skipped}


# ---------------------------------------------------------------------------
# renamed / moved functions


def reference_meta():
    with open(REFERENCE) as fh:
        return json.load(fh).get("meta", {})


def _rename_strings(x, pairs, rx):
    if isinstance(x, str):
        if any(n in x for n, _ in pairs):
            return rx.sub(lambda m: dict(pairs)[m.group(1)], x)
        return x
    if isinstance(x, list):
        return [_rename_strings(y, pairs, rx) for y in x]
    if isinstance(x, dict):
        return {k: _rename_strings(v, pairs, rx) for k, v in x.items()}
    return x


def alias_renamed(raws, reference, meta):
    """A reference function that is gone while exactly one new function of the same crate has its signature, impl type and trait
    was renamed or moved to another module - a change of spelling, not of behaviour.  The new path is rewritten to the reference
    path everywhere in the facts (bodies, callees, closure paths, function-item constants), so that every anchor still finds it
    and the inliner does not treat it as an extracted helper.  Ambiguous cases (several candidates) are left alone.
    Returns [[new path, reference path]]."""
    import re
    cur = {p for p, r in raws.items() if r["kind"] in ("Fn", "AssocFn")}
    missing = [p for p in reference if p not in cur and p in meta]
    new = [p for p in cur if p not in reference]
    if not missing or not new:
        return []
    pairs = []
    taken = set()
    for m in sorted(missing):
        crate, sig, impl_self, trait = meta[m]
        if trait:
            continue
        # the signature text of a method names its impl type by path: compare with the module part of paths removed
        def norm(s):
            return re.sub(r"\b(?:[a-z_][a-z0-9_]*::)+", "", s or "")
        cands = [n for n in new if n not in taken and raws[n].get("_crate") == crate and norm(raws[n].get("sig")) == norm(sig)
                 and norm(raws[n].get("impl_self")) == norm(impl_self) and not (raws[n].get("impl_trait") or raws[n].get("trait_default_of"))]
        same_name = [n for n in cands if n.rsplit("::", 1)[-1] == m.rsplit("::", 1)[-1]]
        if len(same_name) == 1:
            cands = same_name
        if len(cands) == 1:
            pairs.append((cands[0], m))
            taken.add(cands[0])
    if not pairs:
        return []
    rx = re.compile("(" + "|".join(re.escape(n) for n, _ in sorted(pairs, key=lambda x: -len(x[0]))) + r")(?![A-Za-z0-9_])")
    for p in list(raws):
        r = raws.pop(p)
        r2 = _rename_strings(r, pairs, rx)
        raws[r2["path"]] = r2
    return [[n, m] for n, m in pairs]
