"""CFG analyses on a Body: dominators, post-dominators, control dependence, loops.

Unwind edges are not exported by the driver; `assert` failure and diverging calls are
exits of kind *panic* (no successor).  Post-dominance is computed w.r.t. a virtual exit
that joins every `return` block only (panic exits are not "normal" exits), which is the
notion the pairing rules need ("on every path that returns ...").
"""

EXIT = -1


def _rpo(n, succ, root):
    seen = set()
    order = []
    st = [(root, iter(succ(root)))]
    seen.add(root)
    while st:
        x, it = st[-1]
        adv = False
        for s in it:
            if s not in seen:
                seen.add(s)
                st.append((s, iter(succ(s))))
                adv = True
                break
        if not adv:
            order.append(x)
            st.pop()
    order.reverse()
    return order


def _idoms(nodes_rpo, preds, root):
    idx = {b: i for i, b in enumerate(nodes_rpo)}
    idom = {root: root}

    def inter(a, b):
        while a != b:
            while idx[a] > idx[b]:
                a = idom[a]
            while idx[b] > idx[a]:
                b = idom[b]
        return a

    ch = True
    while ch:
        ch = False
        for b in nodes_rpo:
            if b == root:
                continue
            ps = [p for p in preds(b) if p in idom]
            if not ps:
                continue
            new = ps[0]
            for p in ps[1:]:
                new = inter(p, new)
            if idom.get(b) != new:
                idom[b] = new
                ch = True
    return idom


def idom(body):
    if body._idom is None:
        order = _rpo(len(body.blocks), body.succs, 0)
        body._idom = _idoms(order, body.preds, 0)
    return body._idom


def dominates(body, a, b):
    """a dominates b (reflexive)."""
    d = idom(body)
    if b not in d:
        return False
    x = b
    while True:
        if x == a:
            return True
        nx = d[x]
        if nx == x:
            return False
        x = nx


def ipdom(body):
    """Immediate post-dominators w.r.t. the virtual EXIT joining all return blocks.
    Blocks that cannot reach a return are absent."""
    if body._ipdom is None:
        rets = body.return_blocks()

        def rsucc(x):
            if x == EXIT:
                return rets
            return [p for p in body.preds(x) if p in body.reachable]

        def rpred(x):
            if x == EXIT:
                return []
            s = list(body.succs(x))
            if body.blocks[x]["t"]["k"] == "return":
                s = s + [EXIT]
            return s

        order = _rpo(0, rsucc, EXIT)
        body._ipdom = _idoms(order, rpred, EXIT)
    return body._ipdom


def postdominates(body, a, b):
    """a post-dominates b: every path from b to a normal return passes a (reflexive)."""
    d = ipdom(body)
    if b not in d:
        return False
    x = b
    while True:
        if x == a:
            return True
        nx = d[x]
        if nx == x:
            return False
        x = nx


def control_deps(body):
    """Map block -> set of (branch block, successor taken) it is directly control dependent on
    (Ferrante et al. via post-dominator tree).  Panic exits make 'reaches a return' itself
    conditional; blocks that cannot reach a return get dependences computed on the forward
    dominator structure instead (they depend on the edge that makes return unreachable)."""
    if body._cd is not None:
        return body._cd
    pd = ipdom(body)
    cd = {b: set() for b in body.reachable}
    for a in body.reachable:
        ss = body.succs(a)
        if len(ss) < 2:
            continue
        for s in ss:
            if s not in pd:
                # s cannot return normally: everything reachable from s only via this edge depends on it
                for x in _region_no_return(body, s, pd):
                    cd[x].add((a, s))
                continue
            # walk up from s in the post-dominator tree until ipdom(a)
            stop = pd.get(a)
            x = s
            guard = 0
            while x != stop and x != EXIT and guard < 100000:
                guard += 1
                cd[x].add((a, s))
                nx = pd[x]
                if nx == x:
                    break
                x = nx
    body._cd = cd
    return cd


def _region_no_return(body, s, pd):
    seen = set()
    st = [s]
    while st:
        x = st.pop()
        if x in seen or x in pd:
            continue
        seen.add(x)
        st.extend(body.succs(x))
    return seen


def transitive_controls(body, b):
    """All (branch block, successor) pairs b is transitively control dependent on."""
    cd = control_deps(body)
    out = set()
    st = [b]
    seen = {b}
    while st:
        x = st.pop()
        for (a, s) in cd.get(x, ()):
            if (a, s) not in out:
                out.add((a, s))
            if a not in seen:
                seen.add(a)
                st.append(a)
    return out


def back_edges(body):
    """Edges (u, v) where v dominates u (natural loop back edges)."""
    out = []
    for u in body.reachable:
        for v in body.succs(u):
            if dominates(body, v, u):
                out.append((u, v))
    return out


def natural_loop(body, u, v):
    """Blocks of the natural loop of back edge u->v."""
    loop = {v, u}
    st = [u]
    while st:
        x = st.pop()
        if x == v:
            continue
        for p in body.preds(x):
            if p not in loop and p in body.reachable:
                loop.add(p)
                st.append(p)
    return loop


def loops(body):
    """Map header -> set of blocks (merged over back edges with the same header)."""
    out = {}
    for (u, v) in back_edges(body):
        out.setdefault(v, set()).update(natural_loop(body, u, v))
    return out


def reaches(body, a, b, avoid=()):
    """Is there a CFG path a ->* b (length >= 0) not passing through blocks in `avoid`
    (a and b themselves may be in avoid only if a == b is not needed)."""
    if a == b:
        return True
    seen = {a}
    st = [a]
    av = set(avoid)
    while st:
        x = st.pop()
        for s in body.succs(x):
            if s == b:
                return True
            if s in seen or s in av:
                continue
            seen.add(s)
            st.append(s)
    return False


def reachable_from(body, a, avoid=()):
    seen = set()
    st = list(body.succs(a))
    av = set(avoid)
    while st:
        x = st.pop()
        if x in seen or x in av:
            continue
        seen.add(x)
        st.extend(body.succs(x))
    return seen
