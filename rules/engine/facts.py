"""Fact acquisition and program model.

Facts come from the hn-facts rustc driver run over /repo's *current* working tree.
A content hash of the tree keys a small cache so that the 20 checks of one batch do
not each pay the 12 s extraction; any edit to the tree changes the key.
"""
import fcntl
import hashlib
import json
import os
import shutil
import subprocess
import sys
import tempfile
import time

VERIF = os.path.dirname(os.path.dirname(os.path.dirname(os.path.abspath(__file__))))
REPO = os.environ.get("HN_REPO", "/repo")
DRIVER = os.path.join(VERIF, "driver", "target", "release", "hn-facts")
CACHE = os.path.join(VERIF, ".cache")
CRATES = ["huginn_net_db", "huginn_net_tcp", "huginn_net_http", "huginn_net_tls", "huginn_net"]
# fail-closed floors on the number of exported bodies per crate (counted on the pinned tree:
# db 306, tcp 271, http 441, tls 257, unified 86); a driver that silently skipped code
# would fall below these.
BODY_FLOORS = {"huginn_net_db": 250, "huginn_net_tcp": 220, "huginn_net_http": 380,
               "huginn_net_tls": 210, "huginn_net": 70}


class FactsError(Exception):
    pass


def tree_hash(repo=None):
    repo = repo or REPO
    h = hashlib.sha256()
    roots = [d for d in sorted(os.listdir(repo)) if d.startswith("huginn-net") and os.path.isdir(os.path.join(repo, d))]
    files = []
    for r in roots:
        for dp, dn, fn in os.walk(os.path.join(repo, r)):
            dn[:] = sorted(d for d in dn if d not in ("target", ".git", "snapshots"))
            for f in sorted(fn):
                files.append(os.path.join(dp, f))
    for f in ("Cargo.toml", "Cargo.lock"):
        files.append(os.path.join(repo, f))
    # the driver binary is part of the key (a rebuilt driver invalidates the cache)
    files.append(DRIVER)
    for f in files:
        h.update(f.encode())
        h.update(b"\0")
        try:
            with open(f, "rb") as fh:
                h.update(fh.read())
        except OSError:
            h.update(b"<missing>")
        h.update(b"\0")
    return h.hexdigest()[:24]


def _nightly_sysroot():
    return subprocess.check_output(["rustc", "+nightly", "--print", "sysroot"], text=True).strip()


def _deps_key(repo):
    """key of the dependency build that can be shared between extractions: lock file, driver and compiler"""
    h = hashlib.sha256()
    for f in (os.path.join(repo, "Cargo.lock"), DRIVER):
        try:
            with open(f, "rb") as fh:
                h.update(fh.read())
        except OSError:
            h.update(b"<missing>")
    h.update(subprocess.check_output(["rustc", "+nightly", "-vV"]))
    return h.hexdigest()[:16]


def _strip_members(target):
    """remove every build product and fingerprint of the workspace members from a target directory, so that cargo must run the
    (wrapped) compiler on each of them again; the third-party dependencies stay built"""
    dbg = os.path.join(target, "debug")
    for sub in (".fingerprint", "deps", "incremental", "build"):
        d = os.path.join(dbg, sub)
        if not os.path.isdir(d):
            continue
        for e in os.listdir(d):
            n = e.replace("-", "_")
            if n.startswith(("huginn_net", "libhuginn_net")):
                pth = os.path.join(d, e)
                if os.path.isdir(pth):
                    shutil.rmtree(pth, ignore_errors=True)
                else:
                    try:
                        os.unlink(pth)
                    except OSError:
                        pass


def _extract(outdir, repo=None):
    """Run the fact driver over the workspace of `repo`.  Third-party dependencies are compiled once per (Cargo.lock, driver,
    compiler) into a template target directory under the cache; every extraction works on its own copy of that template from which
    all products of the workspace members were removed, so the five member crates are always recompiled by the driver from the
    tree being analysed (their fact files are asserted to exist afterwards)."""
    repo = repo or REPO
    if not os.path.exists(DRIVER):
        raise FactsError("driver binary missing: run MANIFEST.setup_cmd (%s)" % DRIVER)
    scratch = tempfile.mkdtemp(prefix="hnfacts-", dir=os.environ.get("HN_SCRATCH") or None)
    try:
        env = dict(os.environ)
        env["LD_LIBRARY_PATH"] = _nightly_sysroot() + "/lib"
        env["RUSTFLAGS"] = "-Zmir-opt-level=0 -Awarnings"
        env["RUSTC_WORKSPACE_WRAPPER"] = DRIVER
        env["CARGO_TARGET_DIR"] = os.path.join(scratch, "target")
        env["HN_FACTS_OUT"] = os.path.join(scratch, "facts")
        env["CARGO_NET_OFFLINE"] = "true"
        for k in ("RUSTC_WRAPPER", "CARGO_BUILD_RUSTC_WRAPPER"):
            env.pop(k, None)
        cmd = ["cargo", "+nightly", "check", "--offline", "--workspace", "--lib", "-q"]
        tmpl = None
        if os.environ.get("VERIF_NO_DEPS_CACHE") != "1":
            try:
                os.makedirs(CACHE, exist_ok=True)
                tmpl = os.path.join(CACHE, "deps-" + _deps_key(repo))
                with open(tmpl + ".lock", "w") as lk:
                    fcntl.flock(lk, fcntl.LOCK_EX)
                    if not os.path.isdir(os.path.join(tmpl, "target")):
                        t2 = tmpl + ".tmp%d" % os.getpid()
                        shutil.rmtree(t2, ignore_errors=True)
                        e2 = dict(env)
                        e2["CARGO_TARGET_DIR"] = os.path.join(t2, "target")
                        e2["HN_FACTS_OUT"] = os.path.join(t2, "facts")
                        p0 = subprocess.run(cmd, cwd=repo, env=e2, stdout=subprocess.PIPE, stderr=subprocess.STDOUT, text=True)
                        if p0.returncode == 0:
                            _strip_members(os.path.join(t2, "target"))
                            shutil.rmtree(os.path.join(t2, "facts"), ignore_errors=True)
                            os.rename(t2, tmpl)
                        else:
                            shutil.rmtree(t2, ignore_errors=True)
                            tmpl = None      # the tree does not build: fall through to the plain run for the error text
                if tmpl is not None and os.path.isdir(os.path.join(tmpl, "target")):
                    subprocess.check_call(["cp", "-a", os.path.join(tmpl, "target"), os.path.join(scratch, "target")])
                    _strip_members(os.path.join(scratch, "target"))
            except (OSError, subprocess.CalledProcessError):
                shutil.rmtree(os.path.join(scratch, "target"), ignore_errors=True)
        p = subprocess.run(cmd, cwd=repo, env=env, stdout=subprocess.PIPE, stderr=subprocess.STDOUT, text=True)
        if p.returncode != 0:
            raise FactsError("cargo check under the fact driver failed:\n" + p.stdout[-4000:])
        os.makedirs(outdir, exist_ok=True)
        for c in CRATES:
            src = os.path.join(scratch, "facts", c + ".json")
            if not os.path.exists(src):
                raise FactsError("fact file missing for crate %s (driver skipped?)" % c)
            shutil.copy(src, os.path.join(outdir, c + ".json"))
    finally:
        shutil.rmtree(scratch, ignore_errors=True)


def acquire(repo=None, cache=None):
    """Return (dir with the five fact files, info dict). Uses the content-hash cache.

    Extraction is serialised per tree hash only (checks of one tree share one extraction, checks of different
    trees - the self-validation variants - run in parallel); pruning takes a short global lock."""
    repo = repo or REPO
    cache = cache or CACHE
    os.makedirs(cache, exist_ok=True)
    t0 = time.time()
    key = tree_hash(repo)
    d = os.path.join(cache, key)
    info = {"tree_hash": key, "cached": True}
    with open(os.path.join(cache, "lock-" + key), "w") as lk:
        fcntl.flock(lk, fcntl.LOCK_EX)
        ok = os.path.isdir(d) and all(os.path.exists(os.path.join(d, c + ".json")) for c in CRATES)
        if os.environ.get("VERIF_NO_CACHE") == "1" and ok:
            shutil.rmtree(d)
            ok = False
        if not ok:
            info["cached"] = False
            tmp = d + ".tmp%d" % os.getpid()
            shutil.rmtree(tmp, ignore_errors=True)
            _extract(tmp, repo)
            shutil.rmtree(d, ignore_errors=True)
            os.rename(tmp, d)
        os.utime(d, None)
    with open(os.path.join(cache, "lock"), "w") as lk:
        fcntl.flock(lk, fcntl.LOCK_EX)
        # prune: keep the most recent entries
        ents = [os.path.join(cache, e) for e in os.listdir(cache) if os.path.isdir(os.path.join(cache, e)) and ".tmp" not in e and not e.startswith("deps-")]
        ents.sort(key=lambda p: os.path.getmtime(p), reverse=True)
        for e in ents[6:]:
            if e != d:
                shutil.rmtree(e, ignore_errors=True)
                try:
                    os.unlink(os.path.join(cache, "lock-" + os.path.basename(e)))
                except OSError:
                    pass
    info["extract_s"] = round(time.time() - t0, 2)
    return d, info


# ---------------------------------------------------------------------------
# Program model


class Body:
    __slots__ = ("raw", "path", "crate", "blocks", "locals", "arg_count", "file", "lo", "hi",
                 "_succ", "_pred", "_reach", "_dom", "_pdom", "_cd", "kind", "pub", "_defs", "_idom", "_ipdom")

    def __init__(self, raw, crate):
        self.raw = raw
        self.path = raw["path"]
        self.crate = crate
        self.blocks = raw["blocks"]
        self.locals = raw["locals"]
        self.arg_count = raw["arg_count"]
        bs = raw.get("body_span") or raw["span"]
        self.file = bs["file"]
        self.lo = bs["lo"]
        self.hi = bs["hi"]
        self.kind = raw["kind"]
        self.pub = raw.get("pub", False)
        self._succ = None
        self._pred = None
        self._reach = None
        self._dom = None
        self._pdom = None
        self._cd = None
        self._defs = None
        self._idom = None
        self._ipdom = None

    def __repr__(self):
        return "<Body %s>" % self.path

    @property
    def name(self):
        return self.path.rsplit("::", 1)[-1]

    @property
    def impl_self(self):
        return self.raw.get("impl_self")

    @property
    def impl_trait(self):
        return self.raw.get("impl_trait")

    @property
    def from_macro(self):
        return "exp" in self.raw["span"]

    def local_name(self, l):
        return self.locals[l].get("name")

    def local_ty(self, l):
        return self.locals[l]["ty"]

    # -- CFG ---------------------------------------------------------------
    def term(self, b):
        return self.blocks[b]["t"]

    def succs(self, b):
        if self._succ is None:
            self._build_cfg()
        return self._succ[b]

    def preds(self, b):
        if self._succ is None:
            self._build_cfg()
        return self._pred[b]

    def _build_cfg(self):
        n = len(self.blocks)
        succ = [[] for _ in range(n)]
        for i, blk in enumerate(self.blocks):
            t = blk["t"]
            k = t["k"]
            if k in ("goto", "drop"):
                succ[i] = [t["target"]]
            elif k == "switch":
                s = [a[1] for a in t["arms"]] + [t["otherwise"]]
                seen = []
                for x in s:
                    if x not in seen:
                        seen.append(x)
                succ[i] = seen
            elif k == "call":
                if t["target"] is not None:
                    succ[i] = [t["target"]]
            elif k == "assert":
                succ[i] = [t["target"]]
        pred = [[] for _ in range(n)]
        for i, ss in enumerate(succ):
            for s in ss:
                pred[s].append(i)
        self._succ = succ
        self._pred = pred
        # reachable from entry
        seen = {0}
        st = [0]
        while st:
            x = st.pop()
            for s in succ[x]:
                if s not in seen:
                    seen.add(s)
                    st.append(s)
        self._reach = seen

    @property
    def reachable(self):
        if self._succ is None:
            self._build_cfg()
        return self._reach

    def return_blocks(self):
        return [i for i in self.reachable if self.blocks[i]["t"]["k"] == "return"]

    def calls(self):
        """Yield (block index, terminator) for every reachable call."""
        for i in sorted(self.reachable):
            t = self.blocks[i]["t"]
            if t["k"] == "call":
                yield i, t

    def iter_stmts(self):
        for i in sorted(self.reachable):
            for j, s in enumerate(self.blocks[i]["s"]):
                yield i, j, s


def callee_of(t):
    """Best name for a call terminator: resolved instance path if known, else declared."""
    return t.get("res") or t.get("decl") or "<indirect>"


class Program:
    def __init__(self, factdir, info=None):
        self.info = info or {}
        self.crates = {}
        self.bodies = {}
        self.adts = {}
        self.consts = {}
        self.impls = []
        self.traits = {}
        raws = {}
        for c in CRATES:
            with open(os.path.join(factdir, c + ".json")) as fh:
                raw = json.load(fh)
            self.crates[c] = raw
            if len(raw["bodies"]) < BODY_FLOORS[c]:
                raise FactsError("crate %s: %d bodies exported, floor %d" % (c, len(raw["bodies"]), BODY_FLOORS[c]))
            for b in raw["bodies"]:
                b["_crate"] = c
                raws[b["path"]] = b
        # functions absent from the reference tree are inlined into their callers (engine/inline.py)
        from . import inline as _inline
        ref = _inline.reference_paths()
        # a function that was only renamed or moved keeps its reference path (engine/inline.alias_renamed)
        self.renamed = _inline.alias_renamed(raws, ref, _inline.reference_meta())
        self.info["renamed_functions"] = self.renamed
        self.inline_report = _inline.inline_new(raws, ref)
        # a closure absent from the reference tree that is handed to an Option / Result combinator: the combinator is replaced by the
        # `match` it stands for and the closure inlined (after the new functions, so that a closure is compared by what it really calls)
        direct = _inline.desugar_combinators(raws, ref)
        if direct:
            rep2 = _inline.inline_new(raws, ref, direct)
            for k_ in ("inlined", "removed", "skipped"):
                self.inline_report[k_] = self.inline_report[k_] + [x for x in rep2[k_] if x not in self.inline_report[k_]]
            self.inline_report["desugared_closures"] = sorted(direct)
        self.info["inlined_new_functions"] = self.inline_report
        for p, b in raws.items():
            self.bodies[p] = Body(b, b["_crate"])
        for c in CRATES:
            raw = self.crates[c]
            for a in raw["adts"]:
                self.adts[a["path"]] = a
            for k in raw["consts"]:
                self.consts[k["path"]] = k
            for im in raw["impls"]:
                im = dict(im)
                im["crate"] = c
                self.impls.append(im)
            for tr in raw["traits"]:
                self.traits[tr["path"]] = tr

    def body(self, path):
        b = self.bodies.get(path)
        if b is None:
            raise AnchorMissing("function not found: " + path)
        return b

    def method(self, self_ty, name, trait=None):
        """Look a method up by (impl self type, method name[, trait def path]) - independent of the
        module the impl block lives in.  self_ty / trait are matched as path suffixes (generic
        arguments of the self type are ignored)."""
        out = []
        for b in self.bodies.values():
            if b.kind != "AssocFn" or b.name != name:
                continue
            st = b.impl_self or b.raw.get("trait_default_of")
            if st is None:
                continue
            base = st.split("<")[0]
            if not (base == self_ty or base.endswith("::" + self_ty)):
                continue
            if trait is not None:
                tr = b.impl_trait or ""
                if not (tr == trait or tr.endswith("::" + trait)):
                    continue
            out.append(b)
        if not out:
            raise AnchorMissing("method not found: %s::%s%s" % (self_ty, name, (" (trait %s)" % trait) if trait else ""))
        return out

    def method1(self, self_ty, name, trait=None):
        m = self.method(self_ty, name, trait)
        if len(m) != 1:
            raise AnchorMissing("method ambiguous (%d candidates): %s::%s" % (len(m), self_ty, name))
        return m[0]

    def fn(self, suffix):
        """Free function (or any body) by crate-qualified path suffix; must be unique."""
        c = [b for p, b in self.bodies.items() if (p == suffix or p.endswith("::" + suffix)) and b.kind != "Closure"]
        if len(c) != 1:
            raise AnchorMissing("function %s: %d candidates" % (suffix, len(c)))
        return c[0]

    def closure_of(self, creator_body, closure_path):
        b = self.bodies.get(closure_path)
        if b is None:
            raise AnchorMissing("closure body missing: " + closure_path)
        return b

    def find_bodies(self, suffix):
        return [b for p, b in self.bodies.items() if p.endswith(suffix)]

    def inlined_view(self, path, callee_suffixes):
        """A copy of body `path` with its calls to the workspace functions named by `callee_suffixes` replaced by their bodies
        (engine/inline._inline_call).  A rule that reads a function together with a small helper it calls is written against
        this view: it sees the same statements whether the helper exists or was written out inline at the call."""
        import copy
        from . import inline as _inline
        key = (path, tuple(callee_suffixes))
        cache = self.__dict__.setdefault("_views", {})
        if key in cache:
            return cache[key]
        b0 = self.body(path)
        raw = copy.deepcopy(b0.raw)
        i = 0
        n = 0
        while i < len(raw["blocks"]) and n < 20:
            t = raw["blocks"][i]["t"]
            if t["k"] == "call":
                c = t.get("res") or t.get("decl") or ""
                cal = self.bodies.get(c)
                if cal is not None and c != path and c.endswith(tuple(callee_suffixes)) and not _inline._has_opaque(cal.raw) \
                        and len(cal.raw["blocks"]) <= _inline.MAX_CALLEE_BLOCKS:
                    _inline._inline_call(raw, i, cal.raw)
                    raw.setdefault("inlined", []).append(c)
                    n += 1
            i += 1
        cache[key] = Body(raw, b0.crate)
        return cache[key]

    def closures_of(self, path):
        """closure bodies created in `path` - including those of new functions inlined into it"""
        pres = [path + "::{closure#"]
        b0 = self.bodies.get(path)
        if b0 is not None:
            pres += [q + "::{closure#" for q in b0.raw.get("inlined", [])]
        return [b for p, b in self.bodies.items() if p.startswith(tuple(pres))]

    def adt(self, path):
        a = self.adts.get(path)
        if a is None:
            raise AnchorMissing("type not found: " + path)
        return a

    def variants(self, path):
        return [v["name"] for v in self.adt(path)["variants"]]

    def const(self, path):
        c = self.consts.get(path)
        if c is None:
            raise AnchorMissing("const not found: " + path)
        return c

    def counts(self):
        return {c: len(self.crates[c]["bodies"]) for c in CRATES}


class AnchorMissing(Exception):
    """An anchor (function, type, field, callee) a rule needs is absent: the rule cannot decide."""
    pass


_PROGRAM = None


def load_program(repo=None, cache=None):
    """The program of /repo's working tree (memoised); with `repo` given, a fresh un-memoised program of that tree."""
    global _PROGRAM
    if repo is not None:
        d, info = acquire(repo, cache)
        return Program(d, info)
    if _PROGRAM is None:
        d, info = acquire()
        t0 = time.time()
        _PROGRAM = Program(d, info)
        _PROGRAM.info["load_s"] = round(time.time() - t0, 2)
    return _PROGRAM
