"""Guarded values: the alternatives a place can hold at a program point, each with the branch conditions under which
that alternative was assigned.

`x = if c { Some(a) } else { None }` yields [(Some(a), [c]), (None, [!c])].  The same list is produced for the spellings
that leave behaviour unchanged: the alternatives built as a tuple and destructured (`let (x, y) = if c {(Some(a), None)} ..`),
a copy through another local, and `c.then(|| a)` / `c.then_some(a)` (core::bool: Some(f()) if c else None)."""
from . import q as Q
from . import terms as T
from .facts import callee_of

MAXD = 10
NONE = ("agg", "adt", "core::option::Option", "None", ())


def _merge(a, b):
    out = list(a)
    for c in b:
        if c not in out:
            out.append(c)
    return out


def _simple(p):
    pr = p["pr"]
    return not pr or (len(pr) == 1 and isinstance(pr[0], dict) and "f" in pr[0] and "n" not in pr[0])


def guarded_values(P, body, S, p, blk, idx, depth=0):
    """[(term, canonical conds, (def block, def index))] for place `p` read just before statement idx of block blk."""
    if depth > MAXD or not _simple(p):
        return [(S.place(p, blk, idx), Q.canon_conds(P, T.dom_conds(body, S, blk)), (blk, idx))]
    want = p["pr"][0]["f"] if p["pr"] else None
    l = p["l"]
    sites, entry = S.reaching(l, blk, idx)
    out = []
    if entry or not sites:
        out.append((S.place(p, blk, idx), [], (0, 0)))
    for (db, dj) in sorted(set(sites)):
        base = Q.canon_conds(P, T.dom_conds(body, S, db))
        b = body.blocks[db]
        if dj == -1:
            t = b["t"]
            name = callee_of(t)
            if want is None and name.rsplit("::", 1)[-1] in ("then", "then_some") and "bool" in name and len(t["args"]) == 2:
                n = len(b["s"])
                c = S.operand(t["args"][0], db, n)
                pol = True
                while c[0] == "unop" and c[1] == "Not":
                    c, pol = c[2], not pol
                v = S.operand(t["args"][1], db, n)
                some = ("agg", "adt", "core::option::Option", "Some", (v,))
                out.append((some, _merge(base, [Q._norm_cmp(x) for x in Q.canon_cond(P, c, pol, db)]), (db, dj)))
                out.append((NONE, _merge(base, [Q._norm_cmp(x) for x in Q.canon_cond(P, c, not pol, db)]), (db, dj)))
                continue
            term = S.def_term(l, db, dj, 0)
            out.append((term if want is None else T.field(term, None, want), base, (db, dj)))
            continue
        s = b["s"][dj]
        if s["k"] != "assign" or s["p"]["pr"]:
            out.append((S.place(p, blk, idx), base, (db, dj)))
            continue
        r = s["r"]
        if r["k"] == "use":
            q = r["o"].get("m") or r["o"].get("c")
            if q is not None and _simple(q) and (want is None or not q["pr"]):
                q2 = q if want is None else {"l": q["l"], "pr": [{"f": want}]}
                for (t2, c2, site) in guarded_values(P, body, S, q2, db, dj, depth + 1):
                    out.append((t2, _merge(c2, base), site))
                continue
        if r["k"] == "agg" and r.get("ak") == "tuple" and want is not None and want < len(r["ops"]):
            o = r["ops"][want]
            q = o.get("m") or o.get("c")
            if q is not None and _simple(q):
                for (t2, c2, site) in guarded_values(P, body, S, q, db, dj, depth + 1):
                    out.append((t2, _merge(c2, base), site))
            else:
                out.append((S.operand(o, db, dj), base, (db, dj)))
            continue
        term = S.def_term(l, db, dj, 0)
        out.append((term if want is None else T.field(term, None, want), base, (db, dj)))
    return out


def is_none(term):
    t = T.strip(term)
    return t[0] == "agg" and t[3] == "None" and not t[4]
