"""Guarded values: the alternatives a place can hold at a program point, each with the branch conditions under which
that alternative was assigned.

`x = if c { Some(a) } else { None }` yields [(Some(a), [c]), (None, [!c])].  The same list is produced for the spellings
that leave behaviour unchanged: the alternatives built as a tuple and destructured (`let (x, y) = if c {(Some(a), None)} ..`),
a copy through another local, and `c.then(|| a)` / `c.then_some(a)` (core::bool: Some(f()) if c else None)."""
from . import q as Q
from . import terms as T
from .facts import callee_of

MAXD = 10
NONE = ("agg", "adt", "core::option::Option", "None", ())


def _merge(a, b):
    out = list(a)
    for c in b:
        if c not in out:
            out.append(c)
    return out


def _simple(p):
    pr = p["pr"]
    return not pr or (len(pr) == 1 and isinstance(pr[0], dict) and "f" in pr[0] and "n" not in pr[0])


def guarded_values(P, body, S, p, blk, idx, depth=0):
    """[(term, canonical conds, (def block, def index))] for place `p` read just before statement idx of block blk."""
    if depth > MAXD or not _simple(p):
        return [(S.place(p, blk, idx), Q.canon_conds(P, T.dom_conds(body, S, blk)), (blk, idx))]
    want = p["pr"][0]["f"] if p["pr"] else None
    l = p["l"]
    sites, entry = S.reaching(l, blk, idx)
    out = []
    if entry or not sites:
        out.append((S.place(p, blk, idx), [], (0, 0)))
    for (db, dj) in sorted(set(sites)):
        base = Q.canon_conds(P, T.dom_conds(body, S, db))
        b = body.blocks[db]
        if dj == -1:
            t = b["t"]
            name = callee_of(t)
            if want is None and name.rsplit("::", 1)[-1] in ("then", "then_some") and "bool" in name and len(t["args"]) == 2:
                n = len(b["s"])
                c = S.operand(t["args"][0], db, n)
                pol = True
                while c[0] == "unop" and c[1] == "Not":
                    c, pol = c[2], not pol
                v = S.operand(t["args"][1], db, n)
                some = ("agg", "adt", "core::option::Option", "Some", (v,))
                out.append((some, _merge(base, [Q._norm_cmp(x) for x in Q.canon_cond(P, c, pol, db)]), (db, dj)))
                out.append((NONE, _merge(base, [Q._norm_cmp(x) for x in Q.canon_cond(P, c, not pol, db)]), (db, dj)))
                continue
            term = S.def_term(l, db, dj, 0)
            out.append((term if want is None else T.field(term, None, want), base, (db, dj)))
            continue
        s = b["s"][dj]
        if s["k"] != "assign" or s["p"]["pr"]:
            out.append((S.place(p, blk, idx), base, (db, dj)))
            continue
        r = s["r"]
        if r["k"] == "use":
            q = r["o"].get("m") or r["o"].get("c")
            if q is not None and _simple(q) and (want is None or not q["pr"]):
                q2 = q if want is None else {"l": q["l"], "pr": [{"f": want}]}
                for (t2, c2, site) in guarded_values(P, body, S, q2, db, dj, depth + 1):
                    out.append((t2, _merge(c2, base), site))
                continue
        if r["k"] == "agg" and r.get("ak") == "tuple" and want is not None and want < len(r["ops"]):
            o = r["ops"][want]
            q = o.get("m") or o.get("c")
            if q is not None and _simple(q):
                for (t2, c2, site) in guarded_values(P, body, S, q, db, dj, depth + 1):
                    out.append((t2, _merge(c2, base), site))
            else:
                out.append((S.operand(o, db, dj), base, (db, dj)))
            continue
        term = S.def_term(l, db, dj, 0)
        out.append((term if want is None else T.field(term, None, want), base, (db, dj)))
    return out


def assignments_of(P, body, S, p, depth=0):
    """Every assignment that can supply the value read at place `p` - a local, or one field of a struct local that is filled piece by
    piece: [(value term, canonical conditions at the assignment, (block, index))].  A value that travels through unnamed temporaries or
    is destructured out of a struct local (`let Acc { sni, .. } = acc;`) is followed to where it was assigned.  The carrier of a value
    (a local of its own, a field of an accumulator struct) does not change the list."""
    out = []
    if depth > 6:
        return out
    l, pr = p["l"], p["pr"]
    defs = S.defs().get(l, [])
    if not pr:
        for (db, dj, full) in defs:
            if not full:
                continue
            if dj >= 0:
                st = body.blocks[db]["s"][dj]
                r = st.get("r") or {}
                if r.get("k") == "use":
                    q = r["o"].get("m") or r["o"].get("c")
                    # a copy / move out of another local or of one field of it: follow
                    if q is not None and (not q["pr"] or (len(q["pr"]) == 1 and isinstance(q["pr"][0], dict) and "f" in q["pr"][0])) and \
                            (len(defs) == 1) and (not body.local_name(l) or q["pr"]):
                        sub = assignments_of(P, body, S, q, depth + 1)
                        if sub:
                            out.extend(sub)
                            continue
            out.append((S.def_term(l, db, dj, 0), Q.canon_conds(P, T.dom_conds(body, S, db)), (db, dj)))
        return out
    if len(pr) == 1 and isinstance(pr[0], dict) and "f" in pr[0]:
        want = pr[0]["f"]
        for (db, dj, full) in defs:
            conds = Q.canon_conds(P, T.dom_conds(body, S, db))
            if dj >= 0:
                st = body.blocks[db]["s"][dj]
                spr = st["p"]["pr"]
                if spr:
                    if len(spr) >= 1 and isinstance(spr[0], dict) and spr[0].get("f") == want:
                        t = S.rvalue(st["r"], db, dj) if st["k"] == "assign" else ("unknown", "setdiscr")
                        out.append((t if len(spr) == 1 else ("partial", tuple(T._projkey(x) for x in spr[1:]), t), conds, (db, dj)))
                    continue
                # the whole struct assigned at once: from another local (follow its field), or built by a constructor (follow the operand)
                r = st.get("r") or {}
                if st["k"] == "assign" and r.get("k") == "use":
                    q = r["o"].get("m") or r["o"].get("c")
                    if q is not None and not q["pr"]:
                        sub = assignments_of(P, body, S, {"l": q["l"], "pr": list(pr)}, depth + 1)
                        if sub:
                            out.extend(sub)
                            continue
                if st["k"] == "assign" and r.get("k") == "agg" and r.get("fields") and (pr[0].get("n") in r["fields"] or want < len(r["ops"])):
                    k_ = r["fields"].index(pr[0]["n"]) if pr[0].get("n") in r["fields"] else want
                    o_ = r["ops"][k_]
                    q = o_.get("m") or o_.get("c")
                    sub = assignments_of(P, body, S, q, depth + 1) if q is not None and not q["pr"] else []
                    if sub:
                        out.extend(sub)
                    else:
                        out.append((S.operand(o_, db, dj), conds, (db, dj)))
                    continue
            t = S.def_term(l, db, dj, 0)
            if t[0] == "partial":
                if t[1] and t[1][0][0] == "f" and t[1][0][1] in (want, pr[0].get("n")):
                    out.append((t[2], conds, (db, dj)))
                continue
            out.append((T.field(t, pr[0].get("n", want), want), conds, (db, dj)))
    return out


def is_none(term):
    t = T.strip(term)
    return t[0] == "agg" and t[3] == "None" and not t[4]
