"""Origin terms (backward slices) over MIR facts.

A term is a nested tuple:
  ('param', i, name)                       function parameter i (0-based)
  ('const', value, name|None)              literal / evaluated constant (value: int|bool|str|bytes-tuple|('fn',path)|('zst',ty)|None)
  ('call', callee, (args...), blk)         value returned by a call (callee = resolved path)
  ('binop', op, a, b) ('unop', op, a) ('cast', kind, a, ty)
  ('agg', kind, path, variant, (ops...))   kind in adt|tuple|array|closure
  ('ref', bk, t) ('deref', t) ('field', t, name_or_idx) ('index', t, i) ('cindex', t, off, from_end)
  ('subslice', t, frm, to, from_end) ('downcast', t, variant) ('discr', t)
  ('phi', (t1, t2, ...))                   several reaching definitions
  ('cycle', local) ('deep',) ('unknown', why)
"""
from . import cfg as C

MAXDEPTH = 40


def const_value(k):
    r = _const_value(k)
    return (r[0], r[1], r[2], k.get("ty"))


def enum_variant_of_const(program, t):
    """For a ('const', ...) term whose type is (a reference to) a field-less enum of the workspace,
    return the variant name, else None."""
    if t[0] != "const" or len(t) < 4 or t[3] is None:
        return None
    ty = t[3].lstrip("&").replace("mut ", "").strip()
    adt = program.adts.get(ty)
    if adt is None or adt["kind"] != "enum":
        return None
    v = t[1]
    if isinstance(v, tuple) and v and v[0] == "raw":
        v = v[1]
    if isinstance(v, tuple) and v and v[0] == "enum":
        d = v[1]
    elif isinstance(v, (bytes, bytearray)) and 1 <= len(v) <= 8:
        d = int.from_bytes(v, "little")
    elif isinstance(v, int):
        d = v
    else:
        return None
    for var in adt["variants"]:
        if var["discr"] == d and not var["fields"]:
            return var["name"]
    # data-carrying enum whose tag is the first byte (repr(u8) or the default layout of small enums with byte payloads)
    if isinstance(v, (bytes, bytearray)) and 2 <= len(v) <= 16 and any(var["fields"] for var in adt["variants"]):
        tag = v[0]
        for var in adt["variants"]:
            if var["discr"] == tag and not var["fields"]:
                return var["name"]
    return None


def _const_value(k):
    v = k.get("v")
    name = k.get("named") if k.get("promoted") is None else None
    if v is None:
        return ("const", None, name)
    if "int" in v:
        return ("const", v["int"], name)
    if "bool" in v:
        return ("const", bool(v["bool"]), name)
    if "str" in v:
        return ("const", v["str"], name)
    if "char" in v:
        return ("const", v["char"], name)
    if "bytes" in v:
        return ("const", bytes(v["bytes"]), name)
    if "ref_bytes" in v:
        return ("const", bytes(v["ref_bytes"]), name)
    if "raw" in v:
        return ("const", ("raw", bytes(v["raw"])), name)
    if "fn" in v:
        return ("const", ("fn", v["fn"]), name)
    if "zst" in v:
        return ("const", ("zst", v["zst"]), name)
    if "fbits" in v:
        return ("const", ("f", v["fbits"], v["fsize"]), name)
    if "enum_bits" in v:
        return ("const", ("enum", v["enum_bits"]), name)
    if "bits" in v:
        return ("const", v["bits"], name)
    return ("const", None, name)


def float_of(c):
    """Decode ('f', bits, size) to a python float."""
    import struct
    _, bits, size = c
    if size == 4:
        return struct.unpack("<f", struct.pack("<I", bits))[0]
    return struct.unpack("<d", struct.pack("<Q", bits))[0]


class Slicer:
    def __init__(self, body, program=None):
        self.body = body
        self.program = program
        self._defs = None
        self._memo = {}
        self._inprog = set()
        self.loopvars = {}

    # -- definitions ---------------------------------------------------------
    def defs(self):
        """local -> list of (blk, idx, full, kind) ; idx == -1 means call destination of blk's terminator."""
        if self._defs is None:
            d = {}
            b = self.body
            for i in sorted(b.reachable):
                blk = b.blocks[i]
                for j, s in enumerate(blk["s"]):
                    if s["k"] in ("assign", "setdiscr"):
                        p = s["p"]
                        pr = p["pr"]
                        if pr and pr[0] == "*":
                            continue  # store through a pointer, not a def of the pointer local
                        full = (not pr) and s["k"] == "assign"
                        d.setdefault(p["l"], []).append((i, j, full))
                t = blk["t"]
                if t["k"] == "call":
                    # `dst.copy_from_slice(src)` / `clone_from_slice` on a local array overwrites all of it: a definition of that local
                    # (idx -2) whose value is the call - the only write through `&mut` the slicer models
                    nm = t.get("res") or t.get("decl") or ""
                    if nm.endswith(("::copy_from_slice", "::clone_from_slice")) and len(t["args"]) == 2:
                        root = self._mut_root(t["args"][0])
                        if root is not None:
                            d.setdefault(root, []).append((i, -2, True))
                    p = t["dest"]
                    pr = p["pr"]
                    if pr and pr[0] == "*":
                        continue
                    d.setdefault(p["l"], []).append((i, -1, not pr))
            self._defs = d
        return self._defs

    def _mut_root(self, op):
        """local whose storage `op` (a `&mut [T]` temporary) points to: follows single-definition `&mut x` / unsizing casts / copies"""
        p = op.get("m") or op.get("c")
        b = self.body
        seen = 0
        while p is not None and not p["pr"] and seen < 6:
            seen += 1
            l = p["l"]
            ds = [(i, j, s) for i, j, s in b.iter_stmts() if s["k"] == "assign" and s["p"]["l"] == l and not s["p"]["pr"]]
            if len(ds) != 1:
                return None
            r = ds[0][2]["r"]
            if r["k"] == "ref" and r.get("bk") == "mut":
                q = r["p"]
                if not q["pr"] and b.locals[q["l"]]["ty"].startswith("["):
                    return q["l"]
                if q["pr"] == ["*"]:
                    p = {"l": q["l"], "pr": []}
                    continue
                return None
            if r["k"] in ("cast", "use"):
                p = r["o"].get("m") or r["o"].get("c")
                continue
            return None
        return None

    def reaching(self, l, blk, idx):
        """Reaching definitions of local l just before statement idx of block blk
        (idx == len(stmts) means 'at the terminator').  Returns (list of def sites, entry_reached)."""
        ds = self.defs().get(l, [])
        if not ds:
            return [], True
        byblk = {}
        for (b, j, full) in ds:
            byblk.setdefault(b, []).append((j, full))
        out = []
        entry = False
        # scan current block backwards from idx-1
        def scan(b, upto, include_term):
            """returns True if a full def was found (stop)."""
            cands = byblk.get(b)
            if not cands:
                return False
            # order: terminator (-1) is last in program order
            items = []
            for (j, full) in cands:
                if j < 0:
                    if include_term:
                        items.append((10 ** 9, j, full))
                else:
                    if j < upto:
                        items.append((j, j, full))
            items.sort(reverse=True)
            for (_, j, full) in items:
                out.append((b, j))
                if full:
                    return True
            return False

        if scan(blk, idx, False):
            return out, False
        seen = set()
        st = [(p, blk) for p in self.body.preds(blk)]
        if blk == 0:
            entry = True
        while st:
            p, via = st.pop()
            if p not in self.body.reachable:
                continue
            # the call-destination def of p applies only on the edge to its target
            t = self.body.blocks[p]["t"]
            inc_term = t["k"] == "call" and t.get("target") == via
            key = (p, inc_term)
            if key in seen:
                continue
            seen.add(key)
            if scan(p, 10 ** 9, inc_term):
                continue
            if p == 0:
                entry = True
            for q in self.body.preds(p):
                st.append((q, p))
        # dedupe
        uniq = []
        for x in out:
            if x not in uniq:
                uniq.append(x)
        return uniq, entry

    def _promoted(self, idx):
        """Origin of the value of promoted constant #idx of this body (its own tiny MIR body)."""
        proms = self.body.raw.get("promoted") or []
        if idx >= len(proms):
            return None
        key = ("prom", idx)
        if key in self._memo:
            return self._memo[key]
        from .facts import Body
        raw = {"path": self.body.path + "::{promoted#%d}" % idx, "blocks": proms[idx]["blocks"], "locals": proms[idx]["locals"],
               "arg_count": 0, "span": self.body.raw["span"], "kind": "Promoted"}
        pb = Body(raw, self.body.crate)
        ps = Slicer(pb, self.program)
        rets = pb.return_blocks()
        if not rets:
            return None
        r = rets[0]
        t = ps.local(0, r, len(pb.blocks[r]["s"]))
        self._memo[key] = t
        return t

    # -- terms -----------------------------------------------------------------
    def operand(self, op, blk, idx, depth=0):
        if "k" in op:
            k = op["k"]
            if k.get("v") is None and k.get("promoted") is not None:
                t = self._promoted(k["promoted"])
                if t is not None:
                    return t
            return const_value(k)
        p = op.get("c") or op.get("m")
        return self.place(p, blk, idx, depth)

    def place(self, p, blk, idx, depth=0):
        base = self.local(p["l"], blk, idx, depth)
        return apply_projs(base, p["pr"], lambda l: self.local(l, blk, idx, depth + 1))

    def local(self, l, blk, idx, depth=0):
        if depth > MAXDEPTH:
            return ("deep",)
        ds = self.defs().get(l, [])
        b = self.body
        if not ds:
            if 1 <= l <= b.arg_count:
                return ("param", l - 1, b.local_name(l))
            return ("unknown", "undef _%d" % l)
        if len(ds) == 1 and ds[0][2] and not (1 <= l <= b.arg_count):
            sites, entry = [(ds[0][0], ds[0][1])], False
            key = (l, ds[0][0], ds[0][1], "single")
        else:
            sites, entry = self.reaching(l, blk, idx)
            sites = sorted(set(sites))
            key = (l, tuple(sites), entry)
        if key in self._memo:
            return self._memo[key]
        if key in self._inprog:
            # loop-carried variable: an opaque symbol for "the value of local l given these reaching definitions"
            return ("loopvar", l, b.local_name(l), tuple(sites), entry)
        self._inprog.add(key)
        try:
            ts = []
            if entry and 1 <= l <= b.arg_count:
                ts.append(("param", l - 1, b.local_name(l)))
            for (db, dj) in sites:
                t = self.def_term(l, db, dj, depth + 1)
                if t not in ts:
                    ts.append(t)
            if not ts:
                r = ("unknown", "no-def _%d" % l)
            elif len(ts) == 1:
                r = ts[0]
            else:
                r = ("phi", tuple(ts))
            tok = ("loopvar", l, b.local_name(l), tuple(sites), entry)
            if key[-1] != "single" and contains(r, lambda x: x == tok):
                self.loopvars[tok] = r
                r = tok
        finally:
            self._inprog.discard(key)
        self._memo[key] = r
        return r

    def expand(self, t):
        """One-level expansion of loop-carried symbols (phi of their definitions, inner self references stay symbolic)."""
        return rebuild(t, lambda x: self.loopvars.get(x) if x[0] == "loopvar" else None)

    def def_term(self, l, db, dj, depth):
        blk = self.body.blocks[db]
        if dj == -2:
            t = blk["t"]
            return ("call", t.get("res") or t.get("decl"), (("unknown", "overwritten"), self.operand(t["args"][1], db, len(blk["s"]), depth)), db)
        if dj == -1:
            t = blk["t"]
            args = tuple(self.operand(a, db, len(blk["s"]), depth) for a in t["args"])
            callee = t.get("res") or t.get("decl") or "<indirect>"
            if callee.endswith("_chunk") and "[T]" in callee:
                # `first_chunk::<N>()`: the const argument is not part of the resolved path; it is in the type of the result
                import re as _re
                m = _re.search(r"\[[^\[\];]+; (\d+)\]", self.body.local_ty(t["dest"]["l"]) or "")
                if m:
                    callee = "%s::<%s>" % (callee, m.group(1))
            term = ("call", callee, args, db)
            pr = t["dest"]["pr"]
            if pr:
                return ("partial", tuple(_projkey(x) for x in pr), term)
            return term
        s = blk["s"][dj]
        if s["k"] == "setdiscr":
            return ("setdiscr", s["vi"])
        term = self.rvalue(s["r"], db, dj, depth)
        pr = s["p"]["pr"]
        if pr:
            return ("partial", tuple(_projkey(x) for x in pr), term)
        return term

    def rvalue(self, r, blk, idx, depth=0):
        k = r["k"]
        if k == "use":
            return self.operand(r["o"], blk, idx, depth)
        if k == "ref":
            return ("ref", r["bk"], self.place(r["p"], blk, idx, depth))
        if k == "rawptr":
            return ("ref", "raw", self.place(r["p"], blk, idx, depth))
        if k == "binop":
            return ("binop", r["op"], self.operand(r["a"], blk, idx, depth), self.operand(r["b"], blk, idx, depth))
        if k == "unop":
            if r["op"] == "PtrMetadata":
                # the length a slice pattern / `first_chunk` tests: one normal form with `<[T]>::len(x)`
                return ("call", "core::slice::<impl [T]>::len", (self.operand(r["o"], blk, idx, depth),))
            return ("unop", r["op"], self.operand(r["o"], blk, idx, depth))
        if k == "cast":
            return ("cast", r["ck"], self.operand(r["o"], blk, idx, depth), r["ty"], r.get("from"))
        if k == "agg":
            ops = tuple(self.operand(o, blk, idx, depth) for o in r["ops"])
            return ("agg", r["ak"], r.get("path"), r.get("variant"), ops)
        if k == "discr":
            return ("discr", self.place(r["p"], blk, idx, depth))
        if k == "repeat":
            return ("repeat", self.operand(r["o"], blk, idx, depth), r["n"])
        return ("unknown", r.get("dbg", k))


def _projkey(x):
    if x == "*":
        return "*"
    if isinstance(x, dict):
        if "f" in x:
            return ("f", x.get("n", x["f"]))
        if "i" in x:
            return ("i", x["i"])
        if "ci" in x:
            return ("ci", x["ci"], x["from_end"])
        if "sub" in x:
            return ("sub", x["sub"][0], x["sub"][1], x["from_end"])
        if "dc" in x:
            return ("dc", x["dc"])
    return ("?",)


def apply_projs(base, projs, local_term):
    t = base
    for x in projs:
        if x == "*":
            t = deref(t)
        elif isinstance(x, dict):
            if "f" in x:
                t = field(t, x.get("n", x["f"]), x["f"])
            elif "i" in x:
                t = ("index", t, local_term(x["i"]))
            elif "ci" in x:
                # a slice-pattern binding `[a, b, ..]` reads the same element as `s[0]`, `s[1]`
                if not x["from_end"]:
                    t = ("index", t, ("const", x["ci"], None, "usize"))
                else:
                    t = ("cindex", t, x["ci"], x["from_end"])
            elif "sub" in x:
                t = ("subslice", t, x["sub"][0], x["sub"][1], x["from_end"])
            elif "dc" in x:
                t = ("downcast", t, x["dc"])
            else:
                t = ("proj?", t)
        else:
            t = ("proj?", t)
    return t


def deref(t):
    if t[0] == "ref":
        return t[2]
    if t[0] == "phi":
        return _phi(tuple(deref(x) for x in t[1]))
    return ("deref", t)


def _phi(ts):
    u = []
    for x in ts:
        if x not in u:
            u.append(x)
    return u[0] if len(u) == 1 else ("phi", tuple(u))


NODEF = ("nodef",)


def field(t, name, idx):
    # a field of a struct local that is filled piece by piece (`acc.sni = x; acc.alpn = y; .. acc.sni`): the assignment to that very
    # field; assignments to other fields do not define it
    if t[0] == "partial" and t[1] and t[1][0][0] == "f":
        if t[1][0][1] in (name, idx):
            return t[2] if len(t[1]) == 1 else ("partial", t[1][1:], t[2])
        return NODEF
    if t[0] == "phi" and any(x[0] == "partial" for x in t[1]):
        alts = [field(x, name, idx) for x in t[1]]
        alts = [a for a in alts if a != NODEF]
        return _phi(tuple(alts)) if alts else NODEF
    # payload of a variant of a merged value: the payloads of the alternatives that can be that variant
    if t[0] == "downcast" and strip(t[1])[0] == "phi":
        alts = [a for a in strip(t[1])[1] if not (strip(a)[0] == "agg" and strip(a)[3] not in (None, t[2]))]
        if alts and len(alts) < len(strip(t[1])[1]) or (alts and all(strip(a)[0] in ("call", "agg") for a in alts)):
            return _phi(tuple(field(("downcast", a, t[2]), name, idx) for a in alts))
    # payload of `s.get(k)` / `s.first()` on a slice or Vec: the element `s[k]` / `s[0]` (by reference)
    if t[0] == "downcast" and t[2] == "Some" and idx == 0:
        c = strip(t[1])
        if c[0] == "call" and ("[T]" in c[1] or "slice" in c[1] or "Vec" in c[1]):
            last = c[1].rsplit("::", 1)[-1]
            if last == "get" and len(c[2]) == 2 and strip(c[2][1])[0] != "agg":
                return ("ref", "shared", ("index", deref(c[2][0]) if strip(c[2][0])[0] == "ref" else c[2][0], c[2][1]))
            # `s.get(a..b)` (a range): the sub-slice `&s[a..b]`
            if last == "get" and len(c[2]) == 2 and strip(c[2][1])[0] == "agg" and "Range" in (strip(c[2][1])[2] or ""):
                return ("call", "core::slice::index::<impl std::ops::Index<I> for [T]>::index", (c[2][0], c[2][1]))
            if last == "first" and len(c[2]) == 1:
                return ("ref", "shared", ("index", deref(c[2][0]) if strip(c[2][0])[0] == "ref" else c[2][0], ("const", 0, None, "usize")))
            # `s.first_chunk::<N>()`: the first N elements of `s` themselves (indexing the payload indexes `s`)
            if "::first_chunk::<" in c[1] and len(c[2]) == 1:
                return c[2][0]
    # `let (head, tail) = s.split_at(k)`: head is `&s[..k]`, tail is `&s[k..]`
    if t[0] == "call" and t[1].endswith("::split_at") and ("[T]" in t[1] or "slice::" in t[1]) and len(t[2]) == 2 and idx in (0, 1):
        rng = ("agg", "adt", "std::ops::RangeTo", "RangeTo", (t[2][1],)) if idx == 0 else ("agg", "adt", "std::ops::RangeFrom", "RangeFrom", (t[2][1],))
        return ("call", "core::slice::index::<impl std::ops::Index<I> for [T]>::index", (t[2][0], rng))
    if t[0] == "agg" and t[1] in ("tuple", "adt", "closure", "array"):
        ops = t[4]
        if isinstance(idx, int) and idx < len(ops):
            return ops[idx]
    if t[0] == "downcast" and t[1][0] == "agg" and t[1][3] == t[2]:
        ops = t[1][4]
        if isinstance(idx, int) and idx < len(ops):
            return ops[idx]
    if t[0] == "phi":
        return _phi(tuple(field(x, name, idx) for x in t[1]))
    return ("field", t, name)


# ---------------------------------------------------------------------------
# helpers on terms


def int_array(t):
    """Integer elements of an array value: an array aggregate of constants, or a constant of type `[uN; k]` / `&[uN; k]`
    (a named `const XS: [u16; 5]` reaches MIR as its little-endian bytes)."""
    t = strip(t)
    while t[0] in ("ref", "deref", "cast"):
        t = strip(t[2] if t[0] in ("ref", "cast") else t[1])
    if t[0] == "agg" and t[1] == "array":
        vals = [fold_int(e) for e in t[4]]
        return vals if all(v is not None for v in vals) else None
    if t[0] == "const" and isinstance(t[1], (bytes, bytearray)) and t[3]:
        import re as _re
        m = _re.match(r"^&?\[(u8|u16|u32|u64|usize|i8|i16|i32|i64|isize); (\d+)\]$", t[3])
        if m:
            w = {"u8": 1, "i8": 1, "u16": 2, "i16": 2, "u32": 4, "i32": 4, "u64": 8, "i64": 8, "usize": 8, "isize": 8}[m.group(1)]
            k = int(m.group(2))
            if len(t[1]) == w * k:
                return [int.from_bytes(t[1][i * w:(i + 1) * w], "little", signed=m.group(1).startswith("i")) for i in range(k)]
    return None


def walk(t):
    """Yield every sub-term (pre-order)."""
    st = [t]
    while st:
        x = st.pop()
        if not isinstance(x, tuple) or not x:
            continue
        yield x
        tag = x[0]
        if tag == "const":
            continue
        for y in x[1:]:
            if isinstance(y, tuple):
                if y and isinstance(y[0], str):
                    st.append(y)
                else:
                    for z in y:
                        if isinstance(z, tuple):
                            st.append(z)


def contains(t, pred):
    for x in walk(t):
        if pred(x):
            return True
    return False


def calls_in(t):
    return [x for x in walk(t) if x[0] == "call"]


def consts_in(t):
    return [x for x in walk(t) if x[0] == "const"]


def params_in(t):
    return [x for x in walk(t) if x[0] == "param"]


def has_call(t, frag):
    return contains(t, lambda x: x[0] == "call" and frag in x[1])


def strip(t):
    """Peel value-preserving wrappers: refs, derefs, copies, Deref::deref, clone, as_ref, into, casts of kind ptr/unsize."""
    while True:
        if t[0] in ("ref",):
            t = t[2]
        elif t[0] == "deref":
            t = t[1]
        elif t[0] == "cast" and t[1].startswith(("PointerCoercion", "Transmute", "PtrToPtr")):
            t = t[2]
        elif t[0] == "call" and len(t[2]) >= 1 and is_identity_call(t[1]):
            t = t[2][0]
        else:
            return t


_IDENT_END = ("::clone", "::deref", "::deref_mut", "::as_ref", "::as_str", "::as_slice", "::as_bytes", "::to_owned", "::to_string", "::to_vec",
              "::as_mut", "::into", "::from", "::as_deref", "::as_mut_slice", "::iter", "::into_iter", "::copied", "::cloned", "::borrow", "::as_mut_str")


def is_identity_call(callee):
    """value-preserving std conversions (judged by the method name, i.e. the last path segment)"""
    last = callee.rsplit("::", 1)[-1]
    if ("::" + last) in _IDENT_END:
        # `from`/`into` only for the std conversion traits, `iter`/`into_iter` only as methods
        if last in ("from", "into"):
            return "convert::From" in callee or "convert::Into" in callee or "From<" in callee or "Into<" in callee
        return True
    return False


def pp(t, depth=0):
    """Compact pretty printer (for reports / evidence samples)."""
    if depth > 8:
        return "…"
    if not isinstance(t, tuple) or not t:
        return repr(t)
    g = t[0]
    if g == "param":
        return "%s" % (t[2] or ("arg%d" % t[1]))
    if g == "const":
        v = t[1]
        if t[2]:
            return "%s" % t[2].split("::")[-1]
        if isinstance(v, tuple) and v and v[0] == "fn":
            return "fn:" + v[1].split("::")[-1]
        if isinstance(v, tuple) and v and v[0] == "f":
            return repr(float_of(v))
        if isinstance(v, tuple) and v and v[0] == "zst":
            return "()"
        return repr(v)
    if g == "call":
        name = short(t[1])
        return "%s(%s)" % (name, ", ".join(pp(a, depth + 1) for a in t[2]))
    if g == "binop":
        return "(%s %s %s)" % (pp(t[2], depth + 1), t[1], pp(t[3], depth + 1))
    if g == "unop":
        return "%s(%s)" % (t[1], pp(t[2], depth + 1))
    if g == "cast":
        return "(%s as %s)" % (pp(t[2], depth + 1), t[3])
    if g == "agg":
        if t[1] == "adt":
            return "%s::%s(%s)" % ((t[2] or "").split("::")[-1], t[3], ", ".join(pp(a, depth + 1) for a in t[4]))
        return "%s(%s)" % (t[1], ", ".join(pp(a, depth + 1) for a in t[4]))
    if g == "ref":
        return "&" + pp(t[2], depth)
    if g == "deref":
        return "*" + pp(t[1], depth)
    if g == "field":
        return "%s.%s" % (pp(t[1], depth), t[2])
    if g == "index":
        return "%s[%s]" % (pp(t[1], depth), pp(t[2], depth + 1))
    if g == "cindex":
        return "%s[%s%d]" % (pp(t[1], depth), "-" if t[3] else "", t[2])
    if g == "downcast":
        return "(%s as %s)" % (pp(t[1], depth), t[2])
    if g == "discr":
        return "discr(%s)" % pp(t[1], depth)
    if g == "phi":
        return "φ(" + " | ".join(pp(x, depth + 1) for x in t[1][:4]) + (" …" if len(t[1]) > 4 else "") + ")"
    if g == "loopvar":
        return "%s@loop" % (t[2] or ("_%d" % t[1]))
    if g == "partial":
        return "upd%s=%s" % (list(t[1]), pp(t[2], depth + 1))
    return str(t[0])


def short(path):
    """Last two segments of a def path without generic noise."""
    p = path
    # strip generic args
    out = []
    depth = 0
    for ch in p:
        if ch == "<":
            depth += 1
        elif ch == ">":
            depth -= 1
        elif depth == 0:
            out.append(ch)
    q = "".join(out).replace("::::", "::")
    segs = [s for s in q.split("::") if s]
    return "::".join(segs[-2:]) if len(segs) >= 2 else q


# ---------------------------------------------------------------------------
# branch atoms


def branch_edges(body, slicer, b):
    """For a switch block b return (atom_term, {succ: value-label}) where value-label is
    True/False for boolean switches, a variant name for discriminant switches, an int for
    integer switches, and ('else', (excluded...)) for the otherwise edge."""
    t = body.blocks[b]["t"]
    if t["k"] != "switch":
        return None
    nst = len(body.blocks[b]["s"])
    term = slicer.operand(t["discr"], b, nst)
    ty = t["ty"]
    arms = t["arms"]
    other = t["otherwise"]
    labels = {}
    if ty == "bool":
        neg = False
        while term[0] == "unop" and term[1] == "Not":
            term = term[2]
            neg = not neg
        for (v, tgt) in arms:
            val = bool(v)
            labels.setdefault(tgt, []).append(val != neg)
        ex = [bool(v) for (v, _) in arms]
        rest = [x for x in (False, True) if x not in ex]
        if rest:
            labels.setdefault(other, []).append(rest[0] != neg)
        return term, {k: (v[0] if len(v) == 1 else tuple(v)) for k, v in labels.items()}
    # discriminant?
    core = term
    if core[0] == "discr":
        # find variant names from the defining statement
        names = _discr_names(body, t["discr"], b)
        for (v, tgt) in arms:
            labels.setdefault(tgt, []).append(names.get(v, v))
        ex = [names.get(v, v) for (v, _) in arms]
        rest = [n for n in names.values() if n not in ex]
        if other in body.reachable and body.blocks[other]["t"]["k"] != "unreachable":
            labels.setdefault(other, []).append(("else", tuple(rest), tuple(x for x in ex if isinstance(x, str))))
        out = {}
        for k, v in labels.items():
            out[k] = v[0] if len(v) == 1 else ("anyof", tuple(v))
        return ("variant", core[1]), out
    for (v, tgt) in arms:
        labels.setdefault(tgt, []).append(v)
    labels.setdefault(other, []).append(("else", tuple(v for (v, _) in arms)))
    out = {}
    for k, v in labels.items():
        out[k] = v[0] if len(v) == 1 else ("anyof", tuple(v))
    return ("int", term), out


def _discr_names(body, discr_op, b):
    p = discr_op.get("c") or discr_op.get("m")
    if not p:
        return {}
    l = p["l"]
    # search the defining `discriminant(..)` statement (same block first, then anywhere)
    for blk in [b] + sorted(body.reachable):
        for s in body.blocks[blk]["s"]:
            if s["k"] == "assign" and s["p"]["l"] == l and not s["p"]["pr"] and s["r"]["k"] == "discr":
                vs = s["r"].get("variants")
                if vs:
                    return {d: n for d, n in vs}
    return {}


def _bool_alternatives(body, slicer, l, blk, idx, depth=0):
    """Alternatives of a boolean local read at (blk, idx): [(value term, [raw condition triples dominating that definition], def block)].
    Copies of other locals are followed.  None when the local is not a plain multi-definition boolean."""
    if depth > 6:
        return None
    if 1 <= l <= body.arg_count:
        return None
    sites, entry = slicer.reaching(l, blk, idx)
    if entry or not sites:
        return None
    out = []
    for (db, dj) in sorted(set(sites)):
        if dj < 0:
            out.append((slicer.def_term(l, db, dj, 0), _dom_conds_raw(body, slicer, db), db))
            continue
        s = body.blocks[db]["s"][dj]
        if s["k"] != "assign" or s["p"]["pr"]:
            return None
        r = s["r"]
        if r["k"] == "use":
            q = r["o"].get("m") or r["o"].get("c")
            if q is not None and not q["pr"] and not (1 <= q["l"] <= body.arg_count) and len(slicer.defs().get(q["l"], [])) > 1:
                inner = _bool_alternatives(body, slicer, q["l"], db, dj, depth + 1)
                if inner is not None:
                    base = _dom_conds_raw(body, slicer, db)
                    out.extend((v, c + [x for x in base if x not in c], d) for (v, c, d) in inner)
                    continue
        out.append((slicer.rvalue(r, db, dj), _dom_conds_raw(body, slicer, db), db))
    return out


def switched_bool_local(body, slicer, p):
    """the boolean local a `switch` block p really tests, behind the `_t = Not(_x)` / copy temporaries created for the branch"""
    t = body.blocks[p]["t"]
    if t["k"] != "switch" or t.get("ty") != "bool":
        return None
    d = t["discr"].get("m") or t["discr"].get("c")
    if d is None or d["pr"]:
        return None
    l = d["l"]
    guard = 0
    while guard < 6:
        guard += 1
        ds = slicer.defs().get(l, [])
        if len(ds) == 1 and ds[0][1] >= 0:
            st = body.blocks[ds[0][0]]["s"][ds[0][1]]
            r = st.get("r") or {}
            if st["k"] == "assign" and not st["p"]["pr"] and r.get("k") == "unop" and r.get("op") == "Not":
                q = r["o"].get("m") or r["o"].get("c")
                if q is not None and not q["pr"]:
                    l = q["l"]
                    continue
            if st["k"] == "assign" and not st["p"]["pr"] and r.get("k") == "use":
                q = r["o"].get("m") or r["o"].get("c")
                if q is not None and not q["pr"]:
                    l = q["l"]
                    continue
        break
    return l


def decision_inputs(body, slicer, p, depth=0):
    """For a branch on a boolean local that is assigned constants on several paths (`matches!(..)`, a flag set in match arms): the
    conditions that decide which constant it holds = the branch conditions every definition of that local is control dependent on.
    Returns raw (atom, label, block) triples; [] when the switch does not test such a local."""
    l = switched_bool_local(body, slicer, p)
    if l is None or depth > 3:
        return []
    out = []
    for (db, dj, full) in slicer.defs().get(l, []):
        for (a, s) in sorted(C.transitive_controls(body, db)):
            if a == p:
                continue
            be = branch_edges(body, slicer, a)
            if be is None:
                continue
            atom, labels = be
            if s in labels:
                trip = (atom, labels[s], a)
                if trip not in out:
                    out.append(trip)
                    for more in decision_inputs(body, slicer, a, depth + 1):
                        if more not in out:
                            out.append(more)
    return out


def _variant_alternative_conds(body, slicer, p, label, depth=0):
    t = body.blocks[p]["t"]
    if t["k"] != "switch" or depth > 3:
        return []
    d = t["discr"].get("m") or t["discr"].get("c")
    if d is None or d["pr"]:
        return []
    ds = slicer.defs().get(d["l"], [])
    if len(ds) != 1 or ds[0][1] < 0:
        return []
    st = body.blocks[ds[0][0]]["s"][ds[0][1]]
    r = st.get("r") or {}
    if r.get("k") != "discr" or r["p"]["pr"]:
        return []
    l = r["p"]["l"]
    guard = 0
    while guard < 6:
        guard += 1
        dl = slicer.defs().get(l, [])
        if len(dl) == 1 and dl[0][1] >= 0:
            st2 = body.blocks[dl[0][0]]["s"][dl[0][1]]
            r2 = st2.get("r") or {}
            if st2["k"] == "assign" and not st2["p"]["pr"] and r2.get("k") == "use":
                q = r2["o"].get("m") or r2["o"].get("c")
                if q is not None and not q["pr"]:
                    l = q["l"]
                    continue
        break
    dl = [x for x in slicer.defs().get(l, []) if x[2]]
    if len(dl) < 2:
        return []
    live = []
    for (db, dj, _full) in dl:
        if dj >= 0:
            r2 = body.blocks[db]["s"][dj].get("r") or {}
            if r2.get("k") == "agg" and r2.get("variant") is not None:
                if r2.get("variant") == label:
                    live.append(db)
                continue
        return []            # an alternative of unknown variant: nothing can be said
    if len(live) != 1:
        return []
    return dom_conds(body, slicer, live[0])


def dom_conds(body, slicer, b):
    """Conditions that hold on *every* path reaching block b (see _dom_conds_raw), with one refinement: when a branch tests a boolean
    local that was assigned on several paths (`let ok = a && b; if ok`, `let hit = x || y; if !hit`) and exactly one of its
    alternatives is compatible with the edge taken, the conditions of that alternative and its value are added - so the named
    boolean and the inline condition give the same list."""
    raw = _dom_conds_raw(body, slicer, b)
    out = []
    for (atom, label, p) in raw:
        out.append((atom, label, p))
        if isinstance(label, tuple) and label and label[0] == "else" and len(label) > 1 and len(label[1]) == 1 and isinstance(label[1][0], str):
            # the catch-all edge of `let Some(v) = merged else { .. }`: the one remaining variant
            for c in _variant_alternative_conds(body, slicer, p, label[1][0]):
                if c not in out:
                    out.append(c)
            continue
        if isinstance(label, str):
            # `match merged { Some(v) => .. }` where `merged` was assigned `Some(..)` at exactly one place (the others assign other
            # variants): what held where that `Some` was built holds here (a helper `fn f() -> Option<T>` inlined at its call)
            for c in _variant_alternative_conds(body, slicer, p, label):
                if c not in out:
                    out.append(c)
            continue
        if not isinstance(label, bool):
            continue
        t = body.blocks[p]["t"]
        if t["k"] != "switch" or t.get("ty") != "bool":
            continue
        d = t["discr"].get("m") or t["discr"].get("c")
        if d is None or d["pr"]:
            continue
        l = d["l"]
        # look through `_t = Not(_x)` / copies created for the switch
        neg = False
        guard = 0
        while guard < 6:
            guard += 1
            ds = slicer.defs().get(l, [])
            if len(ds) == 1 and ds[0][1] >= 0:
                st = body.blocks[ds[0][0]]["s"][ds[0][1]]
                r = st.get("r") or {}
                if st["k"] == "assign" and not st["p"]["pr"] and r.get("k") == "unop" and r.get("op") == "Not":
                    q = r["o"].get("m") or r["o"].get("c")
                    if q is not None and not q["pr"]:
                        l, neg = q["l"], not neg
                        continue
                if st["k"] == "assign" and not st["p"]["pr"] and r.get("k") == "use":
                    q = r["o"].get("m") or r["o"].get("c")
                    if q is not None and not q["pr"]:
                        l = q["l"]
                        continue
            break
        if len(slicer.defs().get(l, [])) < 2:
            continue
        alts = _bool_alternatives(body, slicer, l, p, len(body.blocks[p]["s"]))
        if not alts:
            continue
        # branch_edges already folded the negations into `label`: label is the truth value of the un-negated local
        want = label
        live = []
        for (v, conds, db) in alts:
            vv = v
            pol = True
            while vv[0] == "unop" and vv[1] == "Not":
                vv, pol = vv[2], not pol
            if vv[0] == "const" and isinstance(vv[1], bool):
                if (vv[1] == pol) != want:
                    continue          # this alternative cannot produce the value the edge requires
                live.append((None, None, conds, db))
            else:
                live.append((vv, want == pol, conds, db))
        if len(live) == 1:
            vv, vpol, conds, db = live[0]
            for c in conds:
                if c not in out:
                    out.append(c)
            if vv is not None:
                out.append((vv, vpol, db))
    return out


def _dom_conds_raw(body, slicer, b):
    """Conditions that hold on *every* path reaching block b (conjunctive): the branch edges (a -> s) with s on the
    dominator chain of b and a the only predecessor of s.  Unlike control dependence this is loop-safe: conditions of
    earlier loop iterations are not included."""
    out = []
    idom = C.idom(body)
    x = b
    guard = 0
    while x in idom and idom[x] != x and guard < 100000:
        guard += 1
        p = idom[x]
        preds = [q for q in body.preds(x) if q in body.reachable]
        if len(preds) == 1 and preds[0] == p and len(body.succs(p)) >= 2:
            be = branch_edges(body, slicer, p)
            if be is not None:
                atom, labels = be
                if x in labels:
                    out.append((atom, labels[x], p))
        x = p
    out.reverse()
    return out


def controls(body, slicer, b):
    """Transitive control conditions of block b as a list of (atom_term, value-label, branch block)."""
    out = []
    for (a, s) in sorted(C.transitive_controls(body, b)):
        be = branch_edges(body, slicer, a)
        if be is None:
            continue
        atom, labels = be
        if s in labels:
            out.append((atom, labels[s], a))
    return out


def rebuild(t, f):
    """Bottom-up term rewriting: f(node) -> replacement or None to keep."""
    if not isinstance(t, tuple) or not t:
        return t
    if t[0] == "const":
        r = f(t)
        return t if r is None else r
    new = []
    for x in t:
        if isinstance(x, tuple):
            if x and isinstance(x[0], str):
                new.append(rebuild(x, f))
            else:
                new.append(tuple(rebuild(y, f) if isinstance(y, tuple) else y for y in x))
        else:
            new.append(x)
    nt = tuple(new)
    r = f(nt)
    return nt if r is None else r


def expand_upvars(program, body, term, depth=4):
    """Replace reads of closure upvars (`(*_1).k` / `_1.k` in a closure body) by the origin of the captured
    operand in the creating body (recursively for nested closures)."""
    if body.kind != "Closure" or depth <= 0:
        return term
    parent_path = body.path.rsplit("::{closure#", 1)[0]
    parent = program.bodies.get(parent_path)
    if parent is None:
        return term
    site = None
    for i, j, s in parent.iter_stmts():
        if s["k"] == "assign" and s["r"]["k"] == "agg" and s["r"]["ak"] == "closure" and s["r"].get("path") == body.path:
            site = (i, j, s)
            break
    if site is None:
        return term
    i, j, s = site
    PS = Slicer(parent, program)
    cache = {}

    # higher-order call the closure is handed to: closure parameters are payloads of the receiver
    hof = None
    for bi, t in parent.calls():
        n = len(parent.blocks[bi]["s"])
        for ai, a in enumerate(t["args"]):
            at = strip(PS.operand(a, bi, n))
            if at[0] == "agg" and at[1] == "closure" and at[2] == body.path:
                others = [PS.operand(x, bi, n) for k, x in enumerate(t["args"]) if k != ai]
                hof = (t.get("res") or t.get("decl") or "?", tuple(expand_upvars(program, parent, o, depth - 1) for o in others))
                break
        if hof:
            break

    def f(node):
        if node[0] == "param" and node[1] >= 1 and hof is not None:
            return ("payload", hof[0], hof[1], node[1])
        if node[0] == "field":
            base = node[1]
            while base[0] in ("deref", "ref"):
                base = base[1] if base[0] == "deref" else base[2]
            if base[0] == "param" and base[1] == 0 and isinstance(node[2], int):
                k = node[2]
                if k < len(s["r"]["ops"]):
                    if k not in cache:
                        pt = PS.operand(s["r"]["ops"][k], i, j)
                        cache[k] = expand_upvars(program, parent, pt, depth - 1)
                    return ("upvar", k, cache[k])
        return None

    return rebuild(term, f)


def inline_combinators(program, term, depth=0):
    """Rewrite Option/Result combinator calls whose function argument is a closure into the closure's own result:

        x.and_then(|v| f(v))   ->  f(payload of x)            (the Some/Ok payload of the call is the payload of f's result)
        x.map(|v| f(v))        ->  Some(f(payload of x))

    so that `mss.and_then(|m| a.checked_div(m))` and `if let Some(m) = mss { if let Some(r) = a.checked_div(m) {..} }` describe the
    compared quantity by the same term.  Captured variables are replaced by their origin in the creating body."""
    if depth > 6:
        return term

    def f(node):
        if node[0] == "upvar":
            return inline_combinators(program, node[2], depth + 1)
        if node[0] != "call" or len(node[2]) != 2:
            return None
        last = node[1].rsplit("::", 1)[-1]
        if last not in ("and_then", "map") or not ("Option" in node[1] or "Result" in node[1]):
            return None
        cl = strip(node[2][1])
        if not (cl[0] == "agg" and cl[1] == "closure" and cl[2] in program.bodies):
            return None
        cb = program.bodies[cl[2]]
        CS = Slicer(cb, program)
        rets = []
        for (bi, bj, full) in CS.defs().get(0, []):
            if full:
                rets.append(CS.def_term(0, bi, bj, 0))
        if len(rets) != 1:
            return None
        r = expand_upvars(program, cb, rets[0], depth=2)
        recv = inline_combinators(program, node[2][0], depth + 1)
        wrap = "Some" if "Option" in node[1] else "Ok"
        payload = ("field", ("downcast", recv, wrap), 0)

        def g(n2):
            if n2[0] == "payload" and n2[3] == 1:
                return payload
            if n2[0] == "upvar":
                return n2[2]
            return None
        r = rebuild(r, g)
        r = inline_combinators(program, r, depth + 1)
        if last == "map":
            return ("agg", "adt", "core::option::Option" if wrap == "Some" else "core::result::Result", wrap, (r,))
        return r
    return rebuild(term, f)


def fold_int(t):
    """Constant-fold an integer term (None if not a compile-time constant expression)."""
    t = strip(t)
    if t[0] == "const":
        v = t[1]
        if isinstance(v, bool):
            return None
        if isinstance(v, int):
            return v
        if isinstance(v, (bytes, bytearray)) and 1 <= len(v) <= 8:
            return int.from_bytes(v, "little")
        return None
    if t[0] == "field" and t[2] in (0, "0") and t[1][0] == "binop" and t[1][1].endswith("WithOverflow"):
        return fold_int(("binop", t[1][1][:-len("WithOverflow")], t[1][2], t[1][3]))
    if t[0] == "binop":
        a, b = fold_int(t[2]), fold_int(t[3])
        if a is None or b is None:
            return None
        op = t[1].replace("WithOverflow", "").replace("Unchecked", "")
        try:
            return {"BitOr": a | b, "BitAnd": a & b, "BitXor": a ^ b, "Add": a + b, "Sub": a - b, "Mul": a * b,
                    "Shl": a << b if 0 <= b < 128 else None, "Shr": a >> b if 0 <= b < 128 else None,
                    "Div": a // b if b else None, "Rem": a % b if b else None}.get(op)
        except Exception:
            return None
    if t[0] == "cast":
        return fold_int(t[2])
    # length of a constant byte string / str / array: `b"\r\n\r\n".len()`, `NAME.len()` for `const NAME: &[u8] = b".."`
    if (t[0] == "call" and t[1].endswith("::len") and len(t[2]) == 1) or (t[0] == "unop" and t[1] == "PtrMetadata"):
        x = strip(t[2][0] if t[0] == "call" else t[2])
        while x[0] in ("ref", "deref", "cast"):
            x = strip(x[2] if x[0] in ("ref", "cast") else x[1])
        if x[0] == "const" and isinstance(x[1], (bytes, bytearray)) and x[3] and ("[u8" in x[3] or "str" in x[3]) and "Option" not in x[3]:
            return len(x[1])
        if x[0] == "const" and isinstance(x[1], str):
            return len(x[1].encode())
        if x[0] == "agg" and x[1] == "array":
            return len(x[4])
    return None


def rewrap(t):
    """`Some(v)` where v is the payload of `x` bound by `Some(v) = x` is x itself (inside compared operands)"""
    def f(n):
        if n[0] == "agg" and n[3] in ("Some", "Ok") and len(n[4]) == 1 and (n[2] or "").endswith(("option::Option", "result::Result")):
            o = strip(n[4][0])
            if o[0] == "field" and o[1][0] == "downcast" and o[1][2] == n[3] and o[2] in (0, "0"):
                return o[1][1]
        return None
    return rebuild(t, f)


def canon_value(t, depth=0):
    """Canonical identity of a (slice / container) value: peel refs, derefs and identity conversions, distributing them over phi,
    so that `phi(a, &*b)` and `&phi(*a, *b)` denote the same thing."""
    if depth > 20:
        return t
    while True:
        if t[0] == "ref":
            t = t[2]
        elif t[0] == "deref":
            t = t[1]
        elif t[0] == "cast" and t[1].startswith(("PointerCoercion", "Transmute", "PtrToPtr")):
            t = t[2]
        elif t[0] == "call" and len(t[2]) >= 1 and is_identity_call(t[1]):
            t = t[2][0]
        else:
            break
    if t[0] == "phi":
        alts = []
        for x in t[1]:
            c = canon_value(x, depth + 1)
            if c[0] == "phi":
                for y in c[1]:
                    if y not in alts:
                        alts.append(y)
            elif c not in alts:
                alts.append(c)
        alts.sort(key=repr)
        return alts[0] if len(alts) == 1 else ("phi", tuple(alts))
    return t
