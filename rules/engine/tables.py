"""Table extraction: interval tables of integer matches, return tables, enum->const tables."""
from . import terms as T
from . import cfg as C

U32 = (0, 2 ** 32 - 1)


def _root_local(body, l, seen=None, stop_at=None):
    """Follow single-def copy/ref/deref temporaries to the user-visible local they alias (value-wise)."""
    seen = seen or set()
    while l not in seen:
        seen.add(l)
        if (1 <= l <= body.arg_count) or l == stop_at:
            return l
        defs = [s for (_, _, s) in body.iter_stmts() if s["k"] == "assign" and s["p"]["l"] == l and not s["p"]["pr"]]
        # a local that is (also) defined by a call result is not a plain alias
        if any(blk["t"]["k"] == "call" and blk["t"].get("dest") and blk["t"]["dest"]["l"] == l and not blk["t"]["dest"]["pr"] for blk in body.blocks):
            return l
        if len(defs) != 1:
            return l
        r = defs[0]["r"]
        if r["k"] == "use":
            o = r["o"]
            p = o.get("c") or o.get("m")
            if p is None:
                return l
            if not p["pr"] or p["pr"] == ["*"]:
                l = p["l"]
                continue
            return l
        if r["k"] == "ref" and not r["p"]["pr"]:
            l = r["p"]["l"]
            continue
        return l
    return l


def operand_is_var(body, op, var):
    p = op.get("c") or op.get("m")
    if p is None:
        return False
    if p["pr"] and p["pr"] != ["*"]:
        return False
    return _root_local(body, p["l"], None, var) == var


def operand_const_int(op):
    if "k" in op:
        v = op["k"].get("v")
        if v and "int" in v:
            return v["int"]
    return None


def _isect(ivs, lo, hi):
    out = []
    for (a, b) in ivs:
        x, y = max(a, lo), min(b, hi)
        if x <= y:
            out.append((x, y))
    return out


def _minus_points(ivs, pts):
    out = list(ivs)
    for p in sorted(pts):
        nxt = []
        for (a, b) in out:
            if a <= p <= b:
                if a <= p - 1:
                    nxt.append((a, p - 1))
                if p + 1 <= b:
                    nxt.append((p + 1, b))
            else:
                nxt.append((a, b))
        out = nxt
    return out


def interval_table(body, var, start=0, domain=U32, program=None, max_paths=4096):
    """Partition `domain` of integer local `var` by the comparisons/switches on it reachable from block `start`
    (acyclic region).  Returns (rows, imprecise) where rows = list of (intervals, result_term, return_block).
    result_term is the origin term of _0 at the return reached."""
    S = T.Slicer(body, program)
    rows = []
    imprecise = []
    stack = [(start, [domain], [])]
    npaths = 0
    while stack:
        blk, ivs, trail = stack.pop()
        if not ivs:
            continue
        if blk in trail:
            imprecise.append(("loop", blk))
            continue
        npaths += 1
        if npaths > max_paths:
            imprecise.append(("too-many-paths", blk))
            break
        t = body.blocks[blk]["t"]
        k = t["k"]
        trail2 = trail + [blk]
        if k == "return":
            res = S.local(0, blk, len(body.blocks[blk]["s"]))
            # restrict phi to the definition on this path: recompute by walking the trail backwards
            res = _result_on_path(body, S, trail2)
            rows.append((ivs, res, blk))
            continue
        if k == "switch":
            d = t["discr"]
            if t["ty"] != "bool" and operand_is_var(body, d, var):
                pts = []
                for (v, tgt) in t["arms"]:
                    pts.append(v)
                    stack.append((tgt, _isect(ivs, v, v), trail2))
                stack.append((t["otherwise"], _minus_points(ivs, pts), trail2))
                continue
            if t["ty"] == "bool":
                cmpst = _defining_cmp(body, blk, d)
                if cmpst is not None:
                    op, a, b = cmpst
                    ca, cb = operand_const_int(a), operand_const_int(b)
                    va, vb = operand_is_var(body, a, var), operand_is_var(body, b, var)
                    tru = None
                    if va and cb is not None:
                        tru = _range(op, cb, domain)
                    elif vb and ca is not None:
                        tru = _range(_flip(op), ca, domain)
                    if tru is not None:
                        tr_ivs = []
                        for (lo, hi) in tru:
                            tr_ivs += _isect(ivs, lo, hi)
                        fl_ivs = ivs
                        # false = complement of tru within domain
                        comp = _complement(tru, domain)
                        fl = []
                        for (lo, hi) in comp:
                            fl += _isect(ivs, lo, hi)
                        for (v, tgt) in t["arms"]:
                            stack.append((tgt, tr_ivs if v else fl, trail2))
                        taken = [bool(v) for (v, _) in t["arms"]]
                        if True not in taken:
                            stack.append((t["otherwise"], tr_ivs, trail2))
                        else:
                            stack.append((t["otherwise"], fl, trail2))
                        continue
            # unknown condition: both ways, unrefined
            imprecise.append(("unrefined-branch", blk))
            for s in body.succs(blk):
                stack.append((s, ivs, trail2))
            continue
        ss = body.succs(blk)
        if not ss:
            rows.append((ivs, ("panic",), blk))
            continue
        for s in ss:
            stack.append((s, ivs, trail2))
    return rows, imprecise


def _result_on_path(body, S, trail):
    """Origin of _0 using the last definition of _0 along the given block trail; locals assigned on several branches have the value
    of the branch this trail took (`let base = if t > 128 {255} else {..}; base.saturating_sub(t)` resolves `base` per row)."""
    from . import paths as PA
    ps = PA.PathSlicer(body, trail, getattr(S, "program", None))
    for k in range(len(trail) - 1, -1, -1):
        blk = trail[k]
        stmts = body.blocks[blk]["s"]
        for j in range(len(stmts) - 1, -1, -1):
            s = stmts[j]
            if s["k"] == "assign" and s["p"]["l"] == 0 and not s["p"]["pr"]:
                ps.at(k)
                return ps.rvalue(s["r"], blk, j)
        t = body.blocks[blk]["t"]
        if t["k"] == "call" and t["dest"]["l"] == 0 and not t["dest"]["pr"] and blk != trail[-1]:
            ps.at(k)
            return ps.def_term(0, blk, -1, 0)
    return ("unknown", "no def of _0 on path")


def _defining_cmp(body, blk, discr_op):
    p = discr_op.get("m") or discr_op.get("c")
    if not p or p["pr"]:
        return None
    for s in reversed(body.blocks[blk]["s"]):
        if s["k"] == "assign" and s["p"]["l"] == p["l"] and not s["p"]["pr"]:
            r = s["r"]
            if r["k"] == "binop" and r["op"] in ("Lt", "Le", "Gt", "Ge", "Eq", "Ne"):
                return r["op"], r["a"], r["b"]
            return None
    return None


def _flip(op):
    return {"Lt": "Gt", "Gt": "Lt", "Le": "Ge", "Ge": "Le"}.get(op, op)


def _range(op, c, dom):
    lo, hi = dom
    if op == "Lt":
        return [(lo, c - 1)] if c - 1 >= lo else []
    if op == "Le":
        return [(lo, min(c, hi))] if c >= lo else []
    if op == "Gt":
        return [(c + 1, hi)] if c + 1 <= hi else []
    if op == "Ge":
        return [(max(c, lo), hi)] if c <= hi else []
    if op == "Eq":
        return [(c, c)] if lo <= c <= hi else []
    if op == "Ne":
        return _minus_points([dom], [c])
    return None


def _complement(ivs, dom):
    out = [dom]
    for (a, b) in sorted(ivs):
        nxt = []
        for (x, y) in out:
            if b < x or a > y:
                nxt.append((x, y))
            else:
                if x <= a - 1:
                    nxt.append((x, a - 1))
                if b + 1 <= y:
                    nxt.append((b + 1, y))
        out = nxt
    return out


def normalise_rows(rows):
    """Merge rows with the same result; returns sorted list of (lo, hi, result)."""
    flat = []
    for (ivs, res, blk) in rows:
        for (a, b) in ivs:
            flat.append((a, b, res))
    flat.sort(key=lambda x: (x[0], x[1]))
    merged = []
    for (a, b, r) in flat:
        if merged and merged[-1][2] == r and merged[-1][1] + 1 == a:
            merged[-1] = (merged[-1][0], b, r)
        else:
            merged.append((a, b, r))
    return merged


def covers(merged, dom):
    """Does the sorted merged table partition dom exactly (no gap, no overlap)?"""
    pos = dom[0]
    for (a, b, _) in merged:
        if a != pos:
            return False
        pos = b + 1
    return pos == dom[1] + 1


def enum_const_table(body, program=None):
    """For `fn f(self) -> int { match self { V1 => c1, ... } }` return {variant: const}."""
    S = T.Slicer(body, program)
    out = {}
    for blk in sorted(body.reachable):
        be = T.branch_edges(body, S, blk)
        if be is None:
            continue
        atom, labels = be
        if atom[0] != "variant":
            continue
        for succ, lab in labels.items():
            names = []
            if isinstance(lab, str):
                names = [lab]
            elif isinstance(lab, tuple) and lab and lab[0] == "else":
                names = list(lab[1])
            elif isinstance(lab, tuple) and lab and lab[0] == "anyof":
                names = [x for x in lab[1] if isinstance(x, str)]
            # follow succ to the assignment of _0 (straight line)
            val = _straight_result(body, succ)
            for n in names:
                out[n] = val
    return out


def _straight_result(body, blk, limit=8):
    for _ in range(limit):
        for s in body.blocks[blk]["s"]:
            if s["k"] == "assign" and s["p"]["l"] == 0 and not s["p"]["pr"] and s["r"]["k"] == "use" and "k" in s["r"]["o"]:
                return T.const_value(s["r"]["o"]["k"])[1]
        ss = body.succs(blk)
        if len(ss) != 1:
            return None
        blk = ss[0]
    return None


def _has_phi(t):
    return T.contains(t, lambda x: x[0] in ("phi", "loopvar"))


def _then_call(t):
    t = T.strip(t)
    return t[0] == "call" and t[1].rsplit("::", 1)[-1] in ("then", "then_some") and "bool" in t[1] and len(t[2]) == 2


def return_sites(body, program=None, resolve=False):
    """All definitions of _0: list of (blk, idx, term, canonical-controls).

    With `resolve` a returned value that merges several assignments of a local (`let q = if c {High} else {Low}; Some(q.score())`,
    a phi in the term) is split into one entry per path to the return, with the value that path assigned and the conditions that
    path took (only branches the return depends on); `c.then(|| v)` / `c.then_some(v)` is split into `Some(v)` under c and `None` under
    !c.  The same function written with the value inline yields the same entries."""
    return [x[:4] for x in return_alternatives(body, program, resolve)]


def return_alternatives(body, program=None, resolve=True):
    """as return_sites, with a fifth element: True when the entry was obtained by splitting (its conditions are the path's own)"""
    from . import q as Q
    S = T.Slicer(body, program)
    out = []
    for (b, j, full) in S.defs().get(0, []):
        if not full:
            continue
        term = S.def_term(0, b, j, 0)
        conds = Q.canon_conds(program, T.controls(body, S, b)) if program else []
        alts = [(term, conds, False)]
        if resolve and program is not None and body.kind != "Closure" and _has_phi(term) and len(body.blocks) <= 400:
            pa = _path_alternatives(body, program, S, b, j)
            if pa:
                alts = [(t2, c2, True) for (t2, c2) in pa]
        final = []
        for (t2, c2, fl) in alts:
            if resolve and program is not None and _then_call(t2):
                final.extend((t3, c3, True) for (t3, c3) in _split_then(program, body, T.strip(t2), c2, b))
            elif resolve and program is not None and _option_map_call(program, t2):
                final.extend((t3, c3, True) for (t3, c3) in _split_option_map(program, body, T.strip(t2), c2, b))
            else:
                final.append((t2, c2, fl))
        for (t2, c2, fl) in final:
            if (b, j, t2, c2, fl) not in out:
                out.append((b, j, t2, c2, fl))
    return out


def _path_alternatives(body, program, S, b, j):
    from . import paths as PA
    from . import q as Q
    from . import cfg as C
    trails, trunc = PA.enumerate_paths(body, 0, 1500, stop={b}, loop_once=False)
    trails = [tr for tr in trails if tr[-1] == b]
    if trunc or not trails or len(trails) > 400:
        return None
    deciding = PA.deciding_blocks(body, S, b, j)
    blk = body.blocks[b]
    seen = []
    for tr in trails:
        ps = PA.PathSlicer(body, tr, program)
        ps.at(len(tr) - 1)
        if j == -1:
            t = ps.def_term(0, b, j, 0)
        else:
            t = ps.rvalue(blk["s"][j]["r"], b, j)
        cs = [Q._norm_cmp(c) for c in PA.path_conds(program, body, S, tr) if c[-1] in deciding]
        key = (t, tuple(cs))
        if key not in seen:
            seen.append(key)
    return [(t, list(cs)) for (t, cs) in seen]


def _option_map_call(program, t):
    t = T.strip(t)
    if not (t[0] == "call" and t[1].rsplit("::", 1)[-1] == "map" and "Option" in t[1] and len(t[2]) == 2):
        return False
    v = T.strip(t[2][1])
    return v[0] == "agg" and v[1] == "closure" and v[2] in program.bodies


def _split_option_map(program, body, t, conds, blk):
    """`x.map(|v| e)` is `Some(e)` when x is Some and None when it is None; `a.zip(b)` is Some when both are."""
    cb = program.bodies[T.strip(t[2][1])[2]]
    rets = return_sites(cb, program, resolve=False)
    if len(rets) != 1:
        return [(t, conds)]
    v = T.expand_upvars(program, cb, rets[0][2], depth=2)
    recv = T.strip(t[2][0])
    parts = [recv]
    if recv[0] == "call" and recv[1].rsplit("::", 1)[-1] == "zip" and "Option" in recv[1] and len(recv[2]) == 2:
        parts = [T.strip(recv[2][0]), T.strip(recv[2][1])]
    yes = list(conds) + [("variant", p, "Some", True, blk) for p in parts]
    out = [(("agg", "adt", "core::option::Option", "Some", (v,)), yes)]
    for p in parts:
        out.append((("agg", "adt", "core::option::Option", "None", ()), list(conds) + [("variant", p, "None", True, blk)]))
    return out


def _split_then(program, body, t, conds, blk):
    from . import q as Q
    c = t[2][0]
    pol = True
    while c[0] == "unop" and c[1] == "Not":
        c, pol = c[2], not pol
    v = T.strip(t[2][1])
    if t[1].rsplit("::", 1)[-1] == "then" and v[0] == "agg" and v[1] == "closure" and v[2] in program.bodies:
        cb = program.bodies[v[2]]
        rets = return_sites(cb, program, resolve=False)
        if len(rets) != 1:
            return [(t, conds)]
        v = T.expand_upvars(program, cb, rets[0][2], depth=2)
    yes = list(conds) + [Q._norm_cmp(x) for x in Q.canon_cond(program, c, pol, blk)]
    no = list(conds) + [Q._norm_cmp(x) for x in Q.canon_cond(program, c, not pol, blk)]
    return [(("agg", "adt", "core::option::Option", "Some", (v,)), yes), (("agg", "adt", "core::option::Option", "None", ()), no)]
