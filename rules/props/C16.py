"""C16 - HTTP/2 requests and responses are decoded as RFC 7540/7541 define them.

Structural clauses decided:
 R1 the HEADERS frame flags (PADDED 0x8, PRIORITY 0x20) are consulted before the payload is handed to HPACK
 R2 the header block fragments of HEADERS + CONTINUATION are joined before decoding (not one decode per frame)
 R3 pseudo-header routing (:method/:path/:authority/:scheme/:status -> like-named field); required fields
 R4 header-name comparisons agree on case folding; every decoded header counts as present; request conversions pass
    is_request = true, response conversions false
 R5 frame splitter guards: 9-byte header, length <= max_frame_size, completeness before the payload is sliced;
    stream id masks the reserved bit; length is the 24-bit big-endian prefix; primary stream = first HEADERS on a stream > 0
 C07.R1 the shared HPACK decoder is re-created before each message; C05.R8 cookie pairs divided at the first `=`
 R3 (also) cookie / referer are split out under exactly these names; R2 (also) every fragment is decoded with the parser's own decoder;
 R4 (also) each header yields exactly one header-order entry; R5 (also) narrowing conversions of the HTTP crate fit
"""
from ..engine import cfg as C
from ..engine import lists as L
from ..engine import q as Q
from ..engine import tables as TB
from ..engine import terms as T
from ..engine.facts import AnchorMissing, callee_of

EXPLANATION = ("Field-read scan (frame.flags) on the call chain build_stream -> HPACK decode; loop membership and argument origin of the "
               "decode call; dominating string-equality conditions of the pseudo-header assignments; case analysis of both operands of "
               "every header-name membership test (to_lowercase in origins vs. literal lists resolved through the list functions); "
               "dominating conditions and byte offsets in parse_single_frame.")
TRUSTED = ["hpack-patched Decoder::decode implements RFC 7541 for one complete header block", "RFC 7540 frame layout"]
DECLINED = ["HPACK decoding itself (Huffman, dynamic table semantics)", "exact equality of the reported header list with the encoded one"]
ASSUMPTIONS = []

H2 = "Http2Parser"


def _reads_flags(P, body):
    for i, j, s in body.iter_stmts():
        if s["k"] != "assign":
            continue
        r = s["r"]
        places = []
        if r["k"] in ("ref", "discr"):
            places.append(r["p"])
        elif r["k"] == "use" and ("c" in r["o"] or "m" in r["o"]):
            places.append(r["o"].get("c") or r["o"].get("m"))
        elif r["k"] == "binop":
            for side in ("a", "b"):
                o = r[side]
                if "c" in o or "m" in o:
                    places.append(o.get("c") or o.get("m"))
        for p in places:
            if any(isinstance(x, dict) and x.get("n") == "flags" for x in p["pr"]):
                return True
    return False


def _masks(P, body):
    out = set()
    S = T.Slicer(body, P)
    for i, j, s in body.iter_stmts():
        if s["k"] == "assign" and s["r"]["k"] == "binop" and s["r"]["op"] == "BitAnd":
            t = S.rvalue(s["r"], i, j)
            if any(x[0] == "field" and x[2] == "flags" for x in T.walk(t)):
                for side in (t[2], t[3]):
                    k = T.fold_int(side)
                    if k is not None:
                        out.add(k)
    return out


def rule_R1_R2(ctx, decode_owner, chain_names, rule_prefix):
    P = ctx.program
    chain = []
    for nm in chain_names:
        chain += [b for b in P.bodies.values() if b.crate == "huginn_net_http" and b.name == nm and b.kind in ("Fn", "AssocFn")]
    if not chain:
        ctx.cannot("R1", rule_prefix + ":chain", "functions %s not found" % (chain_names,))
        return
    dec = []
    for b in chain:
        for blk, t in b.calls():
            if callee_of(t).endswith("Decoder::<'a>::decode") or callee_of(t).endswith("Decoder::decode"):
                dec.append((b, blk))
    if not dec:
        ctx.cannot("R1", rule_prefix + ":decode", "HPACK decode call not found in %s" % chain_names)
        return
    masks = set()
    for b in chain:
        masks |= _masks(P, b)
    ok = {0x8, 0x20} <= masks
    b0, blk0 = dec[0]
    ctx.check(ok, "R1", rule_prefix + ":headers-flags" + ("" if ok else ":masks=" + ("+".join(hex(m) for m in sorted(masks)) or "none")),
              "PADDED (0x8) and PRIORITY (0x20) flags are tested before decoding",
              "the HEADERS payload is passed to the HPACK decoder without looking at frame.flags (masks tested: %s): a HEADERS frame with the PADDED or PRIORITY "
              "flag carries a pad-length byte / 5 priority bytes in front of the header block, which are decoded as HPACK and make the request unparsable" %
              sorted(masks), ctx.loc(b0, blk0))


def rule_R2(ctx):
    P = ctx.program
    b = P.method1(H2, "build_stream")
    S = T.Slicer(b, P)
    cs = Q.calls(b, "parse_headers_payload")
    if not cs:
        ctx.cannot("R2", "build_stream:decode-site", "parse_headers_payload call not found", ctx.loc(b))
        return
    loops = C.loops(b)
    inloop = set()
    for h, blks in loops.items():
        inloop |= blks
    for blk, t in cs:
        a = Q.call_args(b, S, blk, t)
        arg = a[1]
        per_frame = blk in inloop and any(x[0] == "field" and x[2] == "payload" for x in T.walk(arg)) and not T.has_call(arg, "extend_from_slice") \
            and not any(x[0] == "call" and ("concat" in x[1] or "::join" in x[1]) for x in T.walk(arg))
        ctx.check(not per_frame, "R2", "build_stream:continuation-join",
                  "header block fragments are concatenated before HPACK decoding",
                  "each HEADERS/CONTINUATION frame payload is decoded separately inside the frame loop: a header block split across CONTINUATION frames at an "
                  "arbitrary byte is not a sequence of complete HPACK blocks, so decoding fails or yields different headers", ctx.loc(b, blk))


def rule_R3(ctx):
    P = ctx.program
    b = P.method1(H2, "build_stream")
    S = T.Slicer(b, P)
    want = {"method": ":method", "path": ":path", "authority": ":authority", "scheme": ":scheme", "status": ":status"}
    from ..engine import guards as GV
    ag = Q.aggregates(b, "Http2Stream")
    if len(ag) != 1 or ag[0][2]["p"]["pr"]:
        ctx.cannot("R3", "Http2Stream", "expected one Http2Stream construction in build_stream, found %d" % len(ag), ctx.loc(b))
        return
    ai, aj, as_ = ag[0]
    n = 0
    for name, lit in want.items():
        # every assignment that can supply Http2Stream.<name> - through a local of its own moved into the constructor at the end, or
        # assigned to the field of a stream built up front
        if name not in as_["r"]["fields"]:
            ctx.cannot("R3", "pseudo:" + name, "Http2Stream has no field `%s`" % name, ctx.loc(b))
            continue
        k_ = as_["r"]["fields"].index(name)
        asg = GV.assignments_of(P, b, S, {"l": as_["p"]["l"], "pr": [{"f": k_, "n": name}]})
        lits = set()
        for (term, conds_, (db, dj)) in asg:
            tt_ = T.strip(term)
            if tt_[0] == "agg" and tt_[3] == "None":
                continue
            for c in conds_:
                if c[0] == "cmp" and c[1] == "Eq" and c[4]:
                    for side in (c[2], c[3]):
                        ss = T.strip(side)
                        if ss[0] == "const" and isinstance(ss[1], str) and ss[1].startswith(":"):
                            lits.add(ss[1])
        n += 1
        ctx.check(lits == {lit}, "R3", "pseudo:" + name, "`%s` -> %s" % (lit, name), "field `%s` is assigned under header name(s) %s, expected `%s`" % (name, sorted(lits), lit), ctx.loc(b))
    ctx.floor("R3", "pseudo-header fields", n, 5)
    # request needs method + path, response needs status
    for fn, req in (("parse_request", {"method", "path"}), ("parse_response", {"status"})):
        pb = P.method1(H2, fn)
        SP = T.Slicer(pb, P)
        need = set()
        for blk, t in Q.calls(pb, "::ok_or"):
            a = Q.call_args(pb, SP, blk, t)
            fl = [x[2] for x in T.walk(a[0]) if x[0] == "field" and x[2] in want]
            err = T.strip(a[1])
            if fl and err[0] == "agg" and err[3] == "MissingRequiredHeaders":
                need.add(fl[0])
        # .. or written out: `let Some(status) = stream.status else { return Err(MissingRequiredHeaders) }`
        for (rb_, j_, term_, conds_, _split) in TB.return_alternatives(pb, P):
            tt_ = T.strip(term_)
            if tt_[0] == "agg" and tt_[3] == "Err" and any(x[0] == "agg" and x[3] == "MissingRequiredHeaders" for x in T.walk(tt_)):
                for c in conds_:
                    if c[0] == "variant" and ((c[2] == "None" and c[3]) or (c[2] == "Some" and not c[3])):
                        fl = [x[2] for x in T.walk(c[1]) if x[0] == "field" and x[2] in want]
                        if fl:
                            need.add(fl[0])
        ctx.check(need == req, "R3", fn + ":required", "requires %s" % sorted(req), "%s requires %s, expected %s" % (fn, sorted(need), sorted(req)), ctx.loc(pb))
        # version constant
        vs = {s2["r"]["variant"] for _, _, s2 in pb.iter_stmts() if s2["k"] == "assign" and s2["r"]["k"] == "agg" and s2["r"].get("path", "").endswith("http::Version")}
        ctx.check(vs == {"V20"}, "R3", fn + ":version", "version = V20", "%s reports version %s" % (fn, sorted(vs)), ctx.loc(pb))


def _list_literals(P, term):
    """String literals of a header list value: resolves calls to the list functions of huginn_net_db::http."""
    out = []
    for x in T.walk(term):
        if x[0] == "call" and x[1] in P.bodies and x[1].startswith("huginn_net_db::http::") and x[1].endswith("_headers"):
            lb = P.bodies[x[1]]
            for i, j, s in lb.iter_stmts():
                if s["k"] == "assign" and s["r"]["k"] in ("use", "agg"):
                    ops = [s["r"]["o"]] if s["r"]["k"] == "use" else s["r"]["ops"]
                    for o in ops:
                        if "k" in o:
                            cv = T.const_value(o["k"])
                            if isinstance(cv[1], str):
                                out.append(cv[1])
    return out


def rule_R4(ctx):
    P = ctx.program
    n = 0
    for fn in ("convert_http2_headers_to_http_format", "build_absent_headers_from_http2"):
        b0 = P.body("huginn_net_http::http2_process::" + fn)
        # the function and the closures it creates (a `map(|header| ..)` body is the loop body of the iterator spelling)
        for b in L.with_closures(P, b0):
          S = T.Slicer(b, P)
          for blk, t in Q.calls(b, "::contains"):
            a = Q.call_args(b, S, blk, t)
            hay, needle = T.expand_upvars(P, b, a[0], depth=6), T.expand_upvars(P, b, a[1], depth=6)
            needle_lower = T.has_call(needle, "to_lowercase") or T.has_call(needle, "to_ascii_lowercase")
            hay_lower = T.has_call(hay, "to_lowercase") or T.has_call(hay, "to_ascii_lowercase")
            for x in T.walk(hay):
                if x[0] == "agg" and x[1] == "closure" and x[2] in P.bodies:
                    if any(callee_of(t2).endswith("to_lowercase") or callee_of(t2).endswith("to_ascii_lowercase") for _, t2 in P.bodies[x[2]].calls()):
                        hay_lower = True
            lits = _list_literals(P, hay)
            n += 1
            if fn.startswith("build_absent"):
                sel = sorted({T.short(x[1]) for x in T.calls_in(hay) if x[1].endswith(("::filter", "::filter_map", "::take", "::skip", "::take_while", "::skip_while", "::step_by", "::nth", "::retain"))})
                ctx.check(not sel, "R4", fn + ":all-present-names", "every decoded header counts as present",
                          "the set of present header names is built through %s: a header that was sent (e.g. with an empty value) is listed as absent although it also "
                          "appears in the header order" % ",".join(sel), ctx.loc(b, blk))
            which = "optional" if any("optional" in x[1] for x in T.calls_in(hay)) else ("skip-value" if any("skip_value" in x[1] for x in T.calls_in(hay)) else "names")
            inst = "%s:%s" % (fn, which)
            if needle_lower and not hay_lower:
                mixed = sorted(l for l in lits if l != l.lower())
                ctx.check(bool(lits) and not mixed, "R4", inst,
                          "lower-cased name looked up in an all-lower-case list",
                          "a lower-cased header name is looked up in a list of mixed-case names (%s ...): no HTTP/2 header (always lower case on the wire) is ever "
                          "recognised as %s, so the derived signature differs from the one the same headers produce over HTTP/1.x" % (mixed[:3], which), ctx.loc(b, blk))
            elif needle_lower and hay_lower:
                ctx.ok("R4", inst, "both sides lower-cased", ctx.loc(b, blk))
            else:
                ctx.check(not hay_lower, "R4", inst, "neither side case-folded", "list is lower-cased but the name is not", ctx.loc(b, blk))
        # case-insensitive comparisons (eq_ignore_ascii_case) in the function or its closures are case-fold-safe by construction
        b = b0
        for cb in L.with_closures(P, b0):
            for blk, t in cb.calls():
                if callee_of(t).endswith("eq_ignore_ascii_case"):
                    n += 1
                    ctx.ok("R4", "%s:ignore-case@%s" % (fn, T.short(cb.path).split("::")[-1]), "case-insensitive comparison", ctx.loc(cb, blk))
    ctx.floor("R4", "header-name membership tests in http2_process", n, 2)
    # list routing: request lists under is_request, response lists otherwise
    for fn, lists in (("convert_http2_headers_to_http_format", ("optional_headers", "skip_value_headers")), ("build_absent_headers_from_http2", ("common_headers",))):
        b = P.body("huginn_net_http::http2_process::" + fn)
        S = T.Slicer(b, P)
        got = {}
        for blk, t in b.calls():
            nm = callee_of(t).rsplit("::", 1)[-1]
            for l in lists:
                if nm.endswith(l):
                    for c in Q.canon_conds(P, T.dom_conds(b, S, blk)):
                        if c[0] == "bool" and T.strip(c[1])[0] == "param" and T.strip(c[1])[2] == "is_request":
                            got[nm] = c[2]
        want = {}
        for l in lists:
            want["request_" + l] = True
            want["response_" + l] = False
        ctx.check(got == want, "R4", fn + ":list-routing", "request_* lists iff is_request", "list selection is %s, expected %s" % (got, want), ctx.loc(b))


def rule_R5(ctx, rule="R5"):
    P = ctx.program
    b = P.method1(H2, "parse_single_frame")
    S = T.Slicer(b, P)
    # payload copy site
    cs = Q.calls(b, ["::to_vec", "::to_owned", "Vec::<T>::from"])
    if not cs:
        ctx.cannot(rule, "parse_single_frame:payload", "payload copy not found", ctx.loc(b))
        return
    blk, t = cs[0]
    conds = Q.canon_conds(P, T.dom_conds(b, S, blk))
    have9 = maxok = complete = False
    for c in conds:
        if c[0] != "cmp":
            continue
        o = Q.oriented(c, lambda z: T.has_call(z, "::len"))
        if o and Q.int_lower_bound(o[0], T.fold_int(o[2])) == 9:
            have9 = True
        m = Q.oriented(c, lambda z: any(x[0] == "field" and x[2] == "max_frame_size" for x in T.walk(z)))
        if m and m[0] == "Ge":
            # max_frame_size >= length
            maxok = True
        if o and o[0] == "Ge" and (T.has_call(o[2], "saturating_add") or T.has_call(o[2], "try_from") or T.has_call(o[2], "checked_add")):
            complete = True
    ctx.check(have9, rule, "parse_single_frame:header", "needs 9 header bytes", "9-byte frame header guard missing", ctx.loc(b, blk))
    ctx.check(maxok, rule, "parse_single_frame:max", "length <= max_frame_size", "max_frame_size guard missing before the payload copy", ctx.loc(b, blk))
    ctx.check(complete, rule, "parse_single_frame:complete", "data.len() >= 9 + length", "completeness guard missing before the payload slice", ctx.loc(b, blk))
    # field decoding offsets: length = be24(data[0..3]), type = data[3], flags = data[4], stream = be32(data[5..9]) & 0x7fffffff
    ag = Q.aggregates(b, "Http2Frame")
    if not ag:
        ctx.cannot(rule, "parse_single_frame:fields", "Http2Frame not constructed", ctx.loc(b))
        return
    i, j, s = ag[0]
    f = {n2: S.operand(o, i, j) for n2, o in zip(s["r"]["fields"], s["r"]["ops"])}

    def idxs(t):
        out = []
        for x in T.walk(t):
            if x[0] == "index":
                out.append(T.fold_int(x[2]))
        return sorted(set(out))

    ctx.check(idxs(f["length"]) == [0, 1, 2], rule, "frame:length-bytes", "length from bytes 0..3", "frame length read from bytes %s" % idxs(f["length"]), ctx.loc(b, i))
    ctx.check(idxs(f["flags"]) == [4], rule, "frame:flags-byte", "flags = byte 4", "flags read from bytes %s" % idxs(f["flags"]), ctx.loc(b, i))
    ctx.check(idxs(f["frame_type"]) == [3], rule, "frame:type-byte", "type = byte 3", "type read from bytes %s" % idxs(f["frame_type"]), ctx.loc(b, i))
    sid = f["stream_id"]
    mask = [T.fold_int(x[3]) for x in T.walk(sid) if x[0] == "binop" and x[1] == "BitAnd"]
    ctx.check(idxs(sid) == [5, 6, 7, 8] and 0x7FFFFFFF in mask, rule, "frame:stream-id", "stream id = be32(bytes 5..9) & 0x7fffffff",
              "stream id read from bytes %s with mask %s" % (idxs(sid), mask), ctx.loc(b, i))
    # primary stream selection: first HEADERS on a non-zero stream
    fp = P.method1(H2, "find_primary_stream")
    SF = T.Slicer(fp, P)
    okp = False

    def _selects(cs2):
        gt0 = any(c[0] == "cmp" and c[1] in ("Gt", "Ne") and c[4] and T.fold_int(c[3]) == 0 and any(x[0] == "field" and x[2] == "stream_id" for x in T.walk(c[2])) for c in cs2)
        hdr = any(c[0] == "variant" and c[2] == "Headers" and c[3] for c in cs2)
        return gt0 and hdr
    backwards = [t for _, t in Q.calls(fp, ["::rev", "::rfind", "::last", "next_back", "::rposition"])]
    for (rb, j2, term, _c) in TB.return_sites(fp, P):
        if term[0] == "agg" and term[3] == "Some":
            okp = _selects(Q.canon_conds(P, T.dom_conds(fp, SF, rb)))
        # the same selection as `frames.iter().find(|f| ..).map(|f| f.stream_id)`
        for (call, cs2) in Q.predicate_conds(P, term):
            if call[1].endswith("::find") and _selects(cs2):
                okp = True
    okp = okp and not backwards
    ctx.check(okp, rule, "find_primary_stream", "first HEADERS frame with stream_id > 0", "primary stream is not selected as the first HEADERS frame on a non-zero stream", ctx.loc(fp))


def rule_decoder_state(ctx):
    """an HPACK dynamic table belongs to one connection: the shared decoder is re-created before each message is decoded (shared with C07.R1)"""
    from . import C07
    C07.rule_R1(ctx, "C07.R1")


def rule_direction_flags(ctx):
    from . import _http_lists as HL
    P = ctx.program
    HL.direction_flags(ctx, P, "R4", "http2_process")
    HL.exclusive_pushes(ctx, P, "R4", "huginn_net_http::http2_process::convert_http2_headers_to_http_format")
    HL.split_literals(ctx, P, "R3", P.method1(H2, "parse_request"), "http2:parse_request")
    # HPACK state is continuous within one message: every fragment is decoded with the parser's own decoder (re-created once per
    # message in build_stream), never with a decoder made for the fragment
    b = P.method1(H2, "parse_headers_payload")
    S = T.Slicer(b, P)
    dec = [(blk, t) for blk, t in b.calls() if callee_of(t).endswith(("Decoder::<'a>::decode", "Decoder::decode"))]
    okd = bool(dec)
    for blk, t in dec:
        a = Q.call_args(b, S, blk, t)
        if not any(x[0] == "field" and x[2] == "hpack_decoder" for x in T.walk(a[0])) or T.has_call(a[0], "Decoder::<'a>::new") or T.has_call(a[0], "Decoder::new"):
            okd = False
    fresh = [blk for blk, t in b.calls() if callee_of(t).endswith(("Decoder::<'a>::new", "Decoder::new"))]
    ctx.check(okd and not fresh, "R2", "parse_headers_payload:decoder-continuity", "fragments are decoded with the parser's decoder",
              "a header block fragment is decoded with a decoder created for that fragment: entries an earlier fragment (HEADERS) added to the dynamic table are unknown when a later "
              "fragment (CONTINUATION) refers to them", ctx.loc(b, fresh[0]) if fresh else ctx.loc(b))


def rule_first_separator(ctx):
    from ..engine import report as R
    from . import C05
    C05.rule_R8(R.Retag(ctx, "C05."))


def rule_narrowing(ctx):
    """R5: frame lengths, stream ids and values are never silently truncated: every narrowing conversion in the HTTP crate fits"""
    from . import _narrow as N
    n = N.narrowing_preserved(ctx, ctx.program, "R5", ("huginn_net_http",))
    ctx.floor("R5", "narrowing integer conversions in the HTTP crate", n, 4)


def rule_lookup_keys_folded(ctx):
    """R4: header fields looked up by a fixed lower-case name (`user-agent`, `accept-language`, `server`) are found whatever the case
    of the name on the wire: a map that is queried with lower-case literals is filled with case-folded keys"""
    P = ctx.program
    n = 0
    for b0 in sorted(P.bodies.values(), key=lambda x: x.path):
        if b0.crate != "huginn_net_http" or b0.kind == "Closure" or not b0.blocks:
            continue
        if not any(callee_of(t).endswith(("HashMap::<K, V, S, A>::get", "HashMap::<K, V, S>::get")) for _, t in b0.calls()):
            continue
        S0 = T.Slicer(b0, P)
        lits = []
        for blk, t in b0.calls():
            if callee_of(t).endswith(("HashMap::<K, V, S, A>::get", "HashMap::<K, V, S>::get")):
                a = Q.call_args(b0, S0, blk, t)
                k = T.strip(a[1])
                while k[0] in ("ref", "deref"):
                    k = T.strip(k[2] if k[0] == "ref" else k[1])
                if k[0] == "const" and isinstance(k[1], str) and k[1] == k[1].lower() and any(ch.isalpha() for ch in k[1]):
                    lits.append(k[1])
        if not lits:
            continue
        keys = []
        for b in L.with_closures(P, b0):
            S = T.Slicer(b, P) if b is not b0 else S0
            for blk, t in b.calls():
                if callee_of(t).endswith(("HashMap::<K, V, S, A>::insert", "HashMap::<K, V, S>::insert")):
                    a = Q.call_args(b, S, blk, t)
                    keys.append((b, blk, a[1]))
            # pairs collected into the map: `(name.., value)` tuples returned by a map / filter_map closure
            if b is not b0:
                for (rb, j, term, _c) in TB.return_sites(b, P):
                    for x in T.walk(term):
                        if x[0] == "agg" and x[1] == "tuple" and len(x[4]) == 2:
                            keys.append((b, rb, x[4][0]))
        keys = [(b, blk, k) for (b, blk, k) in keys if any(x[0] == "field" and x[2] == "name" for x in T.walk(k))]
        if not keys:
            continue
        n += 1
        raw = [(b, blk, k) for (b, blk, k) in keys if not (T.has_call(k, "to_lowercase") or T.has_call(k, "to_ascii_lowercase"))]
        ctx.check(not raw, "R4", "lookup-keys:%s" % T.short(b0.path).split("::")[-1], "map queried with %s is keyed by lower-cased names" % sorted(set(lits))[:3],
                  "%s looks fields up by the lower-case names %s in a map keyed by the name as sent: a field whose name arrives with capitals (`User-Agent` as an HPACK "
                  "literal) is not found although it is in the header list - user agent / language / software are reported as absent" % (T.short(b0.path), sorted(set(lits))[:3]),
                  ctx.loc(raw[0][0], raw[0][1]) if raw else ctx.loc(b0))
    ctx.floor("R4", "name-keyed lookup maps queried with lower-case literals", n, 2)


def rule_one_stream(ctx):
    """R5: a message is assembled from the frames of ONE stream: wherever build_stream compares a frame's stream id with the stream it
    assembles, the comparison is an equality (`==` / `!=`), never an ordering - frames of other streams do not leak into the message"""
    P = ctx.program
    b0 = P.method1(H2, "build_stream")
    n = 0
    bad = None
    for b in L.with_closures(P, b0):
        S = T.Slicer(b, P)
        tests = []
        for i, j, s in b.iter_stmts():
            if s["k"] == "assign" and s["r"]["k"] == "binop" and s["r"]["op"] in ("Eq", "Ne", "Lt", "Le", "Gt", "Ge"):
                t = S.rvalue(s["r"], i, j)
                if b is not b0:
                    t = T.expand_upvars(P, b, t, depth=4)
                tests.append((i, t))
        for i, t in tests:
            sides = (t[2], t[3])
            has_field = [any(x[0] == "field" and x[2] == "stream_id" for x in T.walk(y)) for y in sides]
            has_param = [any(x[0] == "param" and x[2] == "stream_id" for x in T.walk(y)) for y in sides]
            if (has_field[0] and has_param[1]) or (has_field[1] and has_param[0]):
                n += 1
                if t[1] not in ("Eq", "Ne"):
                    bad = (b, i, t[1])
    ctx.check(bad is None and n >= 1, "R5", "build_stream:one-stream", "frames are selected by stream id equality (%d tests)" % n,
              "build_stream compares frame.stream_id with the assembled stream using `%s`: HEADERS / CONTINUATION frames of other streams in the same buffer are decoded "
              "into this message (path, status, headers of a later stream replace the primary one)" % (bad[2] if bad else "no equality test"),
              ctx.loc(bad[0], bad[1]) if bad else ctx.loc(b0))


def rule_header_block_frames(ctx):
    """R2: a header block is the HEADERS frame and every CONTINUATION frame that follows it (RFC 7540 6.10): build_stream hands the
    payload of both frame types to the header decoder.  The observer's HPACK decoder is created and asked to decode, nothing else: its
    table size follows the updates signalled inside the header blocks (the decoder handles those itself) - never a SETTINGS value, which
    speaks for the *other* direction"""
    P = ctx.program
    b = P.method1(H2, "build_stream")
    S = T.Slicer(b, P)
    calls = [(blk, t) for blk, t in b.calls() if callee_of(t).endswith("parse_headers_payload")]
    if not calls:
        ctx.cannot("R2", "build_stream:header-frames", "no parse_headers_payload call in build_stream", ctx.loc(b))
    for blk, t in calls:
        types = set()
        for c in Q.canon_conds(P, T.dom_conds(b, S, blk)):
            if c[0] in ("variant", "variant_in") and c[3] is True and any(x[0] == "field" and x[2] == "frame_type" for x in T.walk(c[1])):
                types |= set(c[2]) if isinstance(c[2], tuple) else {c[2]}
        ctx.check(types == {"Headers", "Continuation"}, "R2", "build_stream:header-frames", "HEADERS and CONTINUATION payloads are decoded",
                  "build_stream decodes the payload of %s frames only: a header block continued in CONTINUATION frames loses the fields carried there (or the "
                  "request is rejected for a missing pseudo-header)" % sorted(types), ctx.loc(b, blk))
    other = []
    for hb in P.bodies.values():
        if hb.crate != "huginn_net_http":
            continue
        for blk, t in hb.calls():
            nm = callee_of(t)
            if nm.startswith(("hpack_patched::", "hpack::")) and "Decoder" in nm and nm.rsplit("::", 1)[-1] not in ("new", "decode", "default"):
                other.append((hb, blk, nm))
    ctx.check(not other, "R2", "hpack-decoder:only-new-and-decode", "the HPACK decoder is only created and asked to decode",
              "%s is called on the observer's HPACK decoder: its dynamic table is then sized / altered by something other than the header blocks themselves, and "
              "entries the sender still refers to are evicted (decoding fails, the message is not reported)" % (T.short(other[0][2]) if other else ""),
              ctx.loc(other[0][0], other[0][1]) if other else None)


def _collector_root(b, l):
    """the local whose storage `l` names: through `&mut x`, moves and copies, named or not, as long as each has one definition"""
    for _ in range(12):
        if 1 <= l <= b.arg_count:
            return l
        ds = [st for (_, _, st) in b.iter_stmts() if st["k"] == "assign" and st["p"]["l"] == l and not st["p"]["pr"]]
        cs = [blk["t"] for blk in b.blocks if blk["t"]["k"] == "call" and blk["t"].get("dest") and blk["t"]["dest"]["l"] == l and not blk["t"]["dest"]["pr"]]
        if len(ds) != 1 or cs:
            return l
        r = ds[0]["r"]
        if r["k"] == "ref" and (not r["p"]["pr"] or r["p"]["pr"] == ["*"]):
            l = r["p"]["l"]
            continue
        if r["k"] in ("use", "cast"):
            pl = r["o"].get("m") or r["o"].get("c")
            if isinstance(pl, dict) and "l" in pl and (not pl["pr"] or pl["pr"] == ["*"]):
                l = pl["l"]
                continue
        return l
    return l


def rule_frames_returned(ctx):
    """R2: the frames a buffer holds completely are the frames the parser reports: when parse_frames collects the frames it parsed in a
    vector, every successful return hands out that vector (a trailing partial frame - the next segment has not arrived yet - or a frame
    that does not parse ends the walk, it does not discard the frames in front of it)"""
    P = ctx.program
    b = P.method1(H2, "parse_frames")
    S = T.Slicer(b, P)
    coll = set()
    for blk, t in b.calls():
        if callee_of(t).endswith("::push") and len(t["args"]) == 2:
            a1 = S.operand(t["args"][1], blk, len(b.blocks[blk]["s"]))
            pl = t["args"][0].get("m") or t["args"][0].get("c")
            if T.has_call(a1, "parse_single_frame") and isinstance(pl, dict) and "l" in pl:
                coll.add(_collector_root(b, pl["l"]))
    if not coll:
        ctx.ok("R2", "parse_frames:collected-frames-returned", "parse_frames does not collect with push (nothing to compare)")
        return
    bad, n = [], 0
    for (rb, j, full) in S.defs().get(0, []):
        if not full or j >= len(b.blocks[rb]["s"]):
            continue
        st = b.blocks[rb]["s"][j]
        r = st.get("r") or {}
        if r.get("k") != "agg" or r.get("variant") != "Ok":
            continue
        ops = r.get("ops") or []
        n += 1
        for o in ops:
            pl = o.get("m") or o.get("c")
            if isinstance(pl, dict) and "l" in pl and _collector_root(b, pl["l"]) in coll:
                break
        else:
            bad.append(rb)
    ctx.check(not bad, "R2", "parse_frames:collected-frames-returned", "%d successful returns, each of the vector the parsed frames were pushed to" % n,
              "parse_frames can return successfully without the frames it has parsed so far: complete SETTINGS / HEADERS frames in front of a "
              "partial or unparseable frame are thrown away and the request they carry is never reported", ctx.loc(b, bad[0]) if bad else None)
    ctx.floor("R2", "successful returns of parse_frames", n, 1)


def rule_preface_is_prefix(ctx):
    """R4: a byte stream is HTTP/2 when it *starts* with the 24-byte client preface (RFC 7540 3.5).  `is_http2_traffic` is the test
    that routes a request to the HTTP/2 or the HTTP/1 decoder: it must look at the beginning of the data only - a search anywhere in
    the bytes makes the routing of an HTTP/1 head depend on what its body happens to contain"""
    P = ctx.program
    b = P.fn("http2_parser::is_http2_traffic")
    rets = TB.return_sites(b, P)
    ok = False
    why = "no return value"
    for (rb, j, term, _c) in rets:
        t = T.strip(term)
        pref = any(x[0] == "const" and ((x[2] or "").endswith("HTTP2_CONNECTION_PREFACE") or x[1] == b"PRI * HTTP/2.0\r\n\r\nSM\r\n\r\n") for x in T.walk(t))
        anywhere = [T.short(x[1]) for x in T.calls_in(t) if x[1].rsplit("::", 1)[-1] in ("windows", "contains", "find", "position", "any", "ends_with", "rfind")]
        if t[0] == "call" and t[1].endswith("::starts_with") and pref and not anywhere and len(rets) == 1:
            p0 = T.strip(t[2][0])
            while p0[0] in ("ref", "deref"):
                p0 = T.strip(p0[2] if p0[0] == "ref" else p0[1])
            ok = p0[0] == "param"
            why = "tests %s" % T.pp(p0)[:40]
        elif T.has_call(t, "::strip_prefix") and pref and not anywhere and len(rets) == 1:
            ok = True           # `data.strip_prefix(PREFACE).is_some()`: the same prefix test
        else:
            why = "decides by %s" % (T.pp(t)[:80])
    ctx.check(ok, "R4", "is_http2_traffic:prefix", "data.starts_with(HTTP2_CONNECTION_PREFACE)",
              "is_http2_traffic does not test that the data *starts* with the connection preface (%s): a request whose body contains the preface bytes is taken for "
              "HTTP/2 and its HTTP/1 head is never reported" % why, ctx.loc(b))


def rule_language(ctx):
    """the language reported for an HTTP/2 request is chosen by the code shared with HTTP/1 (C05.R5)"""
    from ..engine import report as R
    from . import C05
    C05.rule_q_default(R.Retag(ctx, "C05."))


def rule_default_frame_cap(ctx):
    """frames of the protocol's default maximum size are decoded (shared with C11.R3)"""
    from ..engine import report as R
    from . import C11
    C11.rule_frame_cap_default(R.Retag(ctx, "C11."))


def run(ctx):
    rule_default_frame_cap(ctx)
    rule_language(ctx)
    rule_header_block_frames(ctx)
    rule_frames_returned(ctx)
    rule_preface_is_prefix(ctx)
    rule_lookup_keys_folded(ctx)
    rule_one_stream(ctx)
    rule_narrowing(ctx)
    rule_first_separator(ctx)
    rule_direction_flags(ctx)
    rule_decoder_state(ctx)
    rule_R1_R2(ctx, "Http2Parser", ("build_stream", "parse_headers_payload"), "http2_parser")
    rule_R2(ctx)
    rule_R3(ctx)
    rule_R4(ctx)
    rule_R5(ctx)
