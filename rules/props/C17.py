"""C17 - Akamai HTTP/2 fingerprints follow the published format, incrementally too.

Structural clauses decided:
 R1 tables: SettingId::from(u16) and as_u16 are mutual inverses (Unknown(id) passes through); PseudoHeader::from and
    Display give :method->m, :path->p, :authority->a, :scheme->s
 R2 selectors: first SETTINGS on stream 0; first WINDOW_UPDATE on stream 0 with the reserved bit masked; every PRIORITY
    frame (exclusive bit 0x80, dependency masked 0x7f, weight printed +1); first HEADERS on a stream > 0; `00` / `0`
    for absent parts; no SETTINGS => no fingerprint; separators | ; : , ; the pseudo-header order examines the whole block;
    frame splitter offsets and stream-id mask (shared with C16-R5)
 R3 incremental extractor: nothing is appended once a fingerprint exists; the preface is skipped only at offset 0;
    the fingerprint is computed over every frame received so far by the one-shot function; parsed_offset = start of the
    parsed slice + bytes consumed; reset() restores every field
 R4 the HEADERS payload handed to HPACK honours the frame flags (shared with C16-R1)
 R2 (also) narrowing conversions of the HTTP crate are proven or reviewed to fit
"""
from ..engine import cfg as C
from ..engine import decision as D
from ..engine import grammar as G
from ..engine import paths as PA
from ..engine import q as Q
from ..engine import tables as TB
from ..engine import terms as T
from ..engine.facts import AnchorMissing, callee_of
from . import C16

EXPLANATION = ("Switch/enum tables of SettingId and PseudoHeader (both directions) and their Display tables; decision rows of the frame "
               "selector closures passed to find/filter; bit masks and offsets of the payload decoders; decoded format templates and join "
               "separators of generate_fingerprint_string; dominating conditions in Http2FingerprintExtractor::add_bytes.")
TRUSTED = ["Iterator::find returns the first match, filter keeps all", "sha2", "Akamai fingerprint format S|WU|P|PS (Black Hat EU 2017 paper)"]
DECLINED = ["string assembly beyond separators and constants", "hash value", "invariance over all chunk partitions (needs execution)"]
ASSUMPTIONS = []
EXHAUSTIVE = True

AK = "huginn_net_http::akamai::"
AE = "huginn_net_http::akamai_extractor::"


def rule_R1(ctx):
    P = ctx.program
    # SettingId::from(u16): int switch -> variant
    fb = [b for b in P.bodies.values() if b.name == "from" and (b.impl_self or "").endswith("akamai::SettingId")]
    if len(fb) != 1:
        ctx.cannot("R1", "SettingId::from", "impl From<u16> for SettingId not found")
        return
    fb = fb[0]
    rows, imprecise = TB.interval_table(fb, 1, 0, (0, 65535), P)
    fwd = {}
    passthru = False
    for (ivs, res, blk) in rows:
        r = T.strip(res)
        if r[0] == "agg":
            if r[3] == "Unknown":
                passthru = T.strip(r[4][0])[0] == "param"
                continue
            for (a, bb) in ivs:
                if a == bb:
                    fwd[a] = r[3]
                else:
                    fwd[(a, bb)] = r[3]
    ab = P.method1("SettingId", "as_u16")
    back = TB.enum_const_table(ab, P)
    want = {1: "HeaderTableSize", 2: "EnablePush", 3: "MaxConcurrentStreams", 4: "InitialWindowSize", 5: "MaxFrameSize", 6: "MaxHeaderListSize", 9: "NoRfc7540Priorities"}
    ctx.check(fwd == want and passthru and not imprecise, "R1", "SettingId::from", "ids %s, everything else Unknown(id)" % sorted(want),
              "SettingId::from maps %s (unknown passthrough=%s)" % (fwd, passthru), ctx.loc(fb))
    inv = all(back.get(v) == k for k, v in want.items())
    # Unknown(id) => id
    unk = False
    S = T.Slicer(ab, P)
    for (rb, j, term, _c) in TB.return_sites(ab, P):
        t = T.strip(term)
        if t[0] in ("field", "downcast") and any(x[0] == "downcast" and x[2] == "Unknown" for x in T.walk(t)):
            unk = True
    ctx.check(inv and unk, "R1", "SettingId::as_u16", "as_u16 inverts from() on all listed ids and on Unknown(id)",
              "as_u16 table %s is not the inverse of from() %s (Unknown passthrough=%s)" % (back, want, unk), ctx.loc(ab))
    # generate_fingerprint_string prints the numeric id
    # PseudoHeader
    pf = [b for b in P.bodies.values() if b.name == "from" and (b.impl_self or "").endswith("akamai::PseudoHeader")]
    if len(pf) != 1:
        ctx.cannot("R1", "PseudoHeader::from", "impl From<&str> for PseudoHeader not found")
    else:
        pb = pf[0]
        SP = T.Slicer(pb, P)
        tab = {}
        for (rb, j, term, _c) in TB.return_sites(pb, P):
            if term[0] != "agg":
                continue
            lits = [T.strip(side)[1] for c in Q.canon_conds(P, T.dom_conds(pb, SP, rb)) if c[0] == "cmp" and c[1] == "Eq" and c[4]
                    for side in (c[2], c[3]) if T.strip(side)[0] == "const" and isinstance(T.strip(side)[1], str)]
            if lits:
                tab[lits[-1]] = term[3]
        wantp = {":method": "Method", ":path": "Path", ":authority": "Authority", ":scheme": "Scheme", ":status": "Status"}
        ctx.check(tab == wantp, "R1", "PseudoHeader::from", "%s" % wantp, "PseudoHeader::from maps %s" % tab, ctx.loc(pb))
    dtab, db = G.display_enum_table(P, AK + "PseudoHeader")
    toks = {v: "".join(p[1] if p[0] == "lit" else "{}" for p in pcs) for v, pcs in dtab.items()}
    wantd = {"Method": "m", "Path": "p", "Authority": "a", "Scheme": "s"}
    ctx.check(all(toks.get(k) == v for k, v in wantd.items()), "R1", "PseudoHeader::Display", "m / p / a / s", "pseudo-header tokens are %s" % toks, ctx.loc(db))


FRAME_FIELDS = ("frame_type", "stream_id", "flags", "length", "payload")


def _with_captures(cs, closure):
    """conditions of a predicate closure with the values it captured written in: `f.frame_type == wanted` with `wanted` captured from a
    helper's argument that is a constant at this call reads `frame_type is <that variant>`"""
    cl = T.strip(closure)
    if not (cl[0] == "agg" and cl[1] == "closure" and cl[4]):
        return cs
    ops = cl[4]

    def cap(t):
        t0 = T.strip(t)
        while t0[0] in ("deref", "ref"):
            t0 = T.strip(t0[1] if t0[0] == "deref" else t0[2])
        if t0[0] == "field" and isinstance(t0[2], int) and t0[2] < len(ops):
            base = T.strip(t0[1])
            while base[0] in ("deref", "ref"):
                base = T.strip(base[1] if base[0] == "deref" else base[2])
            if base[0] == "param" and base[1] == 0:
                v = T.strip(ops[t0[2]])
                while v[0] in ("deref", "ref"):
                    v = T.strip(v[1] if v[0] == "deref" else v[2])
                return v
        return None
    out = []
    for c in cs:
        if c[0] == "cmp" and c[1] in ("Eq", "Ne"):
            for x, y in ((c[2], c[3]), (c[3], c[2])):
                v = cap(y)
                if v is not None and v[0] == "agg" and v[1] == "adt" and v[3] and not v[4]:
                    c = ("variant", x, v[3], (c[1] == "Eq") == c[4]) + tuple(c[5:6])
                    break
        out.append(c)
    return out


def _selections(P, b):
    """How a function picks frames out of the frame list: [(mode, conds, block)], mode = "first" (the first frame satisfying conds is
    used: Iterator::find, or a forward loop that returns from inside its body) or "all" (every such frame: Iterator::filter /
    filter_map, or a forward loop that pushes).  conds are canonical conditions over the frame's fields."""
    out = []
    S = T.Slicer(b, P)
    for blk, t in b.calls():
        name = callee_of(t)
        if name.endswith(("Iterator::find", "Iterator>::find")):
            mode = "first"
        elif name.endswith(("Iterator::filter", "Iterator>::filter")):
            mode = "all"
        elif name.endswith(("Iterator::filter_map", "Iterator>::filter_map")):
            # `filter(p).filter_map(f)` merged into one `filter_map(|x| if p(x) { f(x) } else { None })`: every frame for which the
            # closure can yield something is used - the conditions of its not-None returns
            a = Q.call_args(b, S, blk, t)
            cl = T.strip(a[-1])
            if cl[0] == "agg" and cl[1] == "closure" and cl[2] in P.bodies and not T.has_call(a[0], "::rev"):
                cb = P.bodies[cl[2]]
                for (rb_, j_, term_, conds_, _sp) in TB.return_alternatives(cb, P):
                    tt_ = T.strip(term_)
                    if tt_[0] == "agg" and tt_[3] == "None":
                        continue
                    if any(_frame_field(c, f_) for c in conds_ for f_ in FRAME_FIELDS):
                        out.append(("all", list(conds_), blk))
            continue
        else:
            continue
        a = Q.call_args(b, S, blk, t)
        if T.has_call(a[0], "::rev"):
            mode = "last" if mode == "first" else mode
        for cs in Q.closure_result_conds(P, a[-1]):
            out.append((mode, _with_captures(cs, a[-1]), blk))
    # loop spelling
    body_sites = []
    for (db, dj, full) in S.defs().get(0, []):
        body_sites.append(("first", db))
    for blk, t in Q.calls(b, ["Vec::<T, A>::push", "::extend"]):
        body_sites.append(("all", blk))
    for mode, site in body_sites:
        conds = Q.canon_conds(P, T.dom_conds(b, S, site))
        for k, c in enumerate(conds):
            if c[0] == "variant" and c[2] == "Some" and c[3] is True:
                src = T.strip(c[1])
                if src[0] == "call" and src[1].endswith("::next") and "slice::Iter" in src[1] and not T.has_call(src, "::rev"):
                    out.append((mode, conds[k + 1:], site))
                    break
    return out


def _frame_field(c, name):
    """is the quantity tested by condition c the frame's field `name` itself (not a value computed from it by a call)?"""
    terms = [c[1]] if c[0] in ("variant", "variant_in", "bool") else [c[2], c[3]] if c[0] == "cmp" else []
    def direct(y):
        y = T.strip(y)
        if y[0] == "field":
            return y[2] == name or direct(y[1])
        if y[0] == "deref":
            return direct(y[1])
        if y[0] in ("ref", "cast"):
            return direct(y[2])
        if y[0] == "binop":
            return direct(y[2]) or direct(y[3])
        if y[0] == "unop":
            return direct(y[2])
        if y[0] == "downcast":
            return direct(y[1])
        if y[0] == "call" and T.is_identity_call(y[1]) and y[2]:
            return direct(y[2][0])
        return False
    return any(direct(y) for y in terms)


def _selector(ctx, P, fn, want_type, sid_rel, combinator, inst):
    b = P.body(AE + fn)
    want_mode = "first" if combinator == "find" else "all"
    sels = [(m, cs, blk) for (m, cs, blk) in _selections(P, b) if any(_frame_field(c, "frame_type") for c in cs)]
    modes = {m for m, _, _ in sels}
    ctx.check(modes == {want_mode}, "R2", inst + ":combinator", "%s matching frame(s) used (%s)" % (want_mode, combinator),
              "%s does not select frames with Iterator::%s (first vs all semantics): found %s" % (fn, combinator, sorted(modes) or "no selection by frame type"), ctx.loc(b))
    if not sels:
        return
    ok = True
    for (m, cs, blk) in sels:
        ty = [c for c in cs if c[0] == "variant" and _frame_field(c, "frame_type")]
        type_ok = any(c[2] == want_type and c[3] is True for c in ty) and not any(c[2] != want_type and c[3] is True for c in ty)
        sid = [c for c in cs if c[0] == "cmp" and _frame_field(c, "stream_id")]
        if sid_rel is None:
            sid_ok = not sid
        else:
            sid_ok = len(sid) == 1 and T.fold_int(sid[0][3]) == 0 and (sid[0][1] == "Eq" if sid_rel == "Eq" else sid[0][1] in ("Gt", "Ne"))
        extra = [c for c in cs if c not in ty and c not in sid and any(_frame_field(c, f) for f in ("flags", "length", "frame_type", "stream_id"))]
        ok = ok and type_ok and sid_ok and not extra
    ctx.check(ok, "R2", inst + ":predicate",
              "frame_type == %s%s" % (want_type, "" if sid_rel is None else (" && stream_id %s 0" % {"Eq": "==", "Gt": ">"}[sid_rel])),
              "selector predicate of %s is not `type == %s%s`" % (fn, want_type, "" if sid_rel is None else " && stream_id %s 0" % sid_rel), ctx.loc(b, sels[0][2]))


def rule_R2(ctx):
    P = ctx.program
    _selector(ctx, P, "extract_settings_parameters", "Settings", "Eq", "find", "settings")
    _selector(ctx, P, "extract_window_update", "WindowUpdate", "Eq", "find", "window_update")
    _selector(ctx, P, "extract_priority_frames", "Priority", None, "filter", "priority")
    _selector(ctx, P, "extract_pseudo_header_order", "Headers", "Gt", "find", "headers")
    # payload decoders
    wb = P.body(AE + "parse_window_update_payload")
    SW = T.Slicer(wb, P)
    okw = False
    for (rb, j, term, _c) in TB.return_sites(wb, P):
        if term[0] == "agg" and term[3] == "Some":
            v = T.strip(term[4][0])
            if v[0] == "call" and v[1].endswith("from_be_bytes"):
                arr = T.strip(v[2][0])
                if arr[0] == "agg" and len(arr[4]) == 4:
                    first = T.strip(arr[4][0])
                    idx = [T.fold_int(x[2]) for e in arr[4] for x in T.walk(e) if x[0] == "index"]
                    okw = first[0] == "binop" and first[1] == "BitAnd" and T.fold_int(first[3]) == 0x7F and idx == [0, 1, 2, 3]
    ctx.check(okw, "R2", "window_update:decode", "increment = be32(payload[0..4]) with the reserved bit masked (&0x7f)",
              "WINDOW_UPDATE increment is not be32(payload) & 0x7fffffff", ctx.loc(wb))
    pb = P.body(AE + "parse_priority_payload")
    SP = T.Slicer(pb, P)
    okp = False
    for (i, j, s) in Q.aggregates(pb, "Http2Priority"):
        f = {n: SP.operand(o, i, j) for n, o in zip(s["r"]["fields"], s["r"]["ops"])}
        ex = T.strip(f["exclusive"])
        excl_ok = ex[0] == "binop" and ex[1] == "Ne" and T.fold_int(ex[3]) == 0 and any(x[0] == "binop" and x[1] == "BitAnd" and T.fold_int(x[3]) == 0x80 for x in T.walk(ex))
        dep = T.strip(f["depends_on"])
        dep_ok = dep[0] == "call" and dep[1].endswith("from_be_bytes") and any(x[0] == "binop" and x[1] == "BitAnd" and T.fold_int(x[3]) == 0x7F for x in T.walk(dep))
        w = f["weight"]
        w_ok = [T.fold_int(x[2]) for x in T.walk(w) if x[0] == "index"] == [4]
        sid_ok = T.strip(f["stream_id"])[0] == "param"
        okp = excl_ok and dep_ok and w_ok and sid_ok
    ctx.check(okp, "R2", "priority:decode", "exclusive = payload[0]&0x80 != 0; dependency = be32 & 0x7fffffff; weight = payload[4]; stream = frame.stream_id",
              "PRIORITY payload decoding differs from RFC 7540 6.3", ctx.loc(pb))
    # settings payload: 6-byte records id(be16) value(be32), order preserved
    sb = P.body(AE + "parse_settings_payload")
    SS = T.Slicer(sb, P)
    oks = False
    for blk, t in Q.calls(sb, "Vec::<T, A>::push"):
        a = Q.call_args(sb, SS, blk, t)
        v = T.strip(a[1])
        if v[0] == "agg" and (v[2] or "").endswith("SettingParameter"):
            idt, val = v[4][0], v[4][1]
            oks = T.has_call(idt, "SettingId") and T.has_call(idt, "u16>::from_be_bytes") and T.has_call(val, "u32>::from_be_bytes")
            # SETTINGS values are full 32-bit quantities (RFC 7540 6.5.1): no bit of the id or the value is masked or shifted away
            touched = sorted({x[1] for y in (idt, val) for x in T.walk(y) if x[0] == "binop" and x[1] in ("BitAnd", "BitOr", "BitXor", "Shr", "Shl", "Rem")})
            if touched:
                oks = False
                ctx.fail("R2", "settings:value-bits", "a SETTINGS id / value is passed through %s before it is stored: values with the affected bits set (e.g. 4294967295, "
                         "2147483648 - legal initial window sizes) are reported wrongly in the S part and in the hash" % ",".join(touched), ctx.loc(sb, blk))
    step = any(callee_of(t).endswith("saturating_add") and T.fold_int(Q.call_args(sb, SS, blk, t)[1]) == 6 for blk, t in Q.calls(sb, "saturating_add"))
    # the same stride as an iterator: payload.chunks_exact(6) (complete records only, in order)
    step = step or any(T.fold_int(Q.call_args(sb, SS, blk, t)[1]) == 6 for blk, t in Q.calls(sb, ["::chunks_exact", "::as_chunks"]))
    rev = Q.calls(sb, ["::rev", "sort", "::reverse", "dedup"])
    ctx.check(oks and step and not rev, "R2", "settings:decode", "records of 6 bytes: id = be16, value = be32, wire order kept",
              "SETTINGS payload decoding is not (be16 id, be32 value) per 6-byte record in wire order", ctx.loc(sb))
    # no settings => None
    eb = P.body(AE + "extract_akamai_fingerprint")
    SE = T.Slicer(eb, P)
    okn = False
    for (rb, j, term, _c) in TB.return_sites(eb, P):
        if term[0] == "agg" and term[3] == "None":
            for c in Q.canon_conds(P, T.dom_conds(eb, SE, rb)):
                if c[0] == "bool" and c[1][0] == "call" and c[1][1].endswith("is_empty") and c[2] is True and T.has_call(c[1], "extract_settings_parameters"):
                    okn = True
    ctx.check(okn, "R2", "no-settings-no-fingerprint", "None when no SETTINGS parameters were found", "a fingerprint is produced without a SETTINGS frame", ctx.loc(eb))
    # argument order into AkamaiFingerprint::new
    for blk, t in Q.calls(eb, "AkamaiFingerprint::new"):
        a = Q.call_args(eb, SE, blk, t)
        order = [next((n for n in ("extract_settings_parameters", "extract_window_update", "extract_priority_frames", "extract_pseudo_header_order") if T.has_call(x, n)), "?") for x in a]
        ctx.check(order == ["extract_settings_parameters", "extract_window_update", "extract_priority_frames", "extract_pseudo_header_order"], "R2", "new:argument-order",
                  "new(settings, window_update, priorities, pseudo_headers)", "AkamaiFingerprint::new receives %s" % order, ctx.loc(eb, blk))
    # string assembly: separators and constants
    gb = P.method1("AkamaiFingerprint", "generate_fingerprint_string")
    SG = T.Slicer(gb, P)
    fmts = []
    from ..engine import lists as L
    for cb in L.with_callables(P, gb):
        SC = T.Slicer(cb, P)
        for blk, t in Q.calls(cb, "fmt::format"):
            a = Q.call_args(cb, SC, blk, t)
            pcs = PA.arguments_pieces(a[0])
            if pcs is not None:
                fmts.append((cb, blk, "".join(p[1] if p[0] == "lit" else "H" for p in pcs), pcs))
    # `[a, b, c, d].join("|")` writes the same text as `format!("{a}|{b}|{c}|{d}")`: a join over a fixed array is a template
    fixed_joins = set()
    for blk, t in Q.calls(gb, "::join"):
        a = Q.call_args(gb, SG, blk, t)
        recv, sep = T.strip(a[0]), T.strip(a[1])
        while recv[0] in ("ref", "deref", "cast"):
            recv = T.strip(recv[2] if recv[0] in ("ref", "cast") else recv[1])
        if recv[0] == "agg" and recv[1] == "array" and sep[0] == "const" and isinstance(sep[1], str) and len(recv[4]) >= 2:
            pcs = []
            for k_, e_ in enumerate(recv[4]):
                if k_:
                    pcs.append(("lit", sep[1]))
                pcs.append(("hole", e_))
            fmts.append((gb, blk, sep[1].join("H" for _ in recv[4]), pcs))
            fixed_joins.add(blk)
    skel = sorted(f[2] for f in fmts)
    ctx.check(skel == sorted(["H:H", "H:H:H:H", "H|H|H|H"]), "R2", "format:skeletons", "pair `id:value`, priority `s:e:d:w`, fingerprint `S|WU|P|PS`",
              "format skeletons are %s" % skel, ctx.loc(gb))
    joins = []
    for blk, t in Q.calls(gb, "::join"):
        if blk in fixed_joins:
            continue
        a = Q.call_args(gb, SG, blk, t)
        sep = T.strip(a[1])
        joins.append(sep[1] if sep[0] == "const" else "?")
    ctx.check(sorted(joins) == sorted([";", ",", ","]), "R2", "format:joins", "settings joined by `;`, priorities and pseudo-headers by `,`", "join separators are %s" % joins, ctx.loc(gb))
    consts = {x[1] for _, _, s in gb.iter_stmts() if s["k"] == "assign" for x in T.consts_in(SG.rvalue(s["r"], 0, 0)) if isinstance(x[1], str)} if False else set()
    for i, j, s in gb.iter_stmts():
        if s["k"] == "assign" and s["r"]["k"] == "use" and "k" in s["r"]["o"]:
            cv = T.const_value(s["r"]["o"]["k"])
            if isinstance(cv[1], str):
                consts.add(cv[1])
    ctx.check({"00", "0"} <= consts, "R2", "format:absent-parts", "`00` for no WINDOW_UPDATE, `0` for no PRIORITY", "absent-part constants are %s" % sorted(consts), ctx.loc(gb))
    # weight + 1, exclusive as 0/1, id as number
    pri = [f for f in fmts if f[2] == "H:H:H:H"]
    okw = False
    if pri:
        holes = [p[1] for p in pri[0][3] if p[0] == "hole"]
        cb = pri[0][0]
        holes = [T.expand_upvars(P, cb, h) if h is not None else None for h in holes]
        w = holes[3]
        okw = w is not None and any(x[0] == "call" and x[1].endswith("saturating_add") and T.fold_int(x[2][1]) == 1 for x in T.walk(w)) and any(x[0] == "field" and x[2] == "weight" for x in T.walk(w))
        order = [next((n for n in ("stream_id", "exclusive", "depends_on", "weight") if h is not None and any(x[0] == "field" and x[2] == n for x in T.walk(h))), "?") for h in holes]
        ctx.check(order == ["stream_id", "exclusive", "depends_on", "weight"], "R2", "format:priority-order", "stream:exclusive:dependency:weight", "priority fields printed as %s" % order, ctx.loc(cb))
    ctx.check(okw, "R2", "format:weight+1", "weight printed as byte + 1", "priority weight is not printed as weight + 1", ctx.loc(gb))
    pair = [f for f in fmts if f[2] == "H:H"]
    if pair:
        holes = [p[1] for p in pair[0][3] if p[0] == "hole"]
        ctx.check(holes[0] is not None and T.has_call(holes[0], "as_u16") and any(x[0] == "field" and x[2] == "value" for x in T.walk(holes[1])), "R2", "format:setting-pair",
                  "id.as_u16():value", "settings pair is not printed as numeric id : value", ctx.loc(pair[0][0]))
    fin = [f for f in fmts if f[2] == "H|H|H|H"]
    if fin:
        holes = [p[1] for p in fin[0][3] if p[0] == "hole"]
        names = []
        for h in holes:
            nm = "?"
            if h is not None:
                ps = [x[2] for x in T.params_in(h)]
                for cand in ("settings", "window_update", "priority_frames", "pseudo_header_order"):
                    if cand in ps:
                        nm = cand
            names.append(nm)
        ctx.check(names == ["settings", "window_update", "priority_frames", "pseudo_header_order"], "R2", "format:part-order", "S|WU|P|PS", "parts are assembled as %s" % names, ctx.loc(gb))


def _frames_field_fed(b, S, fr):
    """`extract(&self.frames)` where self.frames is extended with the parse result of the buffered bytes"""
    flds = {x[2] for x in T.walk(T.strip(fr)) if x[0] == "field" and isinstance(x[2], str)}
    for gb, gt in Q.calls(b, ["::extend", "::append"]):
        ga = Q.call_args(b, S, gb, gt)
        gf = {x[2] for x in T.walk(ga[0]) if x[0] == "field" and isinstance(x[2], str)}
        if (flds & gf) and T.has_call(ga[1], "::parse_frames") and any(x[0] == "field" and x[2] == "buffer" for x in T.walk(ga[1])):
            return True
    return False


def rule_R3(ctx):
    P = ctx.program
    # add_bytes is read with the parser's `parse_frames_with_offset` (= parse_frames + the sum of the frame sizes) and the equivalent
    # `calculate_frames_bytes_consumed` written out at their calls: the same statements whichever of them add_bytes uses
    b0 = P.method1("Http2FingerprintExtractor", "add_bytes")
    b = P.inlined_view(b0.path, ("::parse_frames_with_offset", "akamai_extractor::calculate_frames_bytes_consumed"))
    S = T.Slicer(b, P)
    ext = Q.calls(b, "extend_from_slice")
    ok1 = False
    for blk, t in ext:
        for c in Q.canon_conds(P, T.dom_conds(b, S, blk)):
            if (c[0] == "bool" and c[1][0] == "call" and c[1][1].endswith("is_some") and c[2] is False and any(x[0] == "field" and x[2] == "fingerprint" for x in T.walk(c[1]))) or \
               (c[0] == "variant" and any(x[0] == "field" and x[2] == "fingerprint" for x in T.walk(c[1])) and ((c[2] == "Some") != c[3])):
                ok1 = True
    ctx.check(ok1, "R3", "add_bytes:once", "bytes appended only while no fingerprint exists", "bytes are appended after the fingerprint was extracted", ctx.loc(b))
    # preface skipped only at parsed_offset == 0
    okp = False
    so = [l for l in range(len(b.locals)) if b.local_name(l) == "start_offset"]
    for l in so:
        for (db, dj, full) in S.defs().get(l, []):
            t = S.def_term(l, db, dj, 0)
            is_pref = t[0] == "call" and t[1].endswith("::len") and any(x[0] == "const" and ((x[2] or "").endswith("HTTP2_CONNECTION_PREFACE") or x[1] == b"PRI * HTTP/2.0\r\n\r\nSM\r\n\r\n") for x in T.walk(t))
            if is_pref:
                cs = Q.canon_conds(P, T.dom_conds(b, S, db))
                z = any(c[0] == "cmp" and c[1] == "Eq" and c[4] and T.fold_int(c[3]) == 0 and any(x[0] == "field" and x[2] == "parsed_offset" for x in T.walk(c[2])) for c in cs)
                sw = any(c[0] == "bool" and c[1][0] == "call" and c[1][1].endswith("starts_with") and c[2] for c in cs)
                okp = z and sw
    ctx.check(okp, "R3", "add_bytes:preface", "preface skipped only when parsed_offset == 0 and the buffer starts with it", "preface skipping is not limited to the stream start", ctx.loc(b))
    # fingerprint from the one-shot function over frames parsed from the buffer; stored on success
    ex = Q.calls(b, "extract_akamai_fingerprint")
    okf = False
    for blk, t in ex:
        a = Q.call_args(b, S, blk, t)
        okf = (T.has_call(a[0], "::parse_frames") and any(x[0] == "field" and x[2] == "buffer" for x in T.walk(a[0]))) or _frames_field_fed(b, S, a[0])
    # the frames handed to the one-shot function cover the stream from its start: either every call parses from the stream start, or the
    # frames of earlier calls are kept and extended (parsing only buffer[parsed_offset..] forgets frames completed by earlier chunks)
    for blk, t in ex:
        a = Q.call_args(b, S, blk, t)
        fr = a[0]
        from_tail = T.has_call(fr, "::parse_frames") and any(x[0] == "field" and x[2] == "parsed_offset" for x in T.walk(fr))
        accumulated = any(x[0] == "field" and x[2] not in ("buffer", "parsed_offset", "parser", "fingerprint") and isinstance(x[2], str) for x in T.walk(T.strip(fr))
                          if x[0] == "field" and any(y[0] == "param" and y[1] == 0 for y in T.walk(x[1])))
        grows = False
        if accumulated:
            for gb, gt in Q.calls(b, ["Vec::<T, A>::extend", "::extend", "::append", "Vec::<T, A>::push", "extend_from_slice"]):
                ga = Q.call_args(b, S, gb, gt)
                if any(x[0] == "field" and x[2] not in ("buffer",) and isinstance(x[2], str) and any(y[0] == "param" and y[1] == 0 for y in T.walk(x[1])) for x in T.walk(ga[0])) \
                        and T.has_call(ga[1], "::parse_frames") and C.dominates(b, gb, blk):
                    grows = True
        whole = (not from_tail) or (accumulated and grows)
        ctx.check(whole, "R3", "add_bytes:whole-stream",
                  "the fingerprint is computed over every frame received so far",
                  "the fingerprint is computed from the frames of buffer[parsed_offset..] only: frames completed by an earlier chunk (a PRIORITY or WINDOW_UPDATE frame that "
                  "precedes SETTINGS) are missing, so the incremental result differs from the one-shot fingerprint of the same bytes "
                  "(PRIORITY|SETTINGS split after the first frame gives `..|00|0|` instead of `..|00|3:0:0:201|`)", ctx.loc(b, blk))
    # whether parsing is attempted depends on the bytes buffered so far, not on how they were delivered: every length test that
    # decides the parse is a test of the slice that is parsed (never of the chunk just received)
    for pb, pt in Q.calls(b, "::parse_frames"):
        pa = Q.call_args(b, S, pb, pt)
        parsed = T.pp(T.canon_value(T.strip(pa[-1])))
        for c in Q.canon_conds(P, T.dom_conds(b, S, pb)):
            o = Q.oriented(c, lambda z: T.has_call(z, "::len")) if c[0] == "cmp" else None
            if o is None or T.fold_int(o[2]) is None:
                continue
            subj = [x for x in T.walk(o[1]) if x[0] == "call" and x[1].endswith("::len") and x[2]]
            who = T.pp(T.canon_value(T.strip(subj[0][2][0]))) if subj else "?"
            chunk = any(x[0] == "param" and x[2] == "data" for x in T.walk(o[1])) and not any(x[0] == "field" and x[2] == "buffer" for x in T.walk(o[1]))
            ctx.check(not chunk, "R3", "add_bytes:guard-on-buffer", "the parse is gated on the buffered bytes (%s)" % who[:40],
                      "whether add_bytes attempts to parse depends on the length of the chunk just received (%s %s %s), not of the bytes buffered: a short chunk that "
                      "completes the first frames never triggers extraction, so the result depends on how the stream was divided" % (who[:40], o[0], T.fold_int(o[2])), ctx.loc(b, pb))
    # offset bookkeeping: the next parse starts where this one stopped = (offset this parse started at) + (bytes it consumed)
    starts = []
    for pb, pt in Q.calls(b, "::parse_frames"):
        pa = Q.call_args(b, S, pb, pt)
        for x in T.walk(pa[-1]):
            if x[0] == "call" and x[1].endswith("::index") and len(x[2]) == 2:
                r = T.strip(x[2][1])
                if r[0] == "agg" and (r[2] or "").endswith("ops::RangeFrom"):
                    starts.append(T.pp(T.canon_value(T.strip(r[4][0]))))
    nupd = 0
    for i, j, st in b.iter_stmts():
        if st["k"] == "assign" and any(isinstance(x, dict) and x.get("n") == "parsed_offset" for x in st["p"]["pr"]):
            term = T.strip(S.rvalue(st["r"], i, j))
            if T.fold_int(term) == 0:
                continue
            nupd += 1
            okk = False
            if term[0] == "call" and term[1].endswith(("saturating_add", "wrapping_add", "checked_add")) and len(term[2]) == 2:
                a0, a1 = term[2]
                okk = T.pp(T.canon_value(T.strip(a0))) in starts and T.has_call(a1, "::parse_frames")
            elif term[0] == "binop" and term[1].startswith("Add"):
                okk = T.pp(T.canon_value(T.strip(term[2]))) in starts and T.has_call(term[3], "::parse_frames")
            elif term[0] == "field" and T.strip(term[1])[0] == "binop" and T.strip(term[1])[1].startswith("Add"):
                bt = T.strip(term[1])
                okk = T.pp(T.canon_value(T.strip(bt[2]))) in starts and T.has_call(bt[3], "::parse_frames")
            ctx.check(okk, "R3", "add_bytes:offset-advance@%d" % nupd, "parsed_offset = start of the parsed slice + bytes consumed",
                      "parsed_offset is advanced to %s, which is not (offset the parsed slice started at) + (bytes consumed): after a skipped preface the next parse starts "
                      "inside an already consumed frame (24 bytes early) and the extractor never reports" % T.pp(term)[:90], ctx.loc(b, i))
    ctx.floor("R3", "parsed_offset updates in add_bytes", nupd, 1)
    stored = any(s["k"] == "assign" and any(isinstance(x, dict) and x.get("n") == "fingerprint" for x in s["p"]["pr"]) for _, _, s in b.iter_stmts())
    ctx.check(okf and stored, "R3", "add_bytes:one-shot", "fingerprint = extract_akamai_fingerprint(frames of the buffered bytes), remembered",
              "incremental extractor does not reuse the one-shot extraction over the buffered frames", ctx.loc(b))


def rule_R5(ctx):
    """R3/R2 extras: reset() restores the whole extractor; the pseudo-header order looks at every header of the block"""
    from . import _reset as RS
    P = ctx.program
    RS.reset_complete(ctx, P, "R3", "Http2FingerprintExtractor")
    b = P.body("huginn_net_http::akamai_extractor::extract_pseudo_header_order")
    bad = []
    n = 0
    for cb in [b] + P.closures_of(b.path):
        for blk, t in cb.calls():
            nm = callee_of(t)
            n += 1
            if nm.endswith(("::take_while", "::skip_while", "::take", "::skip", "::step_by", "::nth", "::last", "::map_while", "::next_back", "::rev")):
                bad.append((cb, blk, T.short(nm)))
    ctx.check(not bad and n >= 2, "R2", "pseudo-header-order:whole-block", "every header of the first request HEADERS block is examined (filter, no truncation)",
              "the pseudo-header order is collected through %s: pseudo-headers that follow a regular header (or fall outside the cut) are missing from the PS part"
              % ",".join(x[2] for x in bad), ctx.loc(bad[0][0], bad[0][1]) if bad else ctx.loc(b))


def rule_R4(ctx):
    C16.rule_R1_R2(ctx, "akamai", ("extract_pseudo_header_order", "decode_headers"), "akamai_extractor")
    # the frame splitter the extractor relies on: header offsets, reserved bit of the stream id masked (stream 0 selectors depend on it)
    C16.rule_R5(ctx, "R2")
    # re-label: the shared rule records under R1; keep ids stable for this property
    for k, inst in enumerate(ctx.instances):
        if inst[0] == "R1" and inst[1].startswith("akamai_extractor"):
            ctx.instances[k] = ("R4",) + inst[1:]
    for v in ctx.violations:
        if v["rule"] == "R1" and v["key"].startswith("akamai_extractor"):
            v["rule"] = "R4"


def rule_skip_preface(ctx):
    """R2: the one-shot entry point skips the connection preface the way the incremental extractor does: the frames are parsed from
    the slice that starts after the preface (the offset it reports as consumed is the offset it really skipped)"""
    P = ctx.program
    b = P.method1("Http2Parser", "parse_frames_skip_preface")
    S = T.Slicer(b, P)
    calls = [(blk, t) for blk, t in b.calls() if callee_of(t).rsplit("::", 1)[-1] in ("parse_frames_with_offset", "parse_frames")]
    if not calls:
        ctx.cannot("R2", "skip_preface:slice", "no parse call in parse_frames_skip_preface", ctx.loc(b))
        return
    for blk, t in calls:
        a = Q.call_args(b, S, blk, t)
        d = T.strip(a[-1])
        starts = []
        for x in T.walk(d):
            if x[0] == "call" and x[1].endswith("::index") and len(x[2]) == 2:
                r = T.strip(x[2][1])
                if r[0] == "agg" and (r[2] or "").endswith("ops::RangeFrom"):
                    starts.append(r[4][0])
            if x[0] == "call" and x[1].endswith("::strip_prefix"):
                starts.append(("strip_prefix",))
        skips = [s_ for s_ in starts if s_ == ("strip_prefix",) or any(y[0] == "const" and ((y[2] or "").endswith("HTTP2_CONNECTION_PREFACE") or
                 y[1] == b"PRI * HTTP/2.0\r\n\r\nSM\r\n\r\n") for y in T.walk(s_)) or T.fold_int(s_) == 24 or
                 (T.strip(s_)[0] == "phi" and any(T.fold_int(z) == 24 for z in T.strip(s_)[1]))]
        ctx.check(bool(skips), "R2", "skip_preface:slice", "frames parsed from data[preface length..]",
                  "parse_frames_skip_preface parses %s: the preface bytes are read as a frame header (`PRI` = a 5 MiB frame), no frame is found and the one-shot "
                  "fingerprint of a capture that starts with the preface is None while the incremental extractor reports one" % T.pp(d)[:60], ctx.loc(b, blk))


def rule_default_frame_cap(ctx):
    """frames of the protocol's default maximum size are decoded (shared with C11.R3)"""
    from ..engine import report as R
    from . import C11
    C11.rule_frame_cap_default(R.Retag(ctx, "C11."))


def run(ctx):
    rule_default_frame_cap(ctx)
    rule_skip_preface(ctx)
    rule_R1(ctx)
    rule_R2(ctx)
    rule_R3(ctx)
    rule_R5(ctx)
    from . import _narrow as N
    N.narrowing_preserved(ctx, ctx.program, "R2", ("huginn_net_http",))
    rule_R4(ctx)
