"""C14 - Packet filters decide exactly the documented boolean function.

Structural clauses decided, for each of the three filter.rs copies (tcp, http, tls):
 R1 FilterConfig::should_process == documented mode composition (exhaustive truth table over its atoms)
 R2 PortFilter::matches == documented rule (exhaustive truth table over membership/emptiness atoms)
 R3 every range closure is `lo <= p && p <= hi` (all 9 order cases)
 R4 IpFilter / SubnetFilter::matches == (check_source & src in family-list) | (check_destination & dst in family-list)
 R5 half-open range conversion: `end-1` only for non-empty ranges; an empty range must stay a constraint that matches nothing
 R6 argument routing: (src, dst) passed in that order at every call
 R7 the builders store what the caller configured (as parsed), nothing rewrites a value on its way into the lists
 R7 (also) source_only / destination_only / any_port set exactly the documented flags in all three copies
"""
from ..engine import cfg as C
from ..engine import decision as D
from ..engine import tables as TB
from ..engine import q as Q
from ..engine import terms as T
from ..engine.facts import AnchorMissing, callee_of

EXPLANATION = ("Decision tables are extracted from the MIR of should_process and of the three matches functions by enumerating their "
               "acyclic paths with uninterpreted atoms (Option discriminants, mode, membership calls); every valuation of the atoms "
               "is compared with the documented rule. Range closures are checked over the nine order relations of (p,lo),(p,hi).")
TRUSTED = ["slice::contains / Iterator::any / Vec::is_empty semantics", "pnet IpNetwork::contains", "Iterator::chain/copied/collect build the union"]
DECLINED = ["nothing essential: finite boolean function, decided up to the trusted std/pnet membership predicates"]
ASSUMPTIONS = ["documented rule as stated in the property text and the rustdoc of filter.rs"]
EXHAUSTIVE = True

CRATES = ["huginn_net_tcp", "huginn_net_http", "huginn_net_tls"]


def _m(P, crate, ty, name):
    c = [b for b in P.method(ty, name) if b.crate == crate]
    if len(c) != 1:
        raise AnchorMissing("%s::%s::%s: %d bodies" % (crate, ty, name, len(c)))
    return c[0]


def _self_fields(t):
    out = set()
    for x in T.walk(t):
        if x[0] == "field" and isinstance(x[2], str):
            fp = Q.field_path(x)
            if fp and fp[0] == 0:
                out.update(n for n in fp[1] if isinstance(n, str))
    return out


def _params(t, program=None, body=None):
    ps = {x[1] for x in T.params_in(t)}
    return ps


# ---------------------------------------------------------------------------
def rule_should_process(ctx, crate):
    P = ctx.program
    b = _m(P, crate, "FilterConfig", "should_process")
    rows = D.decision_rows(P, b)
    inst = crate + ":should_process"
    if rows is None:
        ctx.cannot("R1", inst, "too many paths", ctx.loc(b))
        return

    def cond_key(c):
        if c[0] == "variant":
            fp = Q.field_path(c[1])
            if fp and fp[0] == 0 and fp[1]:
                f = fp[1][-1]
                if f in ("port_filter", "ip_filter", "subnet_filter") and c[2] in ("Some", "None"):
                    return (("some", f), (c[2] == "Some") == c[3])
                if f == "mode" and c[2] in ("Allow", "Deny"):
                    return (("allow",), (c[2] == "Allow") == c[3])
            return "unknown"
        if c[0] == "bool":
            t = c[1]
            if t[0] == "const" and isinstance(t[1], bool):
                return None if t[1] == c[2] else "infeasible"
            k = term_key(t)
            if k is not None:
                return (k, c[2])
            return "unknown"
        return "unknown"

    def term_key(t):
        if t[0] == "call" and t[1].endswith("::matches"):
            for ty in ("PortFilter", "IpFilter", "SubnetFilter"):
                if ("::%s::matches" % ty) in t[1]:
                    return ("m", ty)
        return None

    def spec(a):
        conf = [(f, ty) for f, ty in (("port_filter", "PortFilter"), ("ip_filter", "IpFilter"), ("subnet_filter", "SubnetFilter"))
                if a.get(("some", f), False)]
        if not conf:
            return True
        allm = all(a.get(("m", ty), False) for _, ty in conf)
        if a.get(("allow",), True):
            return allm
        return not allm

    problems, stats = D.truth_check(rows, cond_key, term_key, spec)
    ctx.extra.setdefault("truth_tables", {})[inst] = stats
    if problems:
        k, asg, det = problems[0]
        ctx.fail("R1", inst + ":" + k, "mode composition differs from the documented rule (%d problems); first: %s under %s"
                 % (len(problems), det, _fmt(asg)), ctx.loc(b))
    else:
        ctx.ok("R1", inst, "%d valuations of %d atoms over %d feasible paths agree with: no sub-filter => pass; allow => all configured match; deny => not all"
               % (stats.get("valuations", 0), len(stats["atoms"]), stats["rows"]), ctx.loc(b))
    # R6 argument routing at the matches calls
    S = T.Slicer(b, P)
    n = 0
    for blk, t in Q.calls(b, "::matches"):
        args = Q.call_args(b, S, blk, t)
        name = callee_of(t)
        want = (3, 4) if "PortFilter" in name else (1, 2)
        got = tuple(sorted(_params(a))[0] if _params(a) else None for a in args[1:3])
        fld = {"PortFilter": "port_filter", "IpFilter": "ip_filter", "SubnetFilter": "subnet_filter"}[[x for x in ("PortFilter", "IpFilter", "SubnetFilter") if x in name][0]]
        recv_ok = fld in _self_fields(args[0])
        n += 1
        ctx.check(got == want and recv_ok, "R6", "%s:%s@L%s" % (inst, T.short(name), "allow" if n <= 3 else "deny"),
                  "%s(self.%s, param%d, param%d)" % (T.short(name), fld, want[0], want[1]),
                  "%s receives parameters %s of should_process (expected %s: source first, destination second) on self.%s=%s" % (
                      T.short(name), got, want, fld, recv_ok), ctx.loc(b, blk))
    # one call per sub-filter kind at least (the reference writes each twice: once per mode arm)
    ctx.floor("R6", crate + " matches call sites in should_process", n, 3)
    kinds = {x for x in ("PortFilter", "IpFilter", "SubnetFilter") for _, t in Q.calls(b, "::matches") if x in callee_of(t)}
    ctx.check(kinds == {"PortFilter", "IpFilter", "SubnetFilter"}, "R6", inst + ":all-sub-filters", "port, address and subnet filters are all consulted",
              "should_process consults only %s" % sorted(kinds), ctx.loc(b))


def _fmt(asg):
    if not asg:
        return "-"
    return ", ".join("%s=%s" % ("/".join(map(str, k)) if isinstance(k, tuple) else k, "T" if v else "F") for k, v in asg.items())


# ---------------------------------------------------------------------------
PORT_FIELDS = {"source_ports": "sp", "destination_ports": "dp", "source_ranges": "sr", "destination_ranges": "dr"}


def rule_port_matches(ctx, crate):
    P = ctx.program
    b = _m(P, crate, "PortFilter", "matches")
    rows = D.decision_rows(P, b)
    inst = crate + ":PortFilter::matches"
    if rows is None:
        ctx.cannot("R2", inst, "too many paths", ctx.loc(b))
        return

    def term_key(t):
        if t[0] == "field":
            fp = Q.field_path(t)
            if fp and fp[0] == 0 and fp[1] == ["match_any"]:
                return ("any",)
            return None
        if t[0] == "deref":
            return term_key(t[1])
        if t[0] != "call":
            return None
        callee = t[1]
        flds = frozenset(PORT_FIELDS[f] for f in _self_fields(t) if f in PORT_FIELDS)
        if not flds:
            return None
        if callee.endswith("::is_empty"):
            return ("empty", flds)
        port = None
        ps = set()
        for a in t[2][1:]:
            ps |= _params(a)
        if ps == {1}:
            port = "src"
        elif ps == {2}:
            port = "dst"
        if callee.endswith("::contains") and port:
            return ("in", flds, port)
        if callee.endswith("::any") and len(t[2]) == 2:
            # meaning of the predicate closure at this site: item == p / lo <= p <= hi, for one port or for either
            flds = frozenset(PORT_FIELDS[f] for f in _self_fields(t[2][0]) if f in PORT_FIELDS)
            cl = T.strip(t[2][1])
            if not flds or not (cl[0] == "agg" and cl[1] == "closure"):
                return None
            sem = _closure_sem(P, cl)
            if sem[0] == "eq" and flds <= {"sp", "dp"} or sem[0] == "range" and flds <= {"sr", "dr"}:
                atoms = [("in", flds, p_) for p_ in sorted(sem[1], reverse=True)]
                return atoms[0] if len(atoms) == 1 else ("OR",) + tuple(atoms)
            return None
        return None

    def cond_key(c):
        if c[0] == "bool":
            t = c[1]
            if t[0] == "const" and isinstance(t[1], bool):
                return None if t[1] == c[2] else "infeasible"
            k = term_key(t)
            if k is None:
                return "unknown"
            return (k, c[2])
        return "unknown"

    def spec(a):
        g = lambda k: a.get(k, False)
        if g(("any",)):
            return (g(("in", frozenset({"sp", "dp"}), "src")) or g(("in", frozenset({"sp", "dp"}), "dst"))
                    or g(("in", frozenset({"sr", "dr"}), "src")) or g(("in", frozenset({"sr", "dr"}), "dst")))
        src_ok = (g(("empty", frozenset({"sp"}))) and g(("empty", frozenset({"sr"})))) or g(("in", frozenset({"sp"}), "src")) or g(("in", frozenset({"sr"}), "src"))
        dst_ok = (g(("empty", frozenset({"dp"}))) and g(("empty", frozenset({"dr"})))) or g(("in", frozenset({"dp"}), "dst")) or g(("in", frozenset({"dr"}), "dst"))
        return src_ok and dst_ok

    def feasible(a):
        for f, port in (("sp", "src"), ("sr", "src"), ("dp", "dst"), ("dr", "dst")):
            if a.get(("empty", frozenset({f}))) and a.get(("in", frozenset({f}), port)):
                return False
        return True

    problems, stats = D.truth_check(rows, cond_key, term_key, spec, feasible, limit_atoms=15)
    ctx.extra.setdefault("truth_tables", {})[inst] = {"atoms": [str(x) for x in stats.get("atoms", [])], "rows": stats.get("rows"), "valuations": stats.get("valuations")}
    # all 13 expected atoms must be present (a dropped disjunct removes its atom)
    atoms = set(stats.get("atoms", []))
    expect = {("any",)}
    for f in ("sp", "sr", "dp", "dr"):
        expect.add(("empty", frozenset({f})))
    for f, p in (("sp", "src"), ("sr", "src"), ("dp", "dst"), ("dr", "dst")):
        expect.add(("in", frozenset({f}), p))
    for fs in (frozenset({"sp", "dp"}), frozenset({"sr", "dr"})):
        for p in ("src", "dst"):
            expect.add(("in", fs, p))
    missing = expect - atoms
    if problems:
        k, asg, det = problems[0]
        ctx.fail("R2", inst + ":" + k, "port rule differs from the documented one (%d problems); first: %s under %s" % (len(problems), det, _fmt(asg)), ctx.loc(b))
    elif missing:
        ctx.fail("R2", inst + ":missing-atoms", "membership tests absent from the decision: %s" % sorted(map(str, missing)), ctx.loc(b))
    else:
        ctx.ok("R2", inst, "%d feasible valuations of 13 atoms over %d paths agree with the documented rule (each constrained side must match; any-port = union)"
               % (stats["valuations"], stats["rows"]), ctx.loc(b))
    # R3 membership closures, per call site (the same closure body may be instantiated for the source and for the destination port)
    S = T.Slicer(b, P)
    n = 0
    seen_sites = set()
    for blk, t in Q.calls(b, "::any"):
        args = Q.call_args(b, S, blk, t)
        cl = T.strip(args[1]) if len(args) > 1 else None
        if cl is None or not (cl[0] == "agg" and cl[1] == "closure"):
            continue
        sem = _closure_sem(P, cl)
        inst2 = "%s:%s@%s" % (crate, T.short(cl[2]), "+".join(sorted(sem[1])) if sem[0] != "bad" else "?")
        k = 0
        while (inst2, k) in seen_sites:
            k += 1
        seen_sites.add((inst2, k))
        if k:
            inst2 += "#%d" % k
        if sem[0] == "range":
            n += len(sem[1])
            ctx.ok("R3", inst2, "lo <= p && p <= hi on all order cases for p in %s" % sorted(sem[1]), ctx.loc(b, blk))
        elif sem[0] == "eq":
            ctx.ok("R3", inst2, "item == p for p in %s (list membership written as any)" % sorted(sem[1]), ctx.loc(b, blk))
        else:
            ctx.fail("R3", inst2, "range predicate wrong: %s" % sem[1], ctx.loc(b, blk))
    ctx.floor("R3", crate + " (range test, port) pairs", n, 4)


_SEM_MEMO = {}


def _closure_sem(P, cl):
    """Meaning of a membership closure at one call site: ("eq", ports) - true iff the item equals one of the captured ports;
    ("range", ports) - true iff one of the captured ports lies in the inclusive (lo, hi) item; ("bad", why) otherwise.
    Decided by evaluating the closure's decision rows on every order scenario (4 for eq, 81 for range)."""
    import itertools
    path = cl[2]
    c = P.bodies.get(path)
    if c is None:
        return ("bad", "closure body missing")
    ports_of_env = []
    for o in cl[4]:
        ps = _params(o)
        ports_of_env.append({1: "src", 2: "dst"}.get(next(iter(ps))) if len(ps) == 1 else None)
    key = (path, tuple(ports_of_env))
    if key in _SEM_MEMO:
        return _SEM_MEMO[key]

    def classify(t):
        t = T.strip(t)
        ps = _params(t)
        if ps == {0}:
            ks = [x[2] for x in T.walk(t) if x[0] == "field" and isinstance(x[2], int)]
            if len(ks) >= 1 and ks[-1] < len(ports_of_env) and ports_of_env[ks[-1]]:
                return ("port", ports_of_env[ks[-1]])
            return None
        if ps == {1}:
            idx = [x[2] for x in T.walk(t) if x[0] == "field" and x[2] in (0, 1, "0", "1")]
            if idx:
                return ("lo",) if int(idx[-1]) == 0 else ("hi",)
            return ("item",)
        return None

    used = set()

    def rel(op, a, b_, scen):
        ka, kb = classify(a), classify(b_)
        if ka is None or kb is None:
            return None
        if ka[0] != "port":
            ka, kb = kb, ka
            op = {"Lt": "Gt", "Gt": "Lt", "Le": "Ge", "Ge": "Le"}.get(op, op)
        if ka[0] != "port":
            return None
        pname = ka[1]
        if kb[0] == "item":
            used.add("eq")
            e = scen.get(("eq", pname))
            if op == "Eq":
                return e
            if op == "Ne":
                return not e
            return None
        used.add("range")
        o = scen.get(("ord", pname, kb[0]))
        holds = {"Lt": {"<"}, "Le": {"<", "="}, "Gt": {">"}, "Ge": {">", "="}, "Eq": {"="}, "Ne": {"<", ">"}}[op]
        return o in holds

    def ev(t, scen):
        t = T.strip(t)
        while t[0] in ("deref", "ref") and not _params(t) - {0, 1} and False:
            pass
        if t[0] == "const" and isinstance(t[1], bool):
            return t[1]
        if t[0] == "unop" and t[1] == "Not":
            v = ev(t[2], scen)
            return None if v is None else not v
        if t[0] == "binop" and t[1] in ("BitOr", "BitAnd"):
            x, y = ev(t[2], scen), ev(t[3], scen)
            if x is None or y is None:
                return None
            return (x or y) if t[1] == "BitOr" else (x and y)
        if t[0] == "binop" and t[1] in ("Lt", "Le", "Gt", "Ge", "Eq", "Ne"):
            return rel(t[1], t[2], t[3], scen)
        if t[0] == "call" and t[1].endswith("::contains") and "RangeInclusive" in t[1] and len(t[2]) == 2:
            rng = T.strip(t[2][0])
            while rng[0] in ("ref", "deref"):
                rng = T.strip(rng[2] if rng[0] == "ref" else rng[1])
            if rng[0] == "call" and rng[1].endswith("RangeInclusive::<Idx>::new") and len(rng[2]) == 2:
                lo, hi = classify(rng[2][0]), classify(rng[2][1])
                if lo == ("lo",) and hi == ("hi",):
                    x = rel("Ge", t[2][1], rng[2][0], scen)
                    y = rel("Le", t[2][1], rng[2][1], scen)
                    if x is None or y is None:
                        return None
                    return x and y
            return None
        if t[0] == "call" and "PartialEq" in t[1] and t[1].endswith(("::eq", "::ne")) and len(t[2]) == 2:
            v = rel("Eq", t[2][0], t[2][1], scen)
            return None if v is None else (v if t[1].endswith("::eq") else not v)
        if t[0] == "phi":
            vs = {ev(x, scen) for x in t[1]}
            return vs.pop() if len(vs) == 1 else None
        return None

    def cond_true(cn, scen):
        if cn[0] == "cmp":
            v = rel(cn[1], cn[2], cn[3], scen)
            return None if v is None else (v == cn[4])
        if cn[0] == "bool":
            v = ev(cn[1], scen)
            return None if v is None else (v == cn[2])
        return None

    rows = D.decision_rows(P, c)
    if rows is None:
        res = ("bad", "too many paths")
        _SEM_MEMO[key] = res
        return res
    ports = sorted({x for x in ports_of_env if x})
    if not ports:
        res = ("bad", "closure captures no port")
        _SEM_MEMO[key] = res
        return res

    def value(scen):
        vals = set()
        for r in rows:
            ok = True
            for cn in r.conds:
                v = cond_true(cn, scen)
                if v is None:
                    return "condition not understood: " + str(cn)[:80]
                if not v:
                    ok = False
                    break
            if ok:
                rv = ev(r.ret, scen)
                if rv is None:
                    return "return not understood: " + T.pp(r.ret)[:80]
                vals.add(rv)
        if len(vals) != 1:
            return "paths disagree: %s" % sorted(vals)
        return vals.pop()

    # probe which vocabulary the closure uses
    probe = value({("eq", p_): False for p_ in ports} | {("ord", p_, bnd): "=" for p_ in ports for bnd in ("lo", "hi")})
    if isinstance(probe, str):
        res = ("bad", probe)
        _SEM_MEMO[key] = res
        return res
    if used == {"eq"}:
        scens = [dict(zip([("eq", p_) for p_ in ports], bits)) for bits in itertools.product((False, True), repeat=len(ports))]
        want = lambda scen, sub: any(scen[("eq", p_)] for p_ in sub)
        kind = "eq"
    elif used == {"range"}:
        keys = [("ord", p_, bnd) for p_ in ports for bnd in ("lo", "hi")]
        scens = [dict(zip(keys, o)) for o in itertools.product("<=>", repeat=len(keys))]
        want = lambda scen, sub: any(scen[("ord", p_, "lo")] in ("=", ">") and scen[("ord", p_, "hi")] in ("<", "=") for p_ in sub)
        kind = "range"
    else:
        res = ("bad", "closure mixes equality and range tests (%s)" % sorted(used))
        _SEM_MEMO[key] = res
        return res
    subsets = [frozenset(x) for k in range(1, len(ports) + 1) for x in itertools.combinations(ports, k)]
    table = []
    for scen in scens:
        v = value(scen)
        if isinstance(v, str):
            res = ("bad", v)
            _SEM_MEMO[key] = res
            return res
        table.append((scen, v))
    res = None
    for sub in subsets:
        if all(v == want(scen, sub) for scen, v in table):
            res = (kind, sub)
            break
    if res is None:
        bad = [(scen, v) for scen, v in table if v != want(scen, frozenset(ports))][:1]
        res = ("bad", "not the inclusive test `lo <= p && p <= hi` / `item == p`: e.g. %s gives %s" % (
            {"%s %s %s" % (k[1], o, k[2]) if k[0] == "ord" else "%s==item:%s" % (k[1], o) for k, o in bad[0][0].items()} if bad else "?", bad[0][1] if bad else "?"))
    _SEM_MEMO[key] = res
    return res


# ---------------------------------------------------------------------------
def rule_ip_matches(ctx, crate, ty, v4list, v6list):
    P = ctx.program
    b = _m(P, crate, ty, "matches")
    rows = D.decision_rows(P, b)
    inst = "%s:%s::matches" % (crate, ty)

    def which_ip(t):
        ps = set()
        for a in t[2][1:]:
            ps |= _params(a)
            # closures capturing the address
        return {1: "src", 2: "dst"}.get(next(iter(ps))) if len(ps) == 1 else None

    def term_key(t):
        if t[0] == "deref":
            return term_key(t[1])
        if t[0] == "field":
            fp = Q.field_path(t)
            if fp and fp[0] == 0 and fp[1] in (["check_source"], ["check_destination"]):
                return ("chk", "src" if fp[1][0] == "check_source" else "dst")
            return None
        if t[0] == "call" and (t[1].endswith("::contains") or t[1].endswith("::any")):
            fl = _self_fields(t) & {v4list, v6list}
            w = which_ip(t)
            if len(fl) == 1 and w:
                return ("in", next(iter(fl)), w)
        return None

    def cond_key(c):
        if c[0] == "variant":
            pl = T.strip(c[1])
            if pl[0] == "param" and pl[1] in (1, 2) and c[2] in ("V4", "V6"):
                return (("v4", "src" if pl[1] == 1 else "dst"), (c[2] == "V4") == c[3])
            return "unknown"
        if c[0] == "bool":
            t = c[1]
            if t[0] == "const" and isinstance(t[1], bool):
                return None if t[1] == c[2] else "infeasible"
            k = term_key(t)
            return (k, c[2]) if k is not None else "unknown"
        return "unknown"

    def spec(a):
        def side(w):
            lst = v4list if a.get(("v4", w), True) else v6list
            return a.get(("chk", w), False) and a.get(("in", lst, w), False)
        return side("src") or side("dst")

    if rows is None:
        ctx.cannot("R4", inst, "too many paths", ctx.loc(b))
        return
    problems, stats = D.truth_check(rows, cond_key, term_key, spec)
    atoms = set(stats.get("atoms", []))
    expect = {("chk", "src"), ("chk", "dst"), ("v4", "src"), ("v4", "dst"), ("in", v4list, "src"), ("in", v6list, "src"), ("in", v4list, "dst"), ("in", v6list, "dst")}
    if problems:
        k, asg, det = problems[0]
        ctx.fail("R4", inst + ":" + k, "address rule differs from the documented one (%d problems); first: %s under %s" % (len(problems), det, _fmt(asg)), ctx.loc(b))
    elif expect - atoms:
        ctx.fail("R4", inst + ":missing-atoms", "tests absent from the decision: %s" % sorted(map(str, expect - atoms)), ctx.loc(b))
    else:
        ctx.ok("R4", inst, "%d valuations over %d paths agree with (check_source & src in family list) | (check_destination & dst in family list)" % (
            stats["valuations"], stats["rows"]), ctx.loc(b))
    # subnet closures: net.contains(addr)
    if ty == "SubnetFilter":
        n = 0
        SB = T.Slicer(b, P)
        site_closures = []
        for blk_, t_ in Q.calls(b, "::any"):
            a_ = Q.call_args(b, SB, blk_, t_)
            cl_ = T.strip(a_[1]) if len(a_) > 1 else None
            if cl_ is not None and cl_[0] == "agg" and cl_[1] == "closure" and cl_[2] in P.bodies:
                site_closures.append(P.bodies[cl_[2]])
        for c in site_closures:
            cs = [t for _, t in c.calls() if callee_of(t).endswith("::contains")]
            S = T.Slicer(c, P)
            good = False
            if len(cs) == 1:
                t = cs[0]
                blk = [i for i, tt in c.calls() if tt is t][0]
                args = Q.call_args(c, S, blk, t)
                good = _params(args[0]) == {1} and _params(args[1]) == {0} and t["dest"]["l"] == 0
            n += 1
            ctx.check(good, "R4", "%s:%s" % (crate, T.short(c.path)), "|net| net.contains(addr)", "subnet closure is not `net.contains(addr)`", ctx.loc(c))
        ctx.floor("R4", crate + " subnet membership sites (any + closure)", n, 4)


# ---------------------------------------------------------------------------
def rule_range_conversion(ctx, crate):
    P = ctx.program
    for name, fld in (("source_range", "source_ranges"), ("destination_range", "destination_ranges")):
        b = _m(P, crate, "PortFilter", name)
        S = T.Slicer(b, P)
        inst = "%s:PortFilter::%s" % (crate, name)
        pushes = Q.calls(b, "Vec::<T, A>::push")
        if not pushes:
            ctx.fail("R5", inst + ":no-push", "range is never stored", ctx.loc(b))
            continue
        guarded_sub = False
        unguarded = []
        empty_repr = False
        skip_empty = False
        right_vec = False
        for blk, t in pushes:
            args = Q.call_args(b, S, blk, t)
            if fld in _self_fields(args[0]):
                right_vec = True
            else:
                ctx.fail("R5", inst + ":wrong-vector", "range pushed into %s, expected self.%s" % (sorted(_self_fields(args[0])), fld), ctx.loc(b, blk))
        # every (lo, hi) tuple constructed in the function, with the conditions dominating its construction
        for i, j, st in b.iter_stmts():
            if not (st["k"] == "assign" and st["r"]["k"] == "agg" and st["r"]["ak"] == "tuple" and len(st["r"]["ops"]) == 2):
                continue
            lo = S.operand(st["r"]["ops"][0], i, j)
            hi = S.operand(st["r"]["ops"][1], i, j)
            conds = Q.canon_conds(P, T.dom_conds(b, S, i))
            nonempty = _nonempty_cond(conds)
            uses_end_minus_1 = any(x[0] == "call" and ("saturating_sub" in x[1] or "checked_sub" in x[1] or "wrapping_sub" in x[1]) for x in T.walk(hi)) or \
                any(x[0] == "binop" and x[1].startswith("Sub") for x in T.walk(hi))
            if uses_end_minus_1:
                lo_ok = any(x[0] == "field" and x[2] == "start" for x in T.walk(lo))
                hi_ok = any(x[0] == "field" and x[2] == "end" for x in T.walk(hi))
                if not (lo_ok and hi_ok):
                    ctx.fail("R5", inst + ":bounds", "stored tuple is not (range.start, range.end-1): (%s, %s)" % (T.pp(lo), T.pp(hi)), ctx.loc(b, i))
                if nonempty is True:
                    guarded_sub = True
                else:
                    unguarded.append(i)
            else:
                sl, sh = T.strip(lo), T.strip(hi)
                if sl[0] == "const" and sh[0] == "const" and isinstance(sl[1], int) and isinstance(sh[1], int) and sl[1] > sh[1] and nonempty is False:
                    empty_repr = True
        # .. and every named constant of type (u16, u16) used as the stored value (`const EMPTY_PORT_RANGE: (u16, u16) = (1, 0)`)
        for i, j, st in b.iter_stmts():
            if st["k"] == "assign" and st["r"]["k"] == "use" and "k" in st["r"]["o"]:
                cv = T.const_value(st["r"]["o"]["k"])
                raw_ = cv[1][1] if isinstance(cv[1], tuple) and cv[1] and cv[1][0] == "raw" else cv[1]
                if cv[3] == "(u16, u16)" and isinstance(raw_, (bytes, bytearray)) and len(raw_) == 4:
                    lo_, hi_ = int.from_bytes(raw_[0:2], "little"), int.from_bytes(raw_[2:4], "little")
                    if lo_ > hi_ and _nonempty_cond(Q.canon_conds(P, T.dom_conds(b, S, i))) is False:
                        empty_repr = True
        if not right_vec:
            continue
        # does the empty path skip the push entirely?
        if guarded_sub and not empty_repr:
            skip_empty = True
        if unguarded:
            ctx.fail("R5", inst + ":unguarded",
                     "`(start, end.saturating_sub(1))` is stored without testing start < end: the empty range `0..0` becomes (0,0) and admits port 0 "
                     "(PortFilter::new().%s(0..0).matches(..) is true for port 0)" % name, ctx.loc(b, unguarded[0]))
        elif skip_empty:
            ctx.fail("R5", inst + ":empty-dropped",
                     "an empty range is dropped instead of stored as a never-matching constraint: the side becomes unconstrained and matches every port", ctx.loc(b))
        elif guarded_sub and empty_repr:
            ctx.ok("R5", inst, "non-empty: (start, end-1); empty: constant never-matching interval (lo > hi)", ctx.loc(b))
        else:
            ctx.cannot("R5", inst, "conversion shape not recognised", ctx.loc(b))


def _nonempty_cond(conds):
    """True if the conditions imply start < end, False if they imply start >= end, None otherwise."""
    for c in conds:
        if c[0] == "cmp":
            op, a, b, pol = c[1], c[2], c[3], c[4]
            fa = [x[2] for x in T.walk(a) if x[0] == "field"]
            fb = [x[2] for x in T.walk(b) if x[0] == "field"]
            if "start" in fa and "end" in fb:
                rel = op
            elif "end" in fa and "start" in fb:
                rel = {"Lt": "Gt", "Gt": "Lt", "Le": "Ge", "Ge": "Le"}.get(op, op)
            else:
                continue
            if not pol:
                rel = {"Lt": "Ge", "Ge": "Lt", "Gt": "Le", "Le": "Gt"}.get(rel, rel)
            if rel == "Lt":
                return True
            if rel == "Ge":
                return False
        if c[0] == "bool" and c[1][0] == "call" and c[1][1].endswith("::is_empty") and "Range" in c[1][1]:
            return not c[2]
    return None


def rule_builders(ctx):
    """R7: the builders store what the caller configured: a port / address / network is pushed as given (as parsed from its text),
    range ends only go through the guarded half-open conversion of R5 - nothing rewrites the value on its way into the lists the
    `matches` functions compare packet fields with"""
    P = ctx.program
    allowed = ("::branch", "::map_err", "::parse", "::from_str", "::saturating_sub", "::clone", "::into", "::from", "::to_owned", "::start", "::end", "::deref")
    n = 0
    for crate in ("huginn_net_tcp", "huginn_net_http", "huginn_net_tls"):
        for b in P.bodies.values():
            if b.crate != crate or "::filter::" not in b.path or b.kind != "AssocFn":
                continue
            S = None
            for blk, t in b.calls():
                if not callee_of(t).endswith("Vec::<T, A>::push"):
                    continue
                S = S or T.Slicer(b, P)
                a = Q.call_args(b, S, blk, t)
                n += 1
                extra = sorted({T.short(x[1]) for x in T.calls_in(a[1]) if not x[1].endswith(allowed)})
                who = "%s:%s" % (crate, T.short(b.path))
                ctx.check(not extra, "R7", who + ":stores-as-given@%d" % blk if False else who + ":stores-as-given:" + "+".join(sorted({x[2] for x in T.walk(a[0]) if x[0] == "field" and isinstance(x[2], str)})),
                          "value stored as configured", "the configured value is rewritten by %s before it is stored: `matches` compares packet fields with the rewritten value, so "
                          "the listed address / port no longer matches itself (and another one does)" % ",".join(extra), ctx.loc(b, blk))
    ctx.floor("R7", "builder push sites in the three filter.rs copies", n, 24)
    # builders accumulate: chaining `.destination(22).destination_list(vec![80, 443])` lists all three ports.  No builder method replaces a
    # list that earlier calls filled (assignment to a Vec field of self outside the constructors)
    k = 0
    for crate in ("huginn_net_tcp", "huginn_net_http", "huginn_net_tls"):
        for b in sorted(P.bodies.values(), key=lambda x: x.path):
            if b.crate != crate or "::filter::" not in b.path or b.kind != "AssocFn" or b.name in ("new", "default") or b.impl_trait:
                continue
            if b.arg_count < 1 or not b.local_ty(1).split("::")[-1].startswith(("PortFilter", "IpFilter", "SubnetFilter", "FilterConfig")):
                continue
            k += 1
            for i, j, s in b.iter_stmts():
                if s["k"] != "assign" or s["p"]["l"] != 1 or not s["p"]["pr"]:
                    continue
                names = [x.get("n") for x in s["p"]["pr"] if isinstance(x, dict) and x.get("n")]
                if not names:
                    continue
                fty = ""
                for adt in P.adts.values():
                    if adt["path"].endswith((b.impl_self or "").split("<")[0].split("::")[-1]) and adt["path"].startswith(crate):
                        for f in adt["variants"][0]["fields"]:
                            if f["name"] == names[0]:
                                fty = f["ty"]
                if "Vec<" in fty:
                    ctx.fail("R7", "%s:%s::%s:replaces:%s" % (crate, (b.impl_self or "").split("::")[-1], b.name, names[0]),
                             "%s::%s assigns to the list `%s` instead of adding to it: values configured by earlier builder calls are silently dropped, so a listed "
                             "port / address no longer matches" % ((b.impl_self or "").split("::")[-1], b.name, names[0]), ctx.loc(b, i))
    ctx.floor("R7", "builder methods of the filter types", k, 30)
    # builders always store: a builder that takes a value (`with_ip_filter(f)`, `destination(p)`, `allow(addr)`) registers it on every path on
    # which it returns normally - a value that is `empty` or `trivial` in the builder's eyes is still a constraint (an address filter
    # without addresses matches nothing; dropping it makes the configuration match everything)
    nb = 0
    for crate in ("huginn_net_tcp", "huginn_net_http", "huginn_net_tls"):
        for b in sorted(P.bodies.values(), key=lambda x: x.path):
            if b.crate != crate or "::filter::" not in b.path or b.kind != "AssocFn" or b.name in ("new", "default") or b.impl_trait or b.arg_count < 2:
                continue
            if not b.local_ty(1).split("::")[-1].startswith(("PortFilter", "IpFilter", "SubnetFilter", "FilterConfig")):
                continue
            fallible = False
            if not b.local_ty(0).split("::")[-1].startswith(("PortFilter", "IpFilter", "SubnetFilter", "FilterConfig")):
                # fallible builders (Result<Self, _>) return early on a parse error: only their Ok returns are judged
                if not ((b.local_ty(0) or "").startswith(("std::result::Result<", "core::result::Result<")) and any(
                        k_ in b.local_ty(0) for k_ in ("PortFilter", "IpFilter", "SubnetFilter", "FilterConfig"))):
                    continue
                fallible = True
            stores = set()
            for i, j, s_ in b.iter_stmts():
                if s_["k"] == "assign" and s_["p"]["l"] == 1 and s_["p"]["pr"]:
                    stores.add(i)
            for blk_, t_ in b.calls():
                if callee_of(t_).endswith(("Vec::<T, A>::push", "::extend", "::append", "::insert", "::extend_from_slice")):
                    stores.add(blk_)
            if not stores:
                continue
            nb += 1
            rets = [rb for (rb, j, term, _c) in TB.return_sites(b, P)
                    if not fallible or (T.strip(term)[0] == "agg" and T.strip(term)[3] == "Ok")]
            # a return is covered when no path from the entry reaches it without passing a store (the store may sit in either arm of a
            # match on the parsed value)
            def _reach_without(target):
                seen_, todo_ = set(), [0]
                while todo_:
                    x_ = todo_.pop()
                    if x_ in seen_ or x_ in stores:
                        continue
                    seen_.add(x_)
                    if x_ == target:
                        return True
                    todo_.extend(b.succs(x_))
                return False
            bare = [rb for rb in rets if rb not in stores and _reach_without(rb)]
            ctx.check(not bare, "R7", "%s:%s::%s:always-stores" % (crate, (b.impl_self or "").split("::")[-1], b.name), "every return is preceded by the store",
                      "%s::%s can return without registering its argument: a configured constraint that the builder considers empty / redundant is dropped and the "
                      "filter admits what it was configured to refuse" % ((b.impl_self or "").split("::")[-1], b.name), ctx.loc(b, bare[0]) if bare else None)
    ctx.floor("R7", "value-taking builder methods", nb, 20)
    # direction / mode setters assign exactly the documented flags
    want = {"source_only": {"check_source": True, "check_destination": False}, "destination_only": {"check_source": False, "check_destination": True},
            "any_port": {"match_any": True}, "new": None}
    m = 0
    for crate in ("huginn_net_tcp", "huginn_net_http", "huginn_net_tls"):
        for b in P.bodies.values():
            if b.crate != crate or "::filter::" not in b.path or b.kind != "AssocFn" or b.name not in ("source_only", "destination_only", "any_port"):
                continue
            got = {}
            SB = None
            for i, j, s in b.iter_stmts():
                if s["k"] == "assign" and s["p"]["pr"] and s["r"]["k"] == "use" and "k" in s["r"]["o"]:
                    names = [x.get("n") for x in s["p"]["pr"] if isinstance(x, dict) and x.get("n")]
                    v = T.const_value(s["r"]["o"]["k"])[1]
                    if names and isinstance(v, bool):
                        got[names[-1]] = v
                elif s["k"] == "assign" and s["p"]["pr"] and s["r"]["k"] == "use":
                    # the constant reaches the field through a local, a tuple (`(self.a, self.b) = (x, y)`) or the argument of a
                    # private helper written out at its call
                    names = [x.get("n") for x in s["p"]["pr"] if isinstance(x, dict) and x.get("n")]
                    if names and names[-1] in ("check_source", "check_destination", "match_any"):
                        if SB is None:
                            SB = T.Slicer(b, P)
                        v = T.strip(SB.rvalue(s["r"], i, j))
                        if v[0] == "const" and isinstance(v[1], bool):
                            got[names[-1]] = v[1]
                # struct-update spelling: `Self { check_source: true, check_destination: false, ..self }` - the constant fields of the
                # rebuilt value (the others are moved over from self)
                if s["k"] == "assign" and s["r"]["k"] == "agg" and s["r"].get("ak") == "adt" and s["r"].get("fields") and \
                        (s["r"].get("path") or "").split("::")[-1] == (b.impl_self or "").split("::")[-1].split("<")[0]:
                    for fn_, o_ in zip(s["r"]["fields"], s["r"]["ops"]):
                        if "k" in o_:
                            v = T.const_value(o_["k"])[1]
                            if isinstance(v, bool):
                                got[fn_] = v
            m += 1
            ty = (b.impl_self or "").split("::")[-1]
            ctx.check(got == want[b.name], "R7", "%s:%s::%s:flags" % (crate, ty, b.name), "%s sets %s" % (b.name, want[b.name]),
                      "%s::%s sets %s, documented: %s - the filter keeps looking at the side the caller switched off (or ignores the one asked for)" % (ty, b.name, got, want[b.name]), ctx.loc(b))
    ctx.floor("R7", "direction / any-port setters", m, 15)


def run(ctx):
    rule_builders(ctx)
    for crate in CRATES:
        for fn in (rule_should_process, rule_port_matches, rule_range_conversion):
            ctx.guard("anchors", "%s:%s" % (crate, fn.__name__), lambda fn=fn, crate=crate: fn(ctx, crate))
        ctx.guard("anchors", crate + ":IpFilter", lambda crate=crate: rule_ip_matches(ctx, crate, "IpFilter", "ipv4_addresses", "ipv6_addresses"))
        ctx.guard("anchors", crate + ":SubnetFilter", lambda crate=crate: rule_ip_matches(ctx, crate, "SubnetFilter", "ipv4_subnets", "ipv6_subnets"))
