"""Shared endpoint rules: how a packet's addresses and ports reach outputs and per-protocol parsers."""
from ..engine import q as Q
from ..engine import terms as T
from ..engine.facts import callee_of


def _side(t):
    """'src' / 'dst' / None for the origin of an address or port value"""
    t = T.strip(t)
    sides = set()
    for x in T.walk(t):
        if x[0] == "call":
            n = x[1].rsplit("::", 1)[-1]
            if n == "get_source":
                sides.add("src")
            elif n == "get_destination":
                sides.add("dst")
        elif x[0] == "field" and T.strip(x[1])[0] == "call" and T.strip(x[1])[1].endswith("get_addresses"):
            sides.add("src" if x[2] in (0, "0") else "dst")
        elif x[0] == "param" and x[2]:
            nm = x[2].lower()
            if nm.startswith(("src", "source", "client")):
                sides.add("src")
            elif nm.startswith(("dst", "dest", "server")):
                sides.add("dst")
        elif x[0] == "field" and isinstance(x[2], str):
            nm = x[2].lower()
            if nm in ("src_ip", "src_port", "source"):
                sides.add("src")
            elif nm in ("dst_ip", "dst_port", "destination"):
                sides.add("dst")
    return sides.pop() if len(sides) == 1 else (None if not sides else "mixed")


def ipport_pairing(ctx, P, rule, crates):
    """Every (ip, port) endpoint that is reported pairs an address with the port of the same side of the packet."""
    n = 0
    for b in P.bodies.values():
        if b.crate not in crates or b.name in ("clone", "new", "fmt", "eq", "hash"):
            continue
        S = None
        pairs = []
        for i, j, s in b.iter_stmts():
            if s["k"] == "assign" and s["r"]["k"] == "agg" and s["r"]["ak"] == "adt" and (s["r"].get("path") or "").endswith("IpPort"):
                S = S or T.Slicer(b, P)
                t = S.rvalue(s["r"], i, j)
                f = dict(zip(s["r"]["fields"], t[4]))
                pairs.append((i, f.get("ip"), f.get("port")))
        for blk, t in b.calls():
            if callee_of(t).endswith("IpPort::new") and len(t["args"]) == 2:
                S = S or T.Slicer(b, P)
                a = Q.call_args(b, S, blk, t)
                pairs.append((blk, a[0], a[1]))
        for k, (blk, ip, port) in enumerate(pairs):
            if ip is None or port is None:
                continue
            si, sp = _side(ip), _side(port)
            if si is None or sp is None:
                continue
            n += 1
            ctx.check(si == sp and si != "mixed", rule, "endpoint:%s@%d" % (T.short(b.path), k), "%s address paired with %s port" % (si, sp),
                      "an endpoint is reported with the %s address and the %s port of the packet: the result is attributed to a host:port pair that does not exist "
                      "on this connection" % (si, sp), ctx.loc(b, blk))
    ctx.floor(rule, "reported (ip, port) endpoints", n, 1)
    return n


def tcp_from_payload(ctx, P, rule, crates):
    """The TCP segment handed to the analyzers is the IP packet's payload (bounded by the IP total length), not the rest of the
    captured buffer: link-layer padding never becomes TCP data."""
    n = 0
    for b in P.bodies.values():
        if b.crate not in crates:
            continue
        S = None
        for blk, t in b.calls():
            if callee_of(t).endswith(("TcpPacket::<'a>::new", "TcpPacket::new")):
                S = S or T.Slicer(b, P)
                a = Q.call_args(b, S, blk, t)
                n += 1
                inner = T.strip(a[0])
                ok = inner[0] == "call" and inner[1].endswith("::payload") and not any(x[1].endswith(("::packet", "::index", "::get")) for x in T.calls_in(inner))
                ctx.check(ok, rule, "tcp-segment:%s" % T.short(b.path), "TcpPacket::new(ip.payload())",
                          "the TCP segment is taken from %s instead of the IP payload: bytes after the IP total length (Ethernet padding of short frames) are treated as "
                          "TCP payload and enter reassembly" % T.pp(inner)[:80], ctx.loc(b, blk))
            else:
                # TcpPacket::new passed as a function value: `opt.and_then(TcpPacket::new)`
                for a in t["args"]:
                    if "k" in a:
                        v = T.const_value(a["k"])
                        nm = str(v[1]) + str(v[2] if len(v) > 2 else "")
                        if "TcpPacket" in nm and nm.rstrip("'>) ").endswith("new") or ("TcpPacket" in str(a["k"]) and "::new" in str(a["k"])):
                            S = S or T.Slicer(b, P)
                            recv = Q.call_args(b, S, blk, t)[0]
                            n += 1
                            ok = T.has_call(recv, "::payload") and not any(x[1].endswith(("::packet", "::index", "::get")) for x in T.calls_in(recv))
                            ctx.check(ok, rule, "tcp-segment:%s" % T.short(b.path), "TcpPacket::new applied to ip.payload()",
                                      "the TCP segment is taken from %s instead of the IP payload: bytes after the IP total length (Ethernet padding of short frames) are "
                                      "treated as TCP payload and enter reassembly" % T.pp(T.strip(recv))[:80], ctx.loc(b, blk))
    ctx.floor(rule, "TcpPacket::new call sites", n, 1)
    return n
