"""Shared endpoint rules: how a packet's addresses and ports reach outputs and per-protocol parsers."""
from ..engine import q as Q
from ..engine import terms as T
from ..engine.facts import callee_of


def _side(t):
    """'src' / 'dst' / None for the origin of an address or port value"""
    t = T.strip(t)
    sides = set()
    for x in T.walk(t):
        if x[0] == "call":
            n = x[1].rsplit("::", 1)[-1]
            if n == "get_source":
                sides.add("src")
            elif n == "get_destination":
                sides.add("dst")
        elif x[0] == "field" and T.strip(x[1])[0] == "call" and T.strip(x[1])[1].endswith("get_addresses"):
            sides.add("src" if x[2] in (0, "0") else "dst")
        elif x[0] == "param" and x[2]:
            nm = x[2].lower()
            if nm.startswith(("src", "source", "client")):
                sides.add("src")
            elif nm.startswith(("dst", "dest", "server")):
                sides.add("dst")
        elif x[0] == "field" and isinstance(x[2], str):
            nm = x[2].lower()
            if nm in ("src_ip", "src_port", "source"):
                sides.add("src")
            elif nm in ("dst_ip", "dst_port", "destination"):
                sides.add("dst")
    return sides.pop() if len(sides) == 1 else (None if not sides else "mixed")


def ipport_pairing(ctx, P, rule, crates):
    """Every (ip, port) endpoint that is reported pairs an address with the port of the same side of the packet."""
    n = 0
    for b in P.bodies.values():
        if b.crate not in crates or b.name in ("clone", "new", "fmt", "eq", "hash"):
            continue
        S = None
        pairs = []
        for i, j, s in b.iter_stmts():
            if s["k"] == "assign" and s["r"]["k"] == "agg" and s["r"]["ak"] == "adt" and (s["r"].get("path") or "").endswith("IpPort"):
                S = S or T.Slicer(b, P)
                t = S.rvalue(s["r"], i, j)
                f = dict(zip(s["r"]["fields"], t[4]))
                pairs.append((i, f.get("ip"), f.get("port")))
        for blk, t in b.calls():
            if callee_of(t).endswith("IpPort::new") and len(t["args"]) == 2:
                S = S or T.Slicer(b, P)
                a = Q.call_args(b, S, blk, t)
                pairs.append((blk, a[0], a[1]))
        for k, (blk, ip, port) in enumerate(pairs):
            if ip is None or port is None:
                continue
            si, sp = _side(ip), _side(port)
            if si is None or sp is None:
                continue
            n += 1
            ctx.check(si == sp and si != "mixed", rule, "endpoint:%s@%d" % (T.short(b.path), k), "%s address paired with %s port" % (si, sp),
                      "an endpoint is reported with the %s address and the %s port of the packet: the result is attributed to a host:port pair that does not exist "
                      "on this connection" % (si, sp), ctx.loc(b, blk))
    ctx.floor(rule, "reported (ip, port) endpoints", n, 1)
    return n


STRATEGY = {"try_ethernet": "ethernet", "try_ethernet_format": "ethernet", "try_raw_ip": "raw-ip", "try_raw_ip_format": "raw-ip",
            "try_null_datalink": "null", "try_null_datalink_format": "null"}


def _strategy_order(P, b):
    """order in which a link-layer dispatcher tries its interpretations"""
    from ..engine import cfg as C
    from ..engine import tables as TB
    direct = []
    for blk, t in b.calls():
        nm = callee_of(t).rsplit("::", 1)[-1]
        if nm in STRATEGY:
            direct.append((blk, STRATEGY[nm]))
    if len(direct) >= 2:
        # topological order by reachability
        out = []
        rest = list(direct)
        while rest:
            firsts = [x for x in rest if not any(y is not x and C.reaches(b, y[0], x[0]) and not C.reaches(b, x[0], y[0]) for y in rest)]
            firsts = firsts or rest[:1]
            firsts.sort()
            out.append(firsts[0][1])
            rest.remove(firsts[0])
        if len(direct) >= 3:
            return out
    # combinator chain: a.or_else(|| b).or_else(|| c)

    def order(t):
        t = T.strip(t)
        if t[0] == "call":
            nm = t[1].rsplit("::", 1)[-1]
            if nm in STRATEGY:
                return [STRATEGY[nm]]
            if nm in ("or_else", "or", "xor", "map", "and_then", "or_insert_with") and t[2]:
                seq = order(t[2][0])
                for a in t[2][1:]:
                    a = T.strip(a)
                    if a[0] == "agg" and a[1] == "closure" and a[2] in P.bodies:
                        cb = P.bodies[a[2]]
                        for _, ct in cb.calls():
                            cn = callee_of(ct).rsplit("::", 1)[-1]
                            if cn in STRATEGY:
                                seq.append(STRATEGY[cn])
                    else:
                        seq += order(a)
                return seq
            out2 = []
            for a in t[2]:
                out2 += order(a)
            return out2
        if t[0] in ("phi",):
            return [y for x in t[1] for y in order(x)]
        if t[0] in ("field", "downcast", "ref", "deref", "cast"):
            return order(t[1] if t[0] != "ref" else t[2])
        if t[0] == "agg":
            return [y for x in t[4] for y in order(x)]
        return []
    seqs = [order(term) for (_, _, term, _c) in TB.return_sites(b, P)]
    seqs = [x for x in seqs if x]
    return max(seqs, key=len) if seqs else [d[1] for d in direct]


def link_layer_order(ctx, P, rule, crates):
    """The quick extractor used by the filter and the full packet parser interpret a frame the same way: both try Ethernet, then raw
    IP, then NULL/loopback framing (an Ethernet frame whose first MAC nibble is 4 or 6 also passes the raw-IP probe; trying raw IP first
    makes the filter - or the analyzer - look at MAC bytes instead of the real endpoints)."""
    want = ["ethernet", "raw-ip", "null"]
    n = 0
    for crate in crates:
        for mod, fn in (("raw_filter", "extract_quick_info"), ("packet_parser", "parse_packet")):
            b = P.bodies.get("%s::%s::%s" % (crate, mod, fn))
            if b is None:
                continue
            n += 1
            got = _strategy_order(P, b)
            ctx.check(got == want, rule, "link-layer-order:%s::%s::%s" % (crate.replace("huginn_net", "hn"), mod, fn), "tries " + " -> ".join(want),
                      "%s::%s tries the link-layer interpretations in the order %s (expected %s): an Ethernet frame to a MAC address starting with nibble 4 or 6 is read as a raw IP "
                      "packet, so this component sees different endpoints than its counterpart" % (mod, fn, got, want), ctx.loc(b))
    ctx.floor(rule, "link-layer dispatchers", n, len(crates))
    return n


def tcp_from_payload(ctx, P, rule, crates):
    """The TCP segment handed to the analyzers is the IP packet's payload (bounded by the IP total length), not the rest of the
    captured buffer: link-layer padding never becomes TCP data."""
    n = 0
    for b in P.bodies.values():
        if b.crate not in crates:
            continue
        S = None
        for blk, t in b.calls():
            if callee_of(t).endswith(("TcpPacket::<'a>::new", "TcpPacket::new")):
                S = S or T.Slicer(b, P)
                a = Q.call_args(b, S, blk, t)
                n += 1
                inner = T.strip(a[0])
                ok = inner[0] == "call" and inner[1].endswith("::payload") and not any(x[1].endswith(("::packet", "::index", "::get")) for x in T.calls_in(inner))
                ctx.check(ok, rule, "tcp-segment:%s" % T.short(b.path), "TcpPacket::new(ip.payload())",
                          "the TCP segment is taken from %s instead of the IP payload: bytes after the IP total length (Ethernet padding of short frames) are treated as "
                          "TCP payload and enter reassembly" % T.pp(inner)[:80], ctx.loc(b, blk))
            else:
                # TcpPacket::new passed as a function value: `opt.and_then(TcpPacket::new)`
                for a in t["args"]:
                    if "k" in a:
                        v = T.const_value(a["k"])
                        nm = str(v[1]) + str(v[2] if len(v) > 2 else "")
                        if "TcpPacket" in nm and nm.rstrip("'>) ").endswith("new") or ("TcpPacket" in str(a["k"]) and "::new" in str(a["k"])):
                            S = S or T.Slicer(b, P)
                            recv = Q.call_args(b, S, blk, t)[0]
                            n += 1
                            ok = T.has_call(recv, "::payload") and not any(x[1].endswith(("::packet", "::index", "::get")) for x in T.calls_in(recv))
                            ctx.check(ok, rule, "tcp-segment:%s" % T.short(b.path), "TcpPacket::new applied to ip.payload()",
                                      "the TCP segment is taken from %s instead of the IP payload: bytes after the IP total length (Ethernet padding of short frames) are "
                                      "treated as TCP payload and enter reassembly" % T.pp(T.strip(recv))[:80], ctx.loc(b, blk))
    ctx.floor(rule, "TcpPacket::new call sites", n, 1)
    return n


def ip_from_same_slice(ctx, P, rule, crates):
    """Within one link-layer strategy (`try_ethernet_format`, `try_raw_ip_format`, `try_null_datalink_format`, their quick-filter
    counterparts ..) the IPv4 and the IPv6 view are built from the SAME bytes: the slice after the link header.  A function that
    constructs `Ipv4Packet::new(a)` and `Ipv6Packet::new(b)` (or hands a / b to `extract_ipv4_info` / `extract_ipv6_info`) with
    different origins reads one IP version at the wrong offset."""
    n = 0
    for b in sorted(P.bodies.values(), key=lambda x: x.path):
        if b.crate not in crates or not b.blocks or b.kind == "Closure":
            continue
        S = None
        got = {}
        for blk, t in b.calls():
            nm = callee_of(t)
            fam = None
            if nm.endswith(("Ipv4Packet::<'a>::new", "Ipv4Packet::new", "::extract_ipv4_info")):
                fam = "v4"
            elif nm.endswith(("Ipv6Packet::<'a>::new", "Ipv6Packet::new", "::extract_ipv6_info")):
                fam = "v6"
            if fam is None:
                continue
            S = S or T.Slicer(b, P)
            a = Q.call_args(b, S, blk, t)
            # the payload of `IpPacket::Ipv4(bytes)` / `IpPacket::Ipv6(bytes)` of one parsed value is the same slice by construction:
            # compare without the variant name
            base = T.rebuild(T.canon_value(T.strip(a[0])), lambda x: x[1] if x[0] == "downcast" else None)
            got.setdefault(fam, []).append((blk, T.pp(base)))
        if "v4" in got and "v6" in got:
            n += 1
            o4 = {x for _, x in got["v4"]}
            o6 = {x for _, x in got["v6"]}
            ctx.check(o4 == o6, rule, "ip-views:%s" % T.short(b.path), "IPv4 and IPv6 views are built from the same slice %s" % sorted(o4)[:1],
                      "%s builds the IPv4 view from %s and the IPv6 view from %s: one IP version is read at the wrong offset (the link-layer header is not skipped), "
                      "so its header fields, addresses and TCP segment are garbage" % (T.short(b.path), sorted(o4), sorted(o6)), ctx.loc(b, got["v4"][0][0]))
    ctx.floor(rule, "functions constructing both IP views", n, 3)
    return n
