"""C03 - TCP handshake packets are rendered into the p0f signature their headers define.

Structural clauses decided:
 R1  the end-of-options marker terminates the option walk
 R2  each quirk is pushed exactly under its defining header condition (table over pnet accessors, masks, polarity)
 R2b every quirk of the vocabulary has a producer
 R3  client signature iff SYN & !ACK, server signature iff SYN & ACK, MTU only with the client signature
 R4  the MTU observable depends on the MSS only (plus constants)
 R5  field routing of TcpObservation; option kind -> layout token table; MSS / WS decoding
 R6  flag sanity filter (is_valid), TTL classification (calculate_ttl / guess_distance interval table)
 R7  window rendering: every mss*k / mtu*k / %m return of detect_win_multiplicator divides by a divisor of the specification
     table (tables/spec_tables.json) under that divisor's remainder test and IP-version / timestamp guards; MSS patterns are
     tried before the modulo patterns; the table is complete
 R8  Display of an observed signature: same skeleton as the database text, `*` exactly when the option is absent, getters
     return the like-named observation fields
 R9  the MTU link label search covers every [mtu] entry and value
 C06.R1/R2 the tokens Display prints are the ones the database parser reads back (shared with C06)
 R10 every narrowing integer conversion in the TCP crate is proven (difference constraints) or reviewed to fit
 TW  the IPv4 and IPv6 copies of the per-packet functions route sides / roles / lookups identically
"""
import re
from ..engine import cfg as C
from ..engine import decision as D
from ..engine import guards as GV
from ..engine import q as Q
from ..engine import tables as TB
from ..engine import terms as T
from ..engine.facts import AnchorMissing, callee_of

EXPLANATION = ("Dominating-condition sets of every `quirks.push(Quirk::V)` site normalised to (accessor, mask, relation) atoms and "
               "compared with the p0f definitions; CFG reachability from the EOL arm back to the option-loop header; origins of the "
               "result constructor's fields; interval table of guess_distance over all 256 TTLs; truth table of is_valid.")
TRUSTED = ["pnet header accessors return the named header fields", "pnet TcpFlags / Ipv4Flags / TcpOptionNumbers constant values",
           "p0f quirk definitions as documented on huginn_net_db::tcp::Quirk"]
DECLINED = ["numeric window classification (detect_win_multiplicator arithmetic)", "rendering of malformed option lengths", "the Display string itself (C06)"]
ASSUMPTIONS = ["AckNumNonZero additionally requires RST clear (stated refinement in the code, accepted)"]
EXHAUSTIVE = True

TP = "huginn_net_tcp::tcp_process::"


def fold(t):
    return T.fold_int(t)


def subject(t):
    """Header accessor a term reads: 'ipv4.get_flags', 'tcp.get_sequence', ... or None."""
    t = T.strip(t)
    if t[0] == "cast":
        return subject(t[2])
    if t[0] == "call":
        c = t[1]
        for pfx, name in (("Ipv4Packet", "ipv4"), ("Ipv6Packet", "ipv6"), ("TcpPacket", "tcp")):
            if pfx in c and "::get_" in c:
                return "%s.%s" % (name, c.rsplit("::", 1)[-1])
    return None


REL_NEG = {"Eq": "Ne", "Ne": "Eq", "Lt": "Ge", "Ge": "Lt", "Gt": "Le", "Le": "Gt"}
REL_SYM = {"Eq": "==", "Ne": "!=", "Lt": "<", "Le": "<=", "Gt": ">", "Ge": ">="}
REL_FLIP = {"Lt": "Gt", "Gt": "Lt", "Le": "Ge", "Ge": "Le", "Eq": "Eq", "Ne": "Ne"}


def _ranges_in(t):
    out = []
    for x in T.walk(t):
        if x[0] == "agg" and x[1] == "adt" and x[2]:
            if x[2].endswith("ops::RangeTo") and len(x[4]) == 1:
                out.append((0, fold(x[4][0])))
            elif x[2].endswith("ops::Range") and len(x[4]) == 2:
                out.append((fold(x[4][0]), fold(x[4][1])))
    return out


_PROGRAM = [None]


def atom_of(c):
    """Canonical string for one canonical condition, or None if it is not a header-field condition."""
    if c[0] == "int":
        if T.has_call(c[1], "get_number"):
            v = c[2]
            if isinstance(v, int):
                return "opt==%d" % v
            return "opt:other"
        return None
    if c[0] == "variant":
        if T.has_call(c[1], "TcpOptionPacket") and c[2] == "Some":
            return None
        return None
    if c[0] == "bool":
        t = c[1]
        if t[0] == "call" and t[1].endswith(("::any", "::all")) and T.has_call(t, "get_options_raw"):
            # some byte of the rest is non-zero: `any(|b| b != 0)` or `!all(|b| b == 0)`
            qf = Q.quantified(_PROGRAM[0], t)
            if qf is not None and T.fold_int(qf[3]) == 0 and (qf[0], qf[2]) in (("exists", "Ne"), ("forall", "Eq")):
                some_nonzero = c[2] if qf[0] == "exists" else (not c[2])
                return "rest-any-nonzero" if some_nonzero else "rest-all-zero"
            return "rest-quantifier-not-understood"
        if t[0] == "call" and t[1].endswith("tcp_process::is_valid"):
            return "is_valid" if c[2] else "!is_valid"
        return None
    if c[0] != "cmp":
        return None
    op, a, b, pol = c[1], T.strip(c[2]), T.strip(c[3]), c[4]
    ka, kb = fold(a), fold(b)
    if ka is not None and kb is None:
        a, b, ka, kb = b, a, kb, ka
        op = REL_FLIP[op]
    if kb is None:
        return None
    if not pol:
        op = REL_NEG[op]
    # masked header field
    if a[0] == "binop" and a[1] == "BitAnd":
        s = subject(a[2])
        m = fold(a[3])
        if s is None:
            s, m = subject(a[3]), fold(a[2])
        if s is not None and m is not None:
            single = m != 0 and (m & (m - 1)) == 0
            if kb == m and single and op in ("Eq", "Ne"):
                op, kb = ("Ne" if op == "Eq" else "Eq"), 0
            return "%s&%d%s%d" % (s, m, REL_SYM[op], kb)
    s = subject(a)
    if s is not None:
        return "%s%s%d" % (s, REL_SYM[op], kb)
    # option payload conditions
    if ((a[0] == "call" and a[1].endswith("::len")) or (a[0] == "unop" and a[1] == "PtrMetadata")) and T.has_call(a, "::payload"):
        return "optlen%s%d" % (REL_SYM[op], kb)
    if a[0] == "call" and a[1].endswith("from_be_bytes") and T.has_call(a, "::payload"):
        r = _ranges_in(a)
        return "be[%s]%s%d" % (",".join("%s..%s" % x for x in r), REL_SYM[op], kb)
    if T.has_call(a, "::payload") and a[0] in ("index", "deref", "cindex", "field", "downcast"):
        idx = fold(a[2]) if a[0] == "index" else None
        if idx is None and T.has_call(a, "::first"):
            idx = 0
        return "optbyte[%s]%s%d" % (idx, REL_SYM[op], kb)
    return None


SPEC = {
    "process_tcp_ipv4": {
        "Ecn": {"ipv4.get_ecn&3!=0"},
        "MustBeZero": {"ipv4.get_flags&4!=0"},
        "Df": {"ipv4.get_flags&2!=0"},
        "NonZeroID": {"ipv4.get_flags&2!=0", "ipv4.get_identification!=0"},
        "ZeroID": {"ipv4.get_flags&2==0", "ipv4.get_identification==0"},
    },
    "process_tcp_ipv6": {
        "FlowID": {"ipv6.get_flow_label!=0"},
        "Ecn": {"ipv6.get_traffic_class&3!=0"},
    },
    "visit_tcp": {
        "Ecn": {"tcp.get_flags&192!=0"},
        "SeqNumZero": {"tcp.get_sequence==0"},
        "AckNumZero": {"tcp.get_flags&16!=0", "tcp.get_acknowledgement==0"},
        "AckNumNonZero": {"tcp.get_flags&16==0", "tcp.get_acknowledgement!=0", "tcp.get_flags&4==0"},
        "Urg": {"tcp.get_flags&32!=0"},
        "NonZeroURG": {"tcp.get_flags&32==0", "tcp.get_urgent_ptr!=0"},
        "Push": {"tcp.get_flags&8!=0"},
        "TrailinigNonZero": {"opt==0", "rest-any-nonzero"},
        "ExcessiveWindowScaling": {"opt==3", "optbyte[0]>14"},
        "OwnTimestampZero": {"opt==8", "optlen>=4", "be[0..4]==0"},
        "PeerTimestampNonZero": {"opt==8", "optlen>=8", "tcp.get_flags&23==2", "be[4..8]!=0"},
    },
}
# optional extra guards that do not change the defining condition (length guards added by a repair)
TOLERATED = {"optlen>=1", "optlen>0", "optlen!=0"}


def _complement(atom):
    m = re.match(r"^(.*?)(==|!=|<=|>=|<|>)(-?\d+)$", atom)
    if not m:
        return None
    return m.group(1) + {"==": "!=", "!=": "==", "<": ">=", ">=": "<", ">": "<=", "<=": ">"}[m.group(2)] + m.group(3)


def _merge_complementary(sites):
    """a quirk pushed in two arms whose conditions differ only in one test and its negation (`match (df, zero_id) { (true, true) => ..df..,
    (true, false) => ..df.. }`) is pushed under what the arms have in common"""
    sites = list(sites)
    changed = True
    while changed:
        changed = False
        for i in range(len(sites)):
            for j in range(i + 1, len(sites)):
                (q1, b1, a1, c1), (q2, b2, a2, c2) = sites[i], sites[j]
                if q1 != q2:
                    continue
                s1, s2 = set(a1), set(a2)
                d1, d2 = s1 - s2, s2 - s1
                if len(d1) == 1 and len(d2) == 1 and _complement(next(iter(d1))) == next(iter(d2)):
                    sites[i] = (q1, b1, [x for x in a1 if x in s2], c1)
                    del sites[j]
                    changed = True
                    break
            if changed:
                break
    return sites


def quirk_sites(P, b):
    S = T.Slicer(b, P)
    out = []
    for blk, t in Q.calls(b, "Vec::<T, A>::push"):
        a = Q.call_args(b, S, blk, t)
        v = T.strip(a[1])
        if v[0] == "agg" and v[2] and v[2].endswith("tcp::Quirk"):
            conds = Q.canon_conds(P, T.dom_conds(b, S, blk))
            atoms = [atom_of(c) for c in conds]
            out.append((v[3], blk, [x for x in atoms if x], conds))
    return out


def rule_R2(ctx):
    _PROGRAM[0] = ctx.program
    P = ctx.program
    produced = {}
    nsites = 0
    order_ok = True
    for fn, spec in SPEC.items():
        b = P.body(TP + fn)
        sites = quirk_sites(P, b)
        if not sites:
            ctx.cannot("R2", fn, "no quirk push sites", ctx.loc(b))
            continue
        common = set(sites[0][2])
        for (_, _, atoms, _) in sites:
            common &= set(atoms)
        nsites += len(sites)
        sites = _merge_complementary(sites)
        for (q, blk, atoms, conds) in sites:
            produced.setdefault(q, []).append(fn)
            got = set(atoms) - common
            want = spec.get(q)
            inst = "%s:%s" % (fn, q)
            if want is None:
                ctx.fail("R2", inst + ":unexpected", "quirk %s is produced in %s where the vocabulary does not define it (conditions %s)" % (q, fn, sorted(got)), ctx.loc(b, blk))
                continue
            extra = got - want - TOLERATED
            missing = want - got
            ctx.check(not extra and not missing, "R2", inst, "pushed under %s" % sorted(want),
                      "quirk `%s` is set under %s; its definition is %s (missing %s, extra %s)" % (q, sorted(got), sorted(want), sorted(missing), sorted(extra)),
                      ctx.loc(b, blk))
        for q in spec:
            if q not in [s[0] for s in sites]:
                ctx.fail("R2", "%s:%s:absent" % (fn, q), "quirk %s is no longer produced in %s" % (q, fn), ctx.loc(b))
    ctx.floor("R2", "quirk push sites", nsites, 18)
    # R2b producers
    for v in P.variants("huginn_net_db::tcp::Quirk"):
        if v in produced:
            ctx.ok("R2b", "Quirk::" + v, "produced in " + ",".join(sorted(set(produced[v]))))
        else:
            ctx.fail("R2b", "Quirk::%s:no-producer" % v,
                     "quirk `%s` of the signature vocabulary is never produced by the extractor: a segment with that property is rendered without it "
                     "and every signature listing it is unreachable" % v)


def _elem_index(e):
    """constant position of a payload element: payload[k] or the k-th binding of a slice pattern"""
    while e[0] in ("deref", "ref"):
        e = T.strip(e[-1])
    if e[0] == "index":
        return fold(T.strip(e[2]))
    if e[0] == "cindex" and not e[3]:
        return e[2]
    return None


def rule_R1_options(ctx):
    _PROGRAM[0] = ctx.program
    P = ctx.program
    b = P.body(TP + "visit_tcp")
    S = T.Slicer(b, P)
    news = Q.calls(b, "TcpOptionPacket::<'p>::new") or Q.calls(b, "TcpOptionPacket")
    news = [(blk, t) for blk, t in news if callee_of(t).endswith("::new")]
    if len(news) != 1:
        ctx.cannot("R1", "visit_tcp:option-loop", "option loop head not identified (%d candidates)" % len(news), ctx.loc(b))
        return
    head = news[0][0]
    loops = C.loops(b)
    hdr = None
    for h, blks in loops.items():
        if head in blks:
            hdr = h if hdr is None or len(blks) < len(loops[hdr]) else hdr
    if hdr is None:
        ctx.cannot("R1", "visit_tcp:option-loop", "no loop around TcpOptionPacket::new", ctx.loc(b, head))
        return
    # option-number switch
    sw = None
    for blk in sorted(loops[hdr]):
        be = T.branch_edges(b, S, blk)
        if be and be[0][0] == "int" and T.has_call(be[0][1], "get_number"):
            sw = (blk, be[1])
    if sw is None:
        ctx.cannot("R1", "visit_tcp:option-switch", "match on the option number not found", ctx.loc(b, head))
        return
    blk, labels = sw
    table = {}
    for succ, lab in labels.items():
        vals = [lab] if isinstance(lab, int) else ([x for x in lab[1]] if isinstance(lab, tuple) and lab[0] == "anyof" else ["else"])
        # layout variant pushed in the arm
        reg = Q.dominated_region(b, succ)
        pushed = set()
        for pb, pt in Q.calls(b, "Vec::<T, A>::push"):
            if pb in reg or pb == succ:
                a = Q.call_args(b, S, pb, pt)
                v = T.strip(a[1])
                if v[0] == "agg" and v[2] and v[2].endswith("tcp::TcpOption"):
                    pushed.add((v[3], v))
        for v in vals:
            table[v] = pushed
    want = {0: "Eol", 1: "Nop", 2: "Mss", 3: "Ws", 4: "Sok", 5: "Sack", 8: "TS", "else": "Unknown"}
    for k, var in want.items():
        got = sorted(x[0] for x in table.get(k, ()))
        ctx.check(got == [var], "R5", "option-kind:%s" % k, "kind %s -> %s" % (k, var), "TCP option kind %s is rendered as %s, expected %s" % (k, got, var), ctx.loc(b, blk))
    # Eol(n): n = remaining bytes after the marker ; Unknown(n): n = option number
    for k, (var, fn_) in {0: ("Eol", "len"), "else": ("Unknown", "get_number")}.items():
        for (name, v) in table.get(k, ()):
            arg = v[4][0] if v[4] else None
            ctx.check(arg is not None and (T.has_call(arg, "::len") if fn_ == "len" else T.has_call(arg, "get_number")), "R5", "option-arg:" + var,
                      "%s(%s)" % (var, "remaining length" if fn_ == "len" else "kind"), "%s argument is %s" % (var, T.pp(arg) if arg else None), ctx.loc(b, blk))
    # R1: EOL arm must not return to the loop header
    eol_succ = [s for s, lab in labels.items() if lab == 0]
    if not eol_succ:
        ctx.cannot("R1", "visit_tcp:eol-arm", "EOL arm not found", ctx.loc(b, blk))
    else:
        back = C.reaches(b, eol_succ[0], hdr)
        ctx.check(not back, "R1", "visit_tcp:eol-terminates", "no path from the EOL arm back to the option loop",
                  "after an end-of-options marker the walk continues: padding bytes are decoded as further options (a SYN with `eol` followed by "
                  "zero padding renders `eol+1,eol+0`), so signatures containing `eol+n` can never be equalled", ctx.loc(b, eol_succ[0]))
    # advance: buf = &buf[opt.packet_size().min(buf.len())..]
    adv = False
    for ib, it in Q.calls(b, "ops::Index"):
        if ib in loops[hdr]:
            a = Q.call_args(b, S, ib, it)
            if T.has_call(a[1], "packet_size") and T.has_call(a[1], "::min"):
                adv = True
    ctx.check(adv, "R5", "option-advance", "buffer advanced by min(option size, remaining)", "option walk does not advance by the option's own size", ctx.loc(b, head))
    # MSS / WS decoding
    okmss = okws = False
    for i, j, s in b.iter_stmts():
        if s["k"] == "assign" and s["r"]["k"] == "agg" and s["r"].get("variant") == "Some":
            t = S.rvalue(s["r"], i, j)
            inner = T.strip(t[4][0])
            nm = b.local_name(s["p"]["l"])
            conds = [atom_of(c) for c in Q.canon_conds(P, T.dom_conds(b, S, i))]
            if inner[0] == "call" and inner[1].endswith("u16>::from_be_bytes") and "opt==2" in conds:
                arr = T.strip(inner[2][0])
                idx = [_elem_index(T.strip(e)) for e in arr[4]] if arr[0] == "agg" else []
                okmss = idx == [0, 1] and "optlen>=2" in conds
            if "opt==3" in conds and inner[0] in ("index", "deref", "call", "cindex", "field", "downcast") and T.has_call(inner, "::payload"):
                okws = True
    ctx.check(okmss, "R5", "mss-decode", "mss = be16(payload[0..2]) under len >= 2", "MSS is not decoded as big-endian payload[0],payload[1] under a length guard", ctx.loc(b))
    ctx.check(okws, "R5", "wscale-decode", "wscale = first payload byte of the WS option", "window scale is not taken from the WS option payload", ctx.loc(b))


def _mtu_nf(t, depth=0):
    """compact normal form of the MTU expression (operands of + sorted)"""
    t = T.strip(t)
    if depth > 12:
        return "..."
    k = T.fold_int(t)
    if k is not None:
        return str(k)
    while t[0] == "cast":
        t = T.strip(t[2])
    if t[0] == "param":
        return t[2]
    if t[0] == "phi":
        return "(" + "|".join(sorted({_mtu_nf(x, depth + 1) for x in t[1]})) + ")"
    if t[0] == "loopvar":
        return "(" + "|".join(sorted({_mtu_nf(x, depth + 1) for x in (t[3] if len(t) > 3 and isinstance(t[3], (list, tuple)) else [])})) + ")" if False else "var"
    if t[0] == "call":
        last = t[1].rsplit("::", 1)[-1]
        if last.startswith("get_"):
            return last[4:]
        op = {"saturating_add": "+", "wrapping_add": "+", "checked_add": "+", "saturating_sub": "-", "saturating_mul": "*", "wrapping_mul": "*"}.get(last)
        if op and len(t[2]) == 2:
            a, c = _mtu_nf(t[2][0], depth + 1), _mtu_nf(t[2][1], depth + 1)
            if op in "+*":
                a, c = sorted((a, c))
            return "%s%s%s" % (a, op, c) if op == "*" else "(%s%s%s)" % (a, op, c)
        return last + "(" + ",".join(_mtu_nf(a, depth + 1) for a in t[2][:2]) + ")"
    if t[0] == "binop":
        op = {"Add": "+", "Sub": "-", "Mul": "*"}.get(t[1].replace("WithOverflow", ""), t[1])
        a, c = _mtu_nf(t[2], depth + 1), _mtu_nf(t[3], depth + 1)
        if op in "+*":
            a, c = sorted((a, c))
        return "(%s%s%s)" % (a, op, c)
    if t[0] == "field":
        return _mtu_nf(t[1], depth + 1)
    return T.pp(t)[:20]


def rule_R3_R4_R5(ctx):
    _PROGRAM[0] = ctx.program
    P = ctx.program
    b = P.body(TP + "visit_tcp")
    S = T.Slicer(b, P)
    aggs = Q.aggregates(b, "ObservableTCPPackage")
    if len(aggs) != 1:
        ctx.cannot("R3", "visit_tcp:result", "result constructor not found", ctx.loc(b))
        return
    i, j, s = aggs[0]
    f = dict(zip(s["r"]["fields"], s["r"]["ops"]))

    def some_conditions(field):
        """conditions under which the field is Some(..): dominating conds of the Some aggregate flowing into it"""
        p = f[field].get("m") or f[field].get("c")
        out = []
        if not p:
            return out
        for (term, conds, site) in GV.guarded_values(P, b, S, p, i, j):
            term = T.strip(term)
            if term[0] == "agg" and term[3] == "Some" or (term[0] not in ("agg",) and term[0] != "const"):
                out.append((site[0], term, conds))
        return out

    def role_atoms(conds):
        r = set()
        for c in conds:
            if c[0] == "bool" and c[1][0] == "call":
                nm = c[1][1].rsplit("::", 1)[-1]
                if nm in ("from_client", "from_server"):
                    r.add((nm, c[2]))
            if c[0] == "cmp":
                a = atom_of(c)
                if a and a.startswith("tcp.get_flags&"):
                    r.add((a, True))
        return r

    req = some_conditions("tcp_request")
    okreq = bool(req) and all(("from_client", True) in role_atoms(c) for (_, _, c) in req)
    ctx.check(okreq, "R3", "tcp_request:role", "client signature only when SYN & !ACK (from_client)",
              "tcp_request is produced without the SYN&!ACK test", ctx.loc(b, i))
    resp = some_conditions("tcp_response")
    okresp = bool(resp) and all((("from_server", True) in role_atoms(c)) or
                                ({("tcp.get_flags&2!=0", True), ("tcp.get_flags&16!=0", True)} <= role_atoms(c)) for (_, _, c) in resp)
    respkey = "tcp_response:role" if okresp else "tcp_response:role:under=" + "|".join("+".join("%s%s" % ("" if v else "!", a) for a, v in sorted(role_atoms(c))) for (_, _, c) in resp)
    ctx.check(okresp, "R3", respkey, "server signature only when SYN & ACK",
              "tcp_response is Some whenever the segment is not a pure SYN (conditions %s): every ACK/data/FIN segment is reported as a server "
              "(SYN+ACK) signature although it is not part of a handshake" % [sorted(role_atoms(c)) for (_, _, c) in resp], ctx.loc(b, i))
    m = some_conditions("mtu")
    okm = bool(m) and all(("from_client", True) in role_atoms(c) for (_, _, c) in m)
    ctx.check(okm, "R3", "mtu:role", "MTU reported only with the client signature", "mtu is reported for non-SYN segments", ctx.loc(b, i))
    # from_client local really is from_client(flags)
    # R5 routing of TcpObservation fields
    obs = Q.aggregates(b, "observable_signals::TcpObservation")
    if len(obs) != 1:
        ctx.cannot("R5", "visit_tcp:observation", "TcpObservation constructor not found", ctx.loc(b))
    else:
        oi, oj, os_ = obs[0]
        of = {n: S.operand(o, oi, oj) for n, o in zip(os_["r"]["fields"], os_["r"]["ops"])}
        checks = {
            "version": lambda t: T.strip(t)[0] == "param" and T.strip(t)[2] == "version",
            "ittl": lambda t: T.strip(t)[0] == "param" and T.strip(t)[2] == "ittl",
            "olen": lambda t: T.strip(t)[0] == "param" and T.strip(t)[2] == "olen",
            "mss": lambda t: T.contains(t, lambda x: x[0] == "call" and x[1].endswith("from_be_bytes")),
            "wsize": lambda t: T.strip(t)[0] == "call" and T.strip(t)[1].endswith("detect_win_multiplicator") and T.has_call(T.strip(t)[2][0], "get_window"),
            "wscale": lambda t: T.has_call(t, "::payload"),
            "pclass": lambda t: {x[3] for x in T.walk(t) if x[0] == "agg" and x[2] and x[2].endswith("PayloadSize")} == {"Zero", "NonZero"},
        }
        for name, fn_ in checks.items():
            ctx.check(fn_(of[name]), "R5", "observation." + name, "%s <- %s" % (name, T.pp(of[name])[:70]),
                      "TcpObservation.%s originates from %s" % (name, T.pp(of[name])[:120]), ctx.loc(b, oi))
        # pclass polarity
        for (db, dj, full) in S.defs().get((os_["r"]["ops"][os_["r"]["fields"].index("pclass")].get("m") or {}).get("l", -1), []):
            term = S.def_term(0, db, dj, 0) if False else None
        pl = os_["r"]["ops"][os_["r"]["fields"].index("pclass")]
        p = pl.get("m") or pl.get("c")
        okp = 0
        for (term, conds, _site) in GV.guarded_values(P, b, S, p, oi, oj):
            term = T.strip(term)
            emp = [c[2] for c in conds if c[0] == "bool" and c[1][0] == "call" and c[1][1].endswith("is_empty") and T.has_call(c[1], "::payload")]
            if term[0] == "agg" and emp:
                if (term[3] == "Zero") == emp[-1]:
                    okp += 1
        ctx.check(okp == 2, "R5", "observation.pclass:polarity", "Zero iff payload is empty", "payload class polarity is inverted or unguarded", ctx.loc(b, oi))
        # wsize arguments
        w = T.strip(of["wsize"])
        if w[0] == "call":
            wa = w[2]
            ts_discr = [v["discr"] for v in P.adt("huginn_net_db::tcp::TcpOption")["variants"] if v["name"] == "TS"][0]
            ts_const = any(x[0] == "const" and x[3] and "TcpOption" in x[3] and isinstance(x[1], (bytes, bytearray)) and len(x[1]) >= 1 and x[1][0] == ts_discr
                           for x in T.walk(wa[3])) or any(x[0] == "agg" and x[3] == "TS" for x in T.walk(wa[3]))
            qf = Q.quantified(P, wa[3])
            is_member = False
            if qf is not None and qf[0] == "exists" and qf[2] == "Eq":
                k_ = qf[3]
                is_member = k_ == ("variant", "TS") or (k_[0] == "agg" and k_[3] == "TS") or \
                    (k_[0] == "const" and k_[3] and "TcpOption" in k_[3] and isinstance(k_[1], (bytes, bytearray)) and len(k_[1]) >= 1 and k_[1][0] == ts_discr)
                ts_const = is_member
            ctx.check(is_member and ts_const, "R5", "wsize:has_ts",
                      "has_ts = olayout.contains(TS)", "timestamp flag for window classification is not olayout.contains(TS)", ctx.loc(b, oi))
    # per-family routing
    for fn, ver, ttlacc, olenfn in (("process_tcp_ipv4", "V4", "get_ttl", "calculate_ipv4_length"), ("process_tcp_ipv6", "V6", "get_hop_limit", "calculate_ipv6_length")):
        pb = P.body(TP + fn)
        found = False
        for cb in [pb] + P.closures_of(pb.path):
            SC = T.Slicer(cb, P)
            for blk, t in Q.calls(cb, "tcp_process::visit_tcp"):
                a = [T.expand_upvars(P, cb, x) for x in Q.call_args(cb, SC, blk, t)]
                found = True
                v = [x for x in T.walk(a[2]) if x[0] == "agg" and x[2] and x[2].endswith("IpVersion")]
                ctx.check(bool(v) and v[0][3] == ver, "R5", fn + ":version", "version = " + ver, "IP version passed is %s" % (v[0][3] if v else "?"), ctx.loc(cb, blk))
                ctx.check(T.has_call(a[3], "calculate_ttl") and T.has_call(a[3], ttlacc), "R5", fn + ":ittl", "ittl = calculate_ttl(%s)" % ttlacc,
                          "TTL not classified from %s: %s" % (ttlacc, T.pp(a[3])[:80]), ctx.loc(cb, blk))
                ctx.check(T.has_call(a[5], olenfn), "R5", fn + ":olen", "olen = %s(packet)" % olenfn, "olen from %s" % T.pp(a[5])[:80], ctx.loc(cb, blk))
                ctx.check(T.has_call(a[7], "get_source") and T.has_call(a[8], "get_destination"), "R5", fn + ":endpoints", "source/destination of this packet",
                          "endpoints passed to visit_tcp are swapped or foreign", ctx.loc(cb, blk))
        if not found:
            ctx.cannot("R5", fn + ":visit", "call to visit_tcp not found", ctx.loc(pb))
    # R4 MTU
    for fn in ("extract_from_ipv4", "extract_from_ipv6"):
        mb = P.body("huginn_net_tcp::mtu::" + fn)
        SM = T.Slicer(mb, P)
        ags = Q.aggregates(mb, "ObservableMtu")
        if not ags:
            ctx.cannot("R4", fn, "ObservableMtu not constructed", ctx.loc(mb))
            continue
        mi, mj, ms = ags[0]
        val = SM.operand(ms["r"]["ops"][0], mi, mj)
        params = {x[2] for x in T.params_in(val)}
        accessors = sorted({x[1].rsplit("::", 1)[-1] for x in T.calls_in(val) if "::get_" in x[1]})
        dep = sorted((params - {"mss"}) | set(accessors))
        # the finding is pinned to the expression: a different wrong formula at the same place is a different violation
        ctx.check(params <= {"mss"} and not accessors, "R4", fn + ":depends" + (":" + _mtu_nf(val) if dep else ""),
                  "MTU = f(MSS, constants)",
                  "the reported MTU also depends on %s: MSS 1460 with a 20-byte IP header and TCP options yields 1504 instead of MSS + minimal IP and TCP "
                  "header sizes, so the link label lookup misses" % sorted((params - {"mss"}) | set(accessors)), ctx.loc(mb, mi))


def rule_R6(ctx):
    P = ctx.program
    b = P.body(TP + "is_valid")
    rows = D.decision_rows(P, b)
    SYN, FIN, RST = 2, 1, 4

    def key(c):
        if c[0] == "cmp":
            op, a, bb, pol = c[1], T.strip(c[2]), T.strip(c[3]), c[4]
            k = fold(bb)
            if a[0] == "binop" and a[1] == "BitAnd" and k is not None:
                m = fold(a[3])
                if m is None:
                    return "unknown"
                if op not in ("Eq", "Ne"):
                    return "unknown"
                truth = (op == "Eq") == pol
                if k == m:
                    return (("all", m), truth)
                if k == 0:
                    return (("any", m), not truth)
            if a[0] == "param" and a[2] == "tcp_type" and k == 0 and op in ("Eq", "Ne"):
                return (("type0",), (op == "Eq") == pol)
            return "unknown"
        if c[0] == "bool" and c[1][0] == "const":
            return None if c[1][1] == c[2] else "infeasible"
        return "unknown"

    rows2 = []
    for r in rows or []:
        rt = T.strip(r.ret)
        neg = False
        while rt[0] == "unop" and rt[1] == "Not":
            rt = T.strip(rt[2])
            neg = not neg
        if rt[0] == "binop" and rt[1] in ("Eq", "Ne"):
            for pol in (True, False):
                rows2.append(D.Row(r.conds + [("cmp", rt[1], rt[2], rt[3], pol, None)], ("const", pol != neg, None, "bool"), r.trail))
        elif rt[0] == "const":
            rows2.append(D.Row(r.conds, ("const", rt[1] != neg, None, "bool"), r.trail))
        else:
            rows2.append(r)

    def spec(a):
        syn = a.get(("all", SYN), False)
        anyfr = a.get(("any", FIN | RST), False)
        allfr = a.get(("all", FIN | RST), False)
        t0 = a.get(("type0",), False)
        if allfr and not anyfr:
            return None
        return not ((syn and anyfr) or allfr or t0)

    problems, stats = D.truth_check(rows2, key, lambda t: None, spec)
    atoms = set(stats.get("atoms", []))
    want_atoms = {("all", SYN), ("any", FIN | RST), ("all", FIN | RST), ("type0",)}
    if problems:
        ctx.fail("R6", "is_valid", "flag sanity filter differs from !(SYN&(FIN|RST) | FIN&RST | type==0): %s under %s" % (problems[0][2], problems[0][1]), ctx.loc(b))
    elif atoms != want_atoms:
        ctx.fail("R6", "is_valid:atoms", "filter tests %s, expected %s" % (sorted(map(str, atoms)), sorted(map(str, want_atoms))), ctx.loc(b))
    else:
        ctx.ok("R6", "is_valid", "%d valuations agree with !(SYN&(FIN|RST) | FIN&RST | type==0)" % stats["valuations"], ctx.loc(b))
    # visit_tcp applies it to (flags, flags & (SYN|ACK|FIN|RST)) and errors out when invalid
    v = P.body(TP + "visit_tcp")
    SV = T.Slicer(v, P)
    cs = Q.calls(v, "tcp_process::is_valid")
    okv = False
    for blk, t in cs:
        a = Q.call_args(v, SV, blk, t)
        ty = T.strip(a[1])
        okv = T.has_call(a[0], "get_flags") and ty[0] == "binop" and ty[1] == "BitAnd" and fold(ty[3]) == 0x17
    ctx.check(okv, "R6", "visit_tcp:is_valid-args", "is_valid(flags, flags & (SYN|ACK|FIN|RST))", "flag filter is not applied to the segment's flags / type mask 0x17", ctx.loc(v))
    # calculate_ttl
    ct = P.body("huginn_net_tcp::ttl::calculate_ttl")
    sites = TB.return_sites(ct, P)
    S = T.Slicer(ct, P)
    seen = {}
    for (blk, j, term, _c) in sites:
        conds = Q.canon_conds(P, T.dom_conds(ct, S, blk))
        desc = []
        for c in conds:
            if c[0] == "cmp":
                a, bb = T.strip(c[2]), T.strip(c[3])
                k = fold(bb)
                lhs = "ttl" if a[0] == "param" else ("dist" if (a[0] == "call" and a[1].endswith("guess_distance")) else "?")
                desc.append("%s%s%s%s" % ("" if c[4] else "!", lhs, REL_SYM[c[1]], k))
        if term[0] == "agg":
            seen[term[3]] = (sorted(desc), [T.pp(x) for x in term[4]])
    want = {"Bad": (["ttl==0"], ["ttl_observed"]),
            "Distance": (["dist<=30", "ttl!=0"], ["ttl_observed", "guess_distance(ttl_observed)"]),
            "Value": (["dist>30", "ttl!=0"], ["ttl_observed"])}
    for k, (wc, wa) in want.items():
        got = seen.get(k)
        okk = got is not None and sorted(got[0]) == sorted(wc) and [x.split("::")[-1] for x in got[1]] == wa
        ctx.check(okk, "R6", "calculate_ttl:" + k, "%s%s under %s" % (k, wa, wc), "TTL classification arm %s is %s, expected %s under %s" % (k, got, wa, wc), ctx.loc(ct))
    # guess_distance: exhaustive interval table over 0..=255
    gd = P.body("huginn_net_tcp::ttl::guess_distance")
    rows, imprecise = TB.interval_table(gd, 1, 0, (0, 255), P)
    if imprecise:
        ctx.cannot("R6", "guess_distance", "interval table not exact: %s" % imprecise[:2], ctx.loc(gd))
        return
    tab = []
    for (ivs, res, blk) in rows:
        r = T.strip(res)
        base = None
        if r[0] == "call" and r[1].endswith("saturating_sub"):
            base = fold(r[2][0])
            if not (T.strip(r[2][1])[0] == "param"):
                base = None
        tab.append((ivs, base, blk))
    merged = TB.normalise_rows(tab)
    want = [(0, 32, 32), (33, 64, 64), (65, 128, 128), (129, 255, 255)]
    ctx.extra["guess_distance_table"] = [[a, bb, v] for a, bb, v in merged]
    ctx.check(merged == want, "R6", "guess_distance", "initial TTL classes %s (distance = class - ttl)" % want,
              "initial-TTL classes are %s, expected %s" % (merged, want), ctx.loc(gd))


def _spec():
    import json
    import os
    from ..engine.facts import VERIF
    with open(os.path.join(VERIF, "tables", "spec_tables.json")) as fh:
        return json.load(fh)


def _divisor_norm(t):
    """symbolic name of a window divisor term"""
    t = T.strip(t)
    k = T.fold_int(t)
    if k is not None:
        return str(k)
    if t[0] == "param":
        return t[2]
    if t[0] == "call" and t[1].endswith(("saturating_add", "saturating_sub")) and len(t[2]) == 2:
        a, c = _divisor_norm(t[2][0]), _divisor_norm(t[2][1])
        return "%s%s%s" % (a, "+" if t[1].endswith("add") else "-", c)
    if t[0] == "binop" and t[1] in ("Add", "Sub", "AddWithOverflow", "SubWithOverflow"):
        return "%s%s%s" % (_divisor_norm(t[2]), "+" if t[1].startswith("Add") else "-", _divisor_norm(t[3]))
    if t[0] == "field" and T.strip(t[1])[0] == "binop":
        return _divisor_norm(t[1])
    return T.pp(t)[:40]


def rule_R7(ctx):
    """window rendering: every `mss*k` / `mtu*k` / `%m` return of detect_win_multiplicator divides by a divisor of the
    specification table, under exactly that divisor's remainder test and the table's IP-version / timestamp guards"""
    P = ctx.program
    spec = _spec()["window_multiplier"]
    b = P.body("huginn_net_tcp::window_size::detect_win_multiplicator")
    S = T.Slicer(b, P)
    rows = {(r["variant"], r["divisor"]): r for r in spec["rows"]}
    test_blocks = []
    seen = set()
    n = 0
    for (i, j, t, _) in TB.return_sites(b, P):
        t = T.strip(t)
        if t[0] != "agg" or not (t[2] or "").endswith("WindowSize"):
            ctx.cannot("R7", "window:return@%d" % n, "return value of detect_win_multiplicator is not a WindowSize constructor: %s" % T.pp(t)[:80], ctx.loc(b, i))
            continue
        var = t[3]
        conds = Q.canon_conds(P, T.dom_conds(b, S, i))
        if var == "Value":
            ok = T.strip(t[4][0])[0] == "param" and T.strip(t[4][0])[2] == "window_size"
            ctx.check(ok, "R7", "window:Value@%d" % i if False else "window:Value:%d" % len([x for x in seen if x[0] == "Value"]), "fallback renders the raw window", "raw window fallback does not carry window_size", ctx.loc(b, i))
            seen.add(("Value", i))
            continue
        if var == "Mod":
            arr = [a for a in (T.int_array(x) for x in T.walk(t) if x[0] in ("agg", "const")) if a]
            vals = arr[0] if arr else []
            rev = T.has_call(t, "::rev")

            def _some_zero(x):
                x = T.strip(x)
                while x[0] in ("ref", "deref"):
                    x = T.strip(x[2] if x[0] == "ref" else x[1])
                if x[0] == "agg" and x[3] == "Some" and len(x[4]) == 1:
                    return T.fold_int(x[4][0]) == 0
                # Option<u16> constant: tag 1, payload 0 (layout of the pinned toolchain: u16 tag, u16 payload)
                return x[0] == "const" and isinstance(x[1], (bytes, bytearray)) and "Option<u16>" in (x[3] or "") and bytes(x[1]) == b"\x01\x00\x00\x00"

            def _remtest(c):
                return c[0] == "cmp" and c[1] == "Eq" and c[4] is True and T.has_call(c[2], "checked_rem") and \
                    _some_zero(c[3]) and any(x[0] == "param" and x[2] == "window_size" for x in T.walk(c[2]))
            remz = any(_remtest(c) for c in conds)
            for c in conds:
                if _remtest(c) and c[5] is not None:
                    test_blocks.append(("Mod", c[5]))
            # the same test written as the predicate of an iterator search (`.find(|m| w.checked_rem(m) == Some(0))`)
            for (call, cs) in Q.predicate_conds(P, t):
                if call[1].endswith(("::find", "::rfind")) and any(_remtest(c) for c in cs):
                    remz = True
                    test_blocks.append(("Mod", call[3]))
            ctx.check(vals == spec["modulos"] and rev and remz, "R7", "window:Mod", "%%m for the largest m in %s dividing the window" % vals,
                      "modulo rendering: values %s, largest-first=%s, remainder test=%s (expected %s, largest first, remainder zero)" % (vals, rev, remz, spec["modulos"]), ctx.loc(b, i))
            seen.add(("Mod", 0))
            continue
        if var not in ("Mss", "Mtu"):
            ctx.fail("R7", "window:variant:" + str(var), "unexpected window form %s" % var, ctx.loc(b, i))
            continue
        inner = T.strip(t[4][0])
        while inner[0] == "cast":
            inner = T.strip(inner[2])
        if not (inner[0] == "binop" and inner[1] == "Div"):
            ctx.fail("R7", "window:%s:shape@%d" % (var, n), "multiplier is not window_size / divisor: %s" % T.pp(inner)[:80], ctx.loc(b, i))
            n += 1
            continue
        num, D = T.strip(inner[2]), T.strip(inner[3])
        dn = _divisor_norm(D)
        key = (var, dn)
        inst = "window:%s/%s" % (var, dn)
        row = rows.get(key)
        if row is None:
            ctx.fail("R7", inst, "window is rendered as a multiple of `%s` (%s): not a divisor of the specification table %s" % (dn, var, sorted(d for v, d in rows if v == var)), ctx.loc(b, i))
            continue
        seen.add(key)
        ip = [c[2] for c in conds if c[0] == "variant" and c[3] is True and c[2] in ("V4", "V6") and T.pp(c[1]).endswith("ip_ver")]
        ts = any(c[0] == "bool" and c[2] is True and T.pp(c[1]) == "has_ts" for c in conds)
        remz = any(c[0] == "cmp" and c[1] == "Eq" and c[4] is True and T.strip(c[2])[0] == "binop" and T.strip(c[2])[1] == "Rem"
                   and T.pp(T.strip(T.strip(c[2])[3])) == T.pp(D) and T.fold_int(c[3]) == 0 for c in conds)
        for c in conds:
            if c[0] == "cmp" and c[1] == "Eq" and c[4] is True and T.strip(c[2])[0] == "binop" and T.strip(c[2])[1] == "Rem" and T.pp(T.strip(T.strip(c[2])[3])) == T.pp(D) and c[5] is not None:
                test_blocks.append((var, c[5]))
        fits = any(c[0] == "cmp" and c[1] == "Le" and c[4] is True and T.pp(T.strip(c[2])) == T.pp(inner) and T.fold_int(c[3]) == 255 for c in conds)
        numok = num[0] == "param" and num[2] == "window_size"
        problems = []
        if row["ip"] and ip != [row["ip"]]:
            problems.append("divisor %s belongs to %s but is used under %s" % (dn, row["ip"], ip or "any IP version"))
        if not row["ip"] and ip:
            problems.append("divisor %s is version independent but only used under %s" % (dn, ip))
        if row["ts"] and not ts:
            problems.append("timestamp-adjusted divisor %s used without the has_ts guard" % dn)
        if not row["ts"] and ts:
            problems.append("divisor %s only tried when a timestamp option is present" % dn)
        if not remz:
            problems.append("no `window %% %s == 0` test with the same divisor" % dn)
        if not fits:
            problems.append("factor not checked against 255")
        if not numok:
            problems.append("dividend is not window_size")
        ctx.check(not problems, "R7", inst, "%s(window/%s) iff window %% %s == 0, factor <= 255%s%s" % (var, dn, dn, ", " + row["ip"] if row["ip"] else "", ", has_ts" if row["ts"] else ""),
                  "; ".join(problems), ctx.loc(b, i))
    # priority: MSS multiples are tried before the modulo patterns, those before MTU multiples (a window that is k*MSS and also a
    # multiple of 256 must be rendered mss*k - `%m` never matches an `mss*k` signature)
    def first_test(var):
        bl = [tb for (v, tb) in test_blocks if v == var]
        return bl
    order = [("Mss", "Mod")]
    for (a, c) in order:
        ta, tc = first_test(a), first_test(c)
        okord = bool(ta) and bool(tc) and all(C.reaches(b, x, y) and not C.reaches(b, y, x) for x in ta for y in tc)
        ctx.check(okord, "R7", "window:priority:%s<%s" % (a, c), "%s patterns are tested before %s patterns" % (a, c),
                  "%s patterns are no longer all tested before the %s patterns: a window satisfying both is rendered in the lower-priority form, which signatures written "
                  "in the other form never accept" % (a, c), ctx.loc(b))
    missing = sorted(k for k in rows if k not in seen)
    ctx.check(not missing, "R7", "window:table-complete", "all %d divisors of the table are tried" % len(rows), "divisors of the specification table never tried: %s" % missing, ctx.loc(b))
    ctx.floor("R7", "window multiplier return sites", len(seen), 12)


def rule_R8(ctx):
    """R8: the text of an observed signature (ObservableTcp Display): same field/separator skeleton as the database text, `*` written
    exactly when the MSS / window-scale option is absent (the getter result is matched directly - no value dependent filtering),
    getters return the like-named observation fields"""
    from . import C06
    P = ctx.program
    bs = [b for b in P.bodies.values() if b.name == "format_tcp_display" and b.crate == "huginn_net_tcp"]
    if len(bs) != 1:
        ctx.cannot("R8", "observable:format_tcp_display", "%d bodies named format_tcp_display in huginn_net_tcp" % len(bs))
        return
    b = bs[0]
    S = T.Slicer(b, P)
    ds, dstars, trunc = C06._skeleton_display(P, b)
    dbb = [x for x in P.bodies.values() if x.name == "format_tcp_display" and x.crate == "huginn_net_db"]
    if dbb:
        ref, rstars, _ = C06._skeleton_display(P, dbb[0])
        # the ways a Display impl walks a list (`,H` separator before every element but the first; `H,H` first element peeled off)
        # are one form
        import re as _re

        def _lists(x):
            return _re.sub(r"H?(?:,H)+", "L", x) if x else x
        ctx.check(_lists(ds) == _lists(ref) and dstars == rstars and not trunc, "R8", "observable:skeleton", "observed and database signatures print the same skeleton `%s`" % ref,
                  "an observed signature prints `%s` (%d wildcards) where the database form is `%s` (%d)" % (ds, dstars, ref, rstars), ctx.loc(b))
    n = 0
    for blk, t in b.calls():
        if not callee_of(t).endswith("::write_str"):
            continue
        a = Q.call_args(b, S, blk, t)
        lit = T.strip(a[1])
        if not (lit[0] == "const" and lit[1] == "*"):
            continue
        n += 1
        conds = Q.canon_conds(P, T.dom_conds(b, S, blk))
        okc = False
        which = "?"
        extra = []
        for c in conds:
            if c[0] == "variant" and ((c[2] == "None" and c[3]) or (c[2] == "Some" and not c[3])):
                calls = T.calls_in(c[1])
                getters = [x for x in calls if x[1].endswith(("::get_mss", "::get_wscale"))]
                if getters:
                    which = getters[0][1].rsplit("::", 1)[-1]
                    extra = sorted({T.short(x[1]) for x in calls if x not in getters and not T.is_identity_call(x[1])})
                    # the tested value is the getter's result itself, not a value merged from it and something else (`.filter(..)`,
                    # `if cond { get() } else { None }`)
                    okc = not extra and not any(x[0] == "phi" for x in T.walk(c[1]))
        ctx.check(okc, "R8", "observable:star:%s" % which, "`*` written exactly when %s() is None" % which,
                  "`*` is written for %s under more than `the option is absent` (%s): an option that is present with a particular value (e.g. ws 0) is "
                  "rendered as missing" % (which, ",".join(extra) or "condition not recognised"), ctx.loc(b, blk))
    ctx.floor("R8", "`*` write sites in the observed-signature Display", n, 2)
    # getters
    want = {"get_version": "version", "get_ittl": "ittl", "get_olen": "olen", "get_mss": "mss", "get_wsize": "wsize", "get_wscale": "wscale",
            "get_olayout": "olayout", "get_quirks": "quirks", "get_pclass": "pclass"}
    m = 0
    for g in P.bodies.values():
        if g.crate == "huginn_net_tcp" and g.name in want and (g.impl_trait or "").endswith("TcpDisplayFormat") and "ObservableTcp" in (g.impl_self or ""):
            m += 1
            rs = TB.return_sites(g, P)
            flds = [[x[2] for x in T.walk(term) if x[0] == "field" and isinstance(x[2], str)] for (_, _, term, _c) in rs]
            okg = bool(rs) and all(want[g.name] in f for f in flds)
            ctx.check(okg, "R8", "observable:getter:" + g.name, "%s() returns matching.%s" % (g.name, want[g.name]),
                      "%s() returns %s, not the observation's %s" % (g.name, flds, want[g.name]), ctx.loc(g))
    ctx.floor("R8", "TcpDisplayFormat getters of ObservableTcp", m, 9)


def rule_mtu_label(ctx):
    """R9: an MTU is labelled with the first link type of the database that lists it: the search runs over all link entries and all
    their values; `None` is only returned after the whole list has been walked"""
    P = ctx.program
    b = P.method1("SignatureMatcher", "matching_by_mtu")
    loops = C.loops(b)
    inloop = set()
    for blks in loops.values():
        inloop |= set(blks)
    bad = []
    nn = 0
    for (rb, j, term, _c) in TB.return_sites(b, P):
        tt = T.strip(term)
        isnone = (tt[0] == "agg" and tt[3] == "None") or (tt[0] == "const" and "None" in str(tt[1])) or (tt[0] == "call" and tt[1].endswith("from_residual"))
        if tt[0] == "agg" and tt[3] == "Some":
            continue
        nn += 1
        if rb in inloop or (tt[0] == "call" and tt[1].endswith("from_residual")):
            bad.append(rb)
    if not loops:
        # combinator form: database.mtu.iter().find_map(|(link, mtus)| mtus.iter().find(..).map(..)) - no truncation anywhere
        S = T.Slicer(b, P)
        calls = []
        for cb in [b] + P.closures_of(b.path):
            calls += [callee_of(t) for _, t in cb.calls()]
        outer = any(c.endswith(("::find_map", "::flat_map", "::filter_map")) for c in calls)
        inner = any(c.endswith(("::find", "::any", "::position", "::contains")) for c in calls)
        trunc = sorted({T.short(c) for c in calls if c.endswith(("::take", "::nth", "::first", "::last", "::skip", "::take_while", "::step_by", "::next_back", "::rev", "::from_residual"))})
        over = any(x[0] == "field" and x[2] == "mtu" for _, t in b.calls() for a in Q.call_args(b, S, _, t) for x in T.walk(a))
        ctx.check(outer and inner and over and not trunc, "R9", "matching_by_mtu:exhaustive", "find_map over all [mtu] entries, find inside each",
                  "the MTU search does not cover every link type and every value (%s)" % (",".join(trunc) or "search structure not recognised"), ctx.loc(b))
        return
    ctx.check(not bad and len(loops) >= 2 and nn >= 1, "R9", "matching_by_mtu:exhaustive", "None only after both loops are exhausted (%d loops)" % len(loops),
              "the MTU search gives up inside the loop (a `?` / early None on the first link type without a hit): only the first [mtu] entry can ever be reported, "
              "every other known MTU loses its link label", ctx.loc(b, bad[0]) if bad else ctx.loc(b))


def rule_tokens(ctx):
    """the rendered text uses the signature vocabulary: option / quirk / window / TTL tokens printed by Display are the ones the
    database parser reads back (shared with C06.R1)"""
    from ..engine import report as R
    from . import C06
    C06.rule_R1_R2(R.Retag(ctx, "C06."))


def rule_narrowing(ctx):
    """R10: what is rendered is the measured value: every narrowing integer conversion in the TCP crate is proven (or reviewed) to fit"""
    from . import _narrow as N
    n = N.narrowing_preserved(ctx, ctx.program, "R10", ("huginn_net_tcp",))
    ctx.floor("R10", "narrowing integer conversions in the TCP crate", n, 10)


def rule_twins(ctx):
    """the IPv4 and IPv6 copies of the per-packet functions route sides, roles and lookups identically (shared rule TW)"""
    from . import _twins as TW
    TW.twin_agreement(ctx, ctx.program, "TW", ("huginn_net_tcp",), floor=4)


def rule_ip_views(ctx):
    """R1: every framing (Ethernet, raw IP, NULL/loopback) hands the same bytes to the IPv4 and to the IPv6 reader"""
    from . import _endpoints as E
    E.ip_from_same_slice(ctx, ctx.program, "R1", ("huginn_net_tcp", "huginn_net"))


def rule_segment_and_framing(ctx):
    """the TCP segment a signature is computed from is the IP payload (bounded by the IP total length: link-layer padding is not
    payload), and the frame is interpreted in the documented link-layer order (shared with C20.R2 / C15.R9)"""
    from . import _endpoints as E
    E.tcp_from_payload(ctx, ctx.program, "R5", ("huginn_net_tcp",))
    E.link_layer_order(ctx, ctx.program, "R5", ("huginn_net_tcp",))


def run(ctx):
    rule_segment_and_framing(ctx)
    rule_ip_views(ctx)
    rule_twins(ctx)
    rule_narrowing(ctx)
    rule_R8(ctx)
    rule_mtu_label(ctx)
    rule_tokens(ctx)
    rule_R7(ctx)
    rule_R1_options(ctx)
    rule_R2(ctx)
    rule_R3_R4_R5(ctx)
    rule_R6(ctx)
