"""Shared rule: integer conversions to a narrower type preserve the value.

Every `as` conversion from a wider to a narrower integer type in the analysed crates is an obligation: the operand must be
provably within the target range at that point (difference-constraint reasoning of engine/absint.py over the dominating conditions,
e.g. `multiplier <= 255` before `multiplier as u8`), or the site is listed in tables/narrowing_reviewed.json with the reason why the
value fits.  A new unguarded narrowing (a length cast to u8 before it is clamped, a ratio cast before it is compared) is reported."""
import json
import os

from ..engine import absint as A
from ..engine import terms as T
from ..engine.facts import VERIF

WIDTH = {"u8": 8, "u16": 16, "u32": 32, "u64": 64, "usize": 64, "u128": 128, "i8": 8, "i16": 16, "i32": 32, "i64": 64, "isize": 64, "i128": 128}


def _encl(fk):
    """the named function enclosing a (possibly closure) body key"""
    import re
    fk = re.sub(r"(::\{closure#\d+\})+$", "", fk)
    crate, _, rest = fk.partition("/")
    return crate + "/" + rest.rsplit("::", 1)[-1]


def narrowing_preserved(ctx, P, rule, crates):
    with open(os.path.join(VERIF, "tables", "narrowing_reviewed.json")) as fh:
        reviewed = {(e["fn"], e["conv"]): e for e in json.load(fh)["sites"]}
    by_encl = {(_encl(fn_), conv_): e for (fn_, conv_), e in reviewed.items()}
    used = set()
    n = 0
    for b in P.bodies.values():
        if b.crate not in crates:
            continue
        S = None
        ax = None
        for i, j, s in b.iter_stmts():
            if not (s["k"] == "assign" and s["r"]["k"] == "cast" and s["r"].get("ck") == "IntToInt"):
                continue
            fr, to = s["r"].get("from"), s["r"]["ty"]
            if not (fr in WIDTH and to in WIDTH and WIDTH[to] < WIDTH[fr]) or to.startswith("i") or fr.startswith("i"):
                continue
            n += 1
            S = S or T.Slicer(b, P)
            ax = ax or A.Ctx(P, b)
            fk = "%s/%s" % (b.crate.replace("huginn_net_", "").replace("huginn_net", "unified"), T.short(b.path))
            conv = "%s->%s" % (fr, to)
            term = S.operand(s["r"]["o"], i, j)
            ok = False
            try:
                g = ax.graph_at(i)
                node, off = ax.lin(term, g)
                ok = g.le(node, A.ZERO, (1 << WIDTH[to]) - 1 - off)
            except Exception:
                ok = False
            key = "%s:narrow:%s" % (fk, conv)
            if ok:
                ctx.ok(rule, key, "operand proven <= %d at the conversion" % ((1 << WIDTH[to]) - 1), ctx.loc(b, i))
            elif (fk, conv) in reviewed or (_encl(fk), conv) in by_encl:
                # a reviewed site is identified by the named function that encloses it: the conversion may sit in a closure of that
                # function on one tree and in the function itself on another (`.ok().map(|d| d as u64)` <-> `.ok()?` + cast)
                e_ = reviewed.get((fk, conv)) or by_encl[(_encl(fk), conv)]
                used.add((e_["fn"], conv))
                ctx.ok(rule, key, "reviewed: " + e_["reason"], ctx.loc(b, i))
            else:
                ctx.fail(rule, key, "%s converts a %s to %s without a bound that shows it fits (and the site is not reviewed): larger values wrap modulo 2^%d, so a "
                         "different quantity is printed / compared than the one that was measured" % (T.short(b.path), fr, to, WIDTH[to]), ctx.loc(b, i))
    return n
