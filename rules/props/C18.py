"""C18 - Dispatch keeps connections together and accounts for every packet exactly once.

Structural clauses decided:
 R1 every worker index handed out is reduced modulo the worker count (or the sender is fetched with a checked `get`)
 R2 on non-fallback paths the hashed values are identity bytes only (addresses; ports read at the TCP header start, i.e.
    IHL*4 / 40 bytes behind the IP header): TCP = source address, TLS = directed 4-tuple, HTTP = the 4-tuple ordered by a total
    order on (address, port)
 R3 per-path effects of the three `dispatch` bodies match the returned outcome (Queued/Dropped, counters, single try_send)
 R4 the drop / dispatch counters are written only by `dispatch`
 R5 `stats` reports exactly those counters
 R6 a worker never takes a packet off its queue without pushing it to the batch / processing it (queued => analysed)
 R2 (also) the whole-frame fallback hash is taken only when the frame is strictly shorter than the header or the IP version is unknown;
    the per-version helpers are handed the frame without its link header
 R6 (also) every round empties the batch it processed, in arrival order
"""
from ..engine import cfg as C
from ..engine import paths as PA
from ..engine import q as Q
from ..engine import tables as TB
from ..engine import terms as T
from ..engine.facts import AnchorMissing, callee_of
from . import _flowid as FI

EXPLANATION = ("Return tables of the packet_hash functions (every return reduced mod n), origin slices of all Hash::hash inputs "
               "classified into identity roles by constant header offsets, acyclic path enumeration of dispatch with the multiset "
               "of counter/try_send effects per path, who-may-write check of AtomicU64::fetch_add in parallel.rs, origins of PoolStats fields.")
TRUSTED = ["crossbeam try_send: Ok = enqueued exactly once, Err = not enqueued", "checked_rem(x, n).unwrap_or(0) < n for n > 0",
           "std DefaultHasher is a function of the bytes fed to it"]
DECLINED = ["linearizability of the relaxed atomic counters under concurrent dispatchers", "the Ethernet-vs-raw framing heuristic (value level)",
            "analysed-exactly-once on the worker side beyond FIFO/forwarding rules of C10"]
ASSUMPTIONS = ["paths taken when the shutdown flag is set are outside the property's quantifier (`before shutdown`)"]

CRATES = {"huginn_net_tcp": "tcp", "huginn_net_http": "http", "huginn_net_tls": "tls"}


def _dispatch(P, crate):
    c = [b for b in P.method("WorkerPool", "dispatch") if b.crate == crate]
    if len(c) != 1:
        raise AnchorMissing("%s WorkerPool::dispatch: %d bodies" % (crate, len(c)))
    return c[0]


def rule_R1(ctx):
    P = ctx.program
    n = 0
    for crate in ("huginn_net_http", "huginn_net_tls"):
        for fn in ("hash_flow", "hash_ipv4_flow", "hash_ipv6_flow", "fallback_hash"):
            path = "%s::packet_hash::%s" % (crate, fn)
            if path not in P.bodies:
                if fn == "fallback_hash" and crate == "huginn_net_tls":
                    continue
                ctx.cannot("R1", path, "function not found")
                continue
            b = P.bodies[path]
            sites = TB.return_sites(b, P)
            for (blk, j, term, conds) in sites:
                n += 1
                inst = "%s@L%s" % (T.short(path), _kind(term))
                ok, why = _reduced(term, crate)
                ctx.check(ok, "R1", "%s:%s" % (path.split("::", 1)[1], _kind(term)), why,
                          "a worker index is returned without reduction modulo the worker count: %s" % T.pp(term)[:160], ctx.loc(b, blk))
    # tcp reduces in dispatch
    b = _dispatch(P, "huginn_net_tcp")
    S = T.Slicer(b, P)
    idx = Q.calls(b, "ops::Index")
    sends = Q.calls(b, "try_send")
    okk = False
    for blk, t in sends:
        a = Q.call_args(b, S, blk, t)
        recv = a[0]
        for c in T.calls_in(recv):
            if c[1].endswith("::index") and len(c[2]) == 2:
                i = T.strip(c[2][1])
                ri = Q.reduced_index(i)
                if ri is not None and T.has_call(ri[0], "hash_source_ip") and (ri[2] is None or T.fold_int(ri[2]) == 0) and \
                        any(x[0] == "field" and x[2] == "num_workers" for x in T.walk(ri[1])):
                    okk = True
            if c[1].endswith("::get") and len(c[2]) == 2:
                okk = True
    n += 1
    ctx.check(okk, "R1", "tcp:dispatch:index", "packet_senders[hash % num_workers]",
              "TCP dispatch indexes the sender table without reducing the hash modulo the worker count", ctx.loc(b))
    ctx.floor("R1", "index-producing return sites", n, 14)


def _kind(term):
    t = T.strip(term)
    if t[0] == "call":
        return T.short(t[1]).split("::")[-1] + ("(" + "|".join(sorted(T.short(c[1]).split("::")[-1] for c in T.calls_in(t) if c is not t))[:60] + ")")
    if t[0] == "agg":
        return "%s(%s)" % (t[3], _kind(t[4][0]) if t[4] else "")
    return t[0]


def _reduced(term, crate):
    t = T.strip(term)
    if t[0] == "agg" and t[1] == "adt" and (t[2] or "").endswith("option::Option"):
        if t[3] == "None":
            return True, "None (packet discarded)"
        return _reduced(t[4][0], crate)
    if t[0] == "call":
        c = t[1]
        if c.endswith("::unwrap_or") and T.strip(t[2][1])[0] == "const" and T.strip(t[2][1])[1] == 0:
            inner = T.strip(t[2][0])
            if inner[0] == "call" and inner[1].endswith("::checked_rem"):
                n = T.strip(inner[2][1])
                if n[0] == "param" and n[2] == "num_workers":
                    return True, "checked_rem(_, num_workers).unwrap_or(0)"
        for f in ("hash_ipv4_flow", "hash_ipv6_flow", "fallback_hash"):
            if c.endswith("packet_hash::" + f):
                n = T.strip(t[2][-1])
                if n[0] == "param" and n[2] == "num_workers":
                    return True, "delegates to %s(.., num_workers)" % f
    if t[0] == "binop" and t[1] == "Rem":
        n = T.strip(t[3])
        if n[0] == "param" and n[2] == "num_workers":
            return True, "% num_workers"
    return False, ""


# ---------------------------------------------------------------------------
def rule_R2(ctx):
    P = ctx.program
    n = 0
    want = {
        "huginn_net_tcp": {"src_ip"},
        "huginn_net_tls": {"src_ip", "dst_ip", "src_port", "dst_port"},
        "huginn_net_http": {"src_ip", "dst_ip", "src_port", "dst_port"},
    }
    for crate, fam in CRATES.items():
        fns = ["hash_source_ip"] if fam == "tcp" else ["hash_ipv4_flow", "hash_ipv6_flow"]
        for fn in fns:
            path = "%s::packet_hash::%s" % (crate, fn)
            try:
                b = P.body(path)
            except AnchorMissing as e:
                ctx.cannot("R2", path, str(e))
                continue
            ins = FI.hash_inputs(P, b)
            if not ins:
                ctx.cannot("R2", path, "no hash input found", ctx.loc(b))
                continue
            full = set()
            for blk, term, name in ins:
                rs = FI.roles(term)
                n += 1
                others = sorted(r for r in rs if r.startswith("other"))
                if name.endswith("hash_bytes") and fam != "tcp":
                    # http non-TCP / truncated fallback inside the flow hash: source address only is still identity
                    ctx.check(not others, "R2", "%s:%s:fallback-input" % (fam, fn), "fallback hashes %s" % sorted(rs),
                              "fallback path hashes non-identity bytes %s" % others, ctx.loc(b, blk))
                    continue
                ctx.check(not others and rs <= want[crate], "R2", "%s:%s:input:%s" % (fam, fn, "+".join(sorted(rs)) or "none"),
                          "hash input = %s" % sorted(rs),
                          "worker selection depends on %s, not only on the connection identity %s" % (others or sorted(rs - want[crate]), sorted(want[crate])),
                          ctx.loc(b, blk))
                if not name.endswith("hash_bytes") or fam == "tcp":
                    full |= {r for r in rs if not r.startswith("other")}
            if fam != "tcp":
                ctx.check(full == want[crate], "R2", "%s:%s:covers-identity" % (fam, fn), "all of %s are hashed" % sorted(want[crate]),
                          "flow hash omits %s: different connections of one host pair collapse / or identity is incomplete" % sorted(want[crate] - full), ctx.loc(b))
            else:
                ctx.check(full == {"src_ip"}, "R2", "tcp:%s:source-only" % fn, "sharding key = source address",
                          "TCP sharding key is %s, expected the source address only" % sorted(full), ctx.loc(b))
            if fam == "http":
                _symmetric(ctx, P, b, ins, fn)
    ctx.floor("R2", "hash inputs classified", n, 20)
    # the whole-frame fallback (which does not keep a connection together) is taken only when the identity cannot be read: the frame is
    # strictly shorter than the headers, or the IP version is unknown - a complete minimal header never falls back
    nfb = 0
    for crate, fam in CRATES.items():
        for b in P.bodies.values():
            if b.crate != crate or "::packet_hash::" not in b.path:
                continue
            FS = None
            for blk, t in b.calls():
                if not callee_of(t).endswith("::fallback_hash"):
                    continue
                FS = FS or T.Slicer(b, P)
                nfb += 1
                # every path that reaches this call is judged on its own (several arms may share one fallback call:
                # `4 if len >= 16 => .., 6 if len >= 24 => .., _ => fallback`)
                trails, trunc = PA.enumerate_paths(b, 0, 3000, stop={blk})
                trails = [tr for tr in trails if tr[-1] == blk]
                why = None
                loose = None
                if trunc or not trails:
                    trails = []
                    loose = "too many paths to the fallback call"
                whys = []
                # only branches the call is control dependent on decide that the fallback is taken (a test both of whose outcomes
                # lead here - the Ethernet header probe - is not a reason)
                deciding = PA.deciding_blocks(b, FS, blk)
                for tr in trails:
                    w = None
                    for c in [Q._norm_cmp(x) for x in PA.path_conds(P, b, FS, tr)]:
                        if c[-1] not in deciding:
                            continue
                        o = Q.oriented(c, lambda z: T.has_call(z, "::len"))
                        if o:
                            if o[0] == "Lt":
                                w = "frame shorter than the header"
                                # the bytes demanded beyond the start of the IP header: never more than the identity needs
                                # (IPv6: 40 header bytes + 4 port bytes = 44 is the largest constant requirement there is)
                                bt = T.strip(o[2])
                                k_ = T.fold_int(bt)
                                if k_ is None and bt[0] == "call" and bt[1].endswith(("saturating_add", "wrapping_add", "checked_add")) and len(bt[2]) == 2:
                                    k_ = T.fold_int(bt[2][1]) if T.fold_int(bt[2][1]) is not None else T.fold_int(bt[2][0])
                                if k_ is None and bt[0] == "binop" and bt[1].startswith("Add"):
                                    k_ = T.fold_int(bt[3]) if T.fold_int(bt[3]) is not None else T.fold_int(bt[2])
                                if k_ is not None and k_ > 14 + 44:
                                    loose = "len < %d" % k_
                                elif k_ is not None and k_ > 44 and not (T.fold_int(bt) is not None):
                                    loose = "len < start + %d" % k_
                            elif o[0] == "Le":
                                loose = "len <= %s" % T.pp(T.strip(o[2]))[:30]
                        if c[0] == "int" and isinstance(c[2], tuple):
                            w = w or "unknown IP version"
                        if c[0] == "cmp" and c[1] in ("Ne", "Eq") and T.fold_int(c[3]) in (4, 6):
                            w = w or "unknown IP version"
                    whys.append(w)
                if whys and all(whys):
                    why = " / ".join(sorted(set(whys)))
                ctx.check(why is not None and loose is None, "R2", "%s:%s:fallback@%d" % (fam, T.short(b.path).split("::")[-1], nfb), "fallback hash only when %s" % why,
                          "the whole-frame fallback hash is taken under `%s`: a frame that carries a complete header (exactly the minimum length) is sharded by TTL / id / length "
                          "bytes instead of its connection identity" % (loose or "an unrecognised condition"), ctx.loc(b, blk))
    ctx.floor("R2", "fallback_hash call sites", nfb, 5)
    # the per-version helpers are applied to the IP packet (the frame without its link-layer header) in both arms
    for crate, fam in CRATES.items():
        if fam == "tcp":
            continue
        hb = P.bodies.get("%s::packet_hash::hash_flow" % crate)
        if hb is None:
            ctx.cannot("R2", fam + ":hash_flow:ip-slice", "hash_flow not found")
            continue
        HS = T.Slicer(hb, P)
        # Ethernet framing is recognised by the EtherType alone (bytes 12..14 = 0x0800 / 0x86DD, frame longer than the link header):
        # the decision does not look at any other byte of the frame (a destination MAC starting with 4 or 6 is not an IP version nibble)
        from ..engine import guards as GV
        for i_, j_, s_ in hb.iter_stmts():
            if s_["k"] != "assign" or s_["p"]["pr"] or hb.local_name(s_["p"]["l"]) is None:
                continue
        eth_alts = []
        for l_ in range(hb.arg_count + 1, len(hb.locals)):
            if hb.local_ty(l_) != "usize" or not hb.local_name(l_):
                continue
            defs_ = HS.defs().get(l_, [])
            vals_ = [T.fold_int(HS.def_term(l_, db_, dj_, 0)) for (db_, dj_, full_) in defs_]
            if sorted(v for v in vals_ if v is not None) == [0, 14]:
                for (db_, dj_, full_) in defs_:
                    if T.fold_int(HS.def_term(l_, db_, dj_, 0)) == 14:
                        eth_alts.append((db_, Q.canon_conds(P, T.dom_conds(hb, HS, db_))))
        if not eth_alts:
            ctx.cannot("R2", fam + ":hash_flow:ethernet-test", "the local choosing between offset 14 and 0 was not found", ctx.loc(hb))
        for (db_, conds_) in eth_alts:
            foreign = []
            work = list(conds_)
            seen_blocks = set()
            while work:
                c = work.pop(0)
                if c[0] == "bool" and T.strip(c[1])[0] == "phi" and c[-1] is not None and c[-1] not in seen_blocks:
                    # a flag assigned in match arms (`matches!((b12, b13), (0x08, 0x00) | (0x86, 0xDD))`): judge the tests that set it
                    seen_blocks.add(c[-1])
                    inner = Q.canon_conds(P, T.decision_inputs(hb, HS, c[-1]))
                    if inner:
                        work.extend(inner)
                        continue
                if c[0] == "int":
                    idx = [T.fold_int(x[2]) for x in T.walk(c[1]) if x[0] == "index"]
                    if idx and all(k in (12, 13) for k in idx):
                        continue
                    foreign.append("a switch on %s" % T.pp(c[1])[:30])
                    continue
                if c[0] == "cmp":
                    subs = [c[2], c[3]]
                    idx = [T.fold_int(x[2]) for y in subs for x in T.walk(y) if x[0] == "index"]
                    is_len = any(T.has_call(y, "::len") for y in subs) and not idx
                    if is_len or (idx and all(k in (12, 13) for k in idx)):
                        continue
                    foreign.append("a test of %s" % (("byte %s" % sorted(set(idx))) if idx else T.pp(c[2])[:30]))
                elif c[0] == "bool" and T.strip(c[1])[0] == "const":
                    continue
                else:
                    # any other condition (a flag computed elsewhere, an Option test, a helper call) is not the EtherType test
                    foreign.append("`%s`" % T.pp(c[1])[:40])
            ctx.check(not foreign, "R2", fam + ":hash_flow:ethernet-test", "Ethernet framing decided by the frame length and the EtherType bytes 12, 13 only",
                      "whether hash_flow skips a 14-byte Ethernet header also depends on %s: Ethernet frames for which that test goes the other way are read as raw IP, "
                      "the worker is chosen from MAC / EtherType / TOS bytes and one connection is spread over several workers" % sorted(set(foreign)), ctx.loc(hb, db_))
        for blk, t in hb.calls():
            nm = callee_of(t).rsplit("::", 1)[-1]
            if nm not in ("hash_ipv4_flow", "hash_ipv6_flow"):
                continue
            a = Q.call_args(hb, HS, blk, t)
            sr = FI.slice_range(a[0])
            okslice = sr is not None and sr[0] == "from" and T.strip(sr[3])[0] == "param" and any(T.fold_int(x) == 14 for x in (T.walk(sr[1])) if x[0] == "const")
            ctx.check(okslice, "R2", "%s:hash_flow:%s:ip-slice" % (fam, nm), "%s(&packet[ip_start..])" % nm,
                      "%s is handed %s instead of the frame without its link header: for Ethernet frames the helper reads its offsets 14 bytes early and the chosen worker "
                      "depends on MAC / length / hop-limit bytes" % (nm, T.pp(T.strip(a[0]))[:60]), ctx.loc(hb, blk))


def _symmetric(ctx, P, b, ins, fn):
    """HTTP: both directions of a connection must hash identically."""
    main = [(blk, t) for blk, t, name in ins if not name.endswith("hash_bytes")]
    bad = []
    for blk, t in main:
        rs = {r for r in FI.roles(t)}
        for a, c in (("src_ip", "dst_ip"), ("src_port", "dst_port")):
            if (a in rs) != (c in rs):
                bad.append((blk, sorted(rs)))
    # the selection must be decided by comparing the two endpoints (or use a commutative combination)
    S = T.Slicer(b, P)
    cmp_ok = False
    cmp_roles = set()
    for blk in sorted(b.reachable):
        be = T.branch_edges(b, S, blk)
        if be is None:
            continue
        atom, labels = be
        rs = set()
        for x in T.walk(atom):
            rs |= {r for r in FI.roles(x) if not r.startswith("other")} if x[0] in ("call",) and (FI.slice_range(x) or x[1].endswith("from_be_bytes")) else set()
        cmp_roles |= rs
    # the order of the two endpoints must be total on (address, port): comparing the addresses alone leaves connections between
    # two ports of one host (loopback, same-host proxies) direction dependent
    if {"src_ip", "dst_ip", "src_port", "dst_port"} <= cmp_roles:
        cmp_ok = True
    partial = sorted(cmp_roles) if cmp_roles and not cmp_ok else None
    commutative = all(any(x[0] == "binop" and x[1] in ("BitXor", "BitOr", "Add") for x in T.walk(T.strip(t))) or
                      any(x[0] == "call" and (x[1].endswith("::min") or x[1].endswith("::max")) for x in T.walk(T.strip(t))) for _, t in main)
    ok = not bad and (cmp_ok or commutative)
    ctx.check(ok, "R2", "http:%s:direction-symmetric" % fn,
              "every hashed value is selected symmetrically from the two endpoints",
              "the HTTP flow hash feeds the *directed* tuple to the hasher (%s): request and response of one connection are dispatched to "
              "different workers, so responses are never matched to their flow in parallel mode" % (
                  bad[0][1] if bad else ("the endpoints are ordered by comparing only %s: connections whose endpoints tie on that (two ports of one address) "
                                         "are hashed in packet direction" % partial) if partial else "no endpoint comparison"),
              ctx.loc(b, bad[0][0]) if bad else ctx.loc(b))


# ---------------------------------------------------------------------------
COUNTERS = ("dispatched_count", "dropped_count", "worker_dropped")


def _effects_on_path(b, trail, P):
    ps = PA.PathSlicer(b, trail, P)
    eff = []
    for k, blk in enumerate(trail):
        t = b.blocks[blk]["t"]
        if t["k"] != "call":
            continue
        if k + 1 < len(trail) and t.get("target") != trail[k + 1]:
            continue
        name = callee_of(t)
        if Q.in_tracing(t["span"]):
            continue
        n = len(b.blocks[blk]["s"])
        ps.at(k)
        if name.endswith("::fetch_add") or name.endswith("::fetch_sub") or (name.endswith("::store") and "Atomic" in name):
            recv = ps.operand(t["args"][0], blk, n)
            flds = [x[2] for x in T.walk(recv) if x[0] == "field" and isinstance(x[2], str)]
            which = [f for f in flds if f in COUNTERS]
            eff.append(("count", which[0] if which else "?", blk, recv))
        elif name.endswith("::try_send") or name.endswith("::send") and "crossbeam" in name:
            eff.append(("try_send", None, blk, None))
    return eff


def rule_R3(ctx):
    P = ctx.program
    for crate, fam in CRATES.items():
        try:
            b = _dispatch(P, crate)
        except AnchorMissing as e:
            ctx.cannot("R3", fam + ":dispatch", str(e))
            continue
        trails, trunc = PA.enumerate_paths(b, 0, 20000, loop_once=False)
        if trunc:
            ctx.cannot("R3", fam + ":dispatch", "too many paths", ctx.loc(b))
            continue
        S = T.Slicer(b, P)
        npaths = 0
        seen_out = set()
        for tr in trails:
            ps = PA.PathSlicer(b, tr, P)
            # path conditions
            shutdown = False
            send_ok = None
            hash_some = None
            infeasible = False
            for k in range(len(tr) - 1):
                if b.blocks[tr[k]]["t"]["k"] != "switch":
                    continue
                ps.at(k)
                be = T.branch_edges(b, ps, tr[k])
                if be is None:
                    continue
                atom, labels = be
                lab = labels.get(tr[k + 1])
                for c in Q.canon_cond(P, atom, lab, tr[k]):
                    if c[0] == "bool" and c[1][0] == "call" and c[1][1].endswith("::load") and "shutdown_flag" in T.pp(c[1]):
                        if c[2] is True:
                            shutdown = True
                    if c[0] == "variant" and T.has_call(c[1], "try_send"):
                        if c[2] == "Ok":
                            send_ok = c[3]
                        elif c[2] == "Err":
                            send_ok = not c[3]
                        elif c[2] in ("Full", "Disconnected"):
                            send_ok = False
                    if c[0] == "variant_in" and T.has_call(c[1], "try_send"):
                        if "Ok" in c[2]:
                            send_ok = True if len(c[2]) == 1 else send_ok
                        else:
                            send_ok = False
                    if c[0] == "variant" and c[1][0] == "call" and c[1][1].endswith("::hash_flow"):
                        hash_some = (c[2] == "Some") == c[3]
            if shutdown:
                continue
            ps.at(len(tr) - 1)
            ret = ps.local(0, tr[-1], len(b.blocks[tr[-1]]["s"]))
            out = ret[3] if ret[0] == "agg" else "?"
            eff = _effects_on_path(b, tr, P)
            nsend = sum(1 for e in eff if e[0] == "try_send")
            cnt = {c: sum(1 for e in eff if e[0] == "count" and e[1] == c) for c in COUNTERS}
            unknown = [e for e in eff if e[0] == "count" and e[1] == "?"]
            npaths += 1
            key = "%s:dispatch:%s:send=%d%s" % (fam, out, nsend, "" if send_ok is None else (":ok" if send_ok else ":err"))
            problems = []
            if unknown:
                problems.append("an atomic counter that is not one of %s is modified" % (COUNTERS,))
            if nsend > 1:
                problems.append("try_send called %d times on one path" % nsend)
            if out == "Queued":
                if nsend != 1 or send_ok is not True:
                    problems.append("Queued is returned without a successful try_send (calls=%d, ok=%s)" % (nsend, send_ok))
                if cnt["dropped_count"] or cnt["worker_dropped"]:
                    problems.append("Queued path increments drop counters %s" % cnt)
            elif out == "Dropped":
                if nsend == 1 and send_ok is True:
                    problems.append("Dropped is returned although try_send succeeded (the packet will be analysed)")
                if cnt["dropped_count"] != 1:
                    problems.append("Dropped path increments dropped_count %d times (expected exactly once)" % cnt["dropped_count"])
                if nsend == 1 and cnt["worker_dropped"] != 1:
                    problems.append("a worker was selected but worker_dropped is incremented %d times" % cnt["worker_dropped"])
                if nsend == 0 and cnt["worker_dropped"] != 0:
                    problems.append("worker_dropped incremented without a selected worker")
            else:
                problems.append("path returns neither Queued nor Dropped: %s" % T.pp(ret))
            # dispatched_count: per-crate documented meaning
            d = cnt["dispatched_count"]
            if fam == "tcp":
                if d != (1 if out == "Queued" else 0):
                    problems.append("tcp dispatched_count must be +1 iff queued (got +%d on a %s path)" % (d, out))
            elif fam == "tls":
                exp = 0 if hash_some is False else 1
                if d != exp:
                    problems.append("tls dispatched_count must be +1 iff a flow hash exists (got +%d, hash=%s)" % (d, hash_some))
            else:
                if d != 1:
                    problems.append("http dispatched_count must be +1 on every non-shutdown path (got +%d)" % d)
            seen_out.add(out)
            if problems:
                ctx.fail("R3", key, "; ".join(problems), ctx.loc(b, tr[-1]))
            else:
                ctx.ok("R3", key, "effects %s consistent with outcome %s" % ({k: v for k, v in cnt.items() if v}, out), ctx.loc(b, tr[-1]))
        ctx.check({"Queued", "Dropped"} <= seen_out, "R3", fam + ":dispatch:outcomes", "%d non-shutdown paths, outcomes %s" % (npaths, sorted(seen_out)),
                  "dispatch no longer has both outcomes: %s" % sorted(seen_out), ctx.loc(b))
        # worker_dropped index = the selected worker
        idxs = []
        for blk, t in Q.calls(b, "fetch_add"):
            a = Q.call_args(b, S, blk, t)
            if "worker_dropped" in T.pp(a[0]):
                for c in T.calls_in(a[0]):
                    if c[1].endswith("::index") and len(c[2]) == 2:
                        idxs.append(T.strip(c[2][1]))
        sel = []
        for blk, t in Q.calls(b, "try_send"):
            a = Q.call_args(b, S, blk, t)
            for c in T.calls_in(a[0]):
                if (c[1].endswith("::index") or c[1].endswith("::get")) and len(c[2]) == 2:
                    sel.append(T.strip(c[2][1]))
            # `senders.get(i)` matched as Some reads element i (terms.field renders it as an index read)
            for x in T.walk(a[0]):
                if x[0] == "index" and T.strip(x[2]) not in sel:
                    sel.append(T.strip(x[2]))
        ctx.check(bool(idxs) and bool(sel) and all(i == sel[0] for i in idxs), "R3", fam + ":dispatch:per-worker-index",
                  "worker_dropped is indexed by the selected worker id", "worker_dropped is indexed by %s but the packet was sent to worker %s" % (
                      [T.pp(i)[:40] for i in idxs], [T.pp(i)[:40] for i in sel]), ctx.loc(b))


def rule_R4(ctx):
    P = ctx.program
    n = 0
    for crate, fam in CRATES.items():
        for b in P.bodies.values():
            if b.crate != crate or not b.file.endswith("parallel.rs"):
                continue
            for blk, t in b.calls():
                name = callee_of(t)
                if ("AtomicU64" in name or "Atomic::<u64>" in name) and (name.endswith("::fetch_add") or name.endswith("::fetch_sub") or name.endswith("::store") or name.endswith("::swap")):
                    n += 1
                    owner = b.path.split("::{closure")[0]
                    ok = owner.endswith("WorkerPool::dispatch")
                    ctx.check(ok, "R4", "%s:%s" % (fam, T.short(owner)), "counter written in dispatch",
                              "%s modifies a statistics counter outside dispatch: a packet already reported `Queued` (and analysed) is later counted "
                              "as dropped, so PoolStats disagrees with the outcomes dispatch returned" % T.short(owner), ctx.loc(b, blk))
    ctx.floor("R4", "AtomicU64 write sites in parallel.rs", n, 9)


def rule_R5(ctx):
    P = ctx.program
    for crate, fam in CRATES.items():
        c = [b for b in P.method("WorkerPool", "stats") if b.crate == crate]
        if len(c) != 1:
            ctx.cannot("R5", fam + ":stats", "stats body not found")
            continue
        b = c[0]
        S = T.Slicer(b, P)
        aggs = Q.aggregates(b, "PoolStats")
        if len(aggs) != 1:
            ctx.cannot("R5", fam + ":stats", "PoolStats construction not found", ctx.loc(b))
            continue
        i, j, s = aggs[0]
        f = dict(zip(s["r"]["fields"], s["r"]["ops"]))
        for fld, ctr in (("total_dispatched", "dispatched_count"), ("total_dropped", "dropped_count")):
            t = S.operand(f[fld], i, j)
            ok = t[0] == "call" and t[1].endswith("::load") and ctr in T.pp(t) and not any(o in T.pp(t) for o in COUNTERS if o != ctr)
            ctx.check(ok, "R5", "%s:stats:%s" % (fam, fld), "%s = self.%s.load()" % (fld, ctr),
                      "%s is reported from %s" % (fld, T.pp(t)[:80]), ctx.loc(b, i))
        # per worker
        okw = False
        for bb in [b] + P.closures_of(b.path):
            SS = T.Slicer(bb, P)
            for (i2, j2, s2) in Q.aggregates(bb, "WorkerStats"):
                ff = dict(zip(s2["r"]["fields"], s2["r"]["ops"]))
                t = T.expand_upvars(P, bb, SS.operand(ff["dropped"], i2, j2))
                # read by index (`self.worker_dropped[id]`) or as the element of an iteration over `worker_dropped` zipped with the senders
                if T.has_call(t, "::load") and ("worker_dropped" in T.pp(t) or any(x[0] == "field" and x[2] == "worker_dropped" for x in T.walk(t))) \
                        and not any(x[0] == "field" and x[2] in ("dropped_count", "dispatched_count") for x in T.walk(t)):
                    okw = True
        ctx.check(okw, "R5", fam + ":stats:worker-dropped", "WorkerStats.dropped = self.worker_dropped[id].load()",
                  "per-worker drop statistic is not read from worker_dropped", ctx.loc(b))


def rule_R6(ctx):
    """a packet that was reported Queued is analysed: the worker never takes a packet off its queue without handing it on"""
    from . import _workers as W
    P = ctx.program
    for crate, fam in (("huginn_net_tcp", "tcp"), ("huginn_net_http", "http"), ("huginn_net_tls", "tls")):
        c = [b for b in P.method("WorkerPool", "worker_loop") if b.crate == crate]
        if len(c) != 1:
            ctx.cannot("R6", fam + ":worker_loop", "%d worker_loop bodies in %s" % (len(c), crate))
            continue
        W.received_consumed(ctx, P, fam, c[0], "R6")
        W.batch_complete(ctx, P, fam, c[0], "R6")


def rule_once(ctx):
    """R6: a queued packet is analysed once: every round empties the batch it processed, in arrival order"""
    from . import _workers as W
    for crate, fam in (("huginn_net_tcp", "tcp"), ("huginn_net_http", "http"), ("huginn_net_tls", "tls")):
        W.fifo_batch(ctx, ctx.program, crate, fam, "R6")


def rule_distinct_counters(ctx):
    """R4: per-worker statistics are per worker: a vector of shared handles (`Arc`, `Rc`) is never built by repeating one handle
    (`vec![Arc::new(x); n]` clones the handle n times - every slot is the same counter); each slot gets its own allocation"""
    P = ctx.program
    n = 0
    for b in P.bodies.values():
        if b.crate not in CRATES or not b.blocks:
            continue
        for blk, t in b.calls():
            nm = callee_of(t)
            if nm.endswith("vec::from_elem") or nm.endswith("::resize") or nm.endswith("iter::repeat") or nm.endswith("repeat_n"):
                n += 1
                sub = " ".join(t.get("substs") or [])
                shared = "Arc<" in sub or "Rc<" in sub
                if nm.endswith("::resize") or "repeat" in nm:
                    S_ = T.Slicer(b, P)
                    a = Q.call_args(b, S_, blk, t)
                    shared = any(x[0] == "call" and x[1].endswith(("Arc::<T>::new", "Rc::<T>::new")) for y in a for x in T.walk(y))
                ctx.check(not shared, "R4", "distinct-slots:%s:%s" % (CRATES[b.crate], T.short(b.path).split("::")[-1]),
                          "repeated value is not a shared handle",
                          "%s builds a vector by repeating one shared handle (%s): all workers share a single counter / channel, so a drop or dispatch charged to one "
                          "worker is charged to all of them and the per-worker figures no longer add up to the totals" % (T.short(b.path), sub[:60]), ctx.loc(b, blk))
    ctx.extra["repeat_sites"] = n


def rule_pool_size(ctx):
    """R1: dispatch reduces the hash modulo `num_workers` and indexes the sender table with it: the table built by WorkerPool::new has
    exactly that many entries - the spawn loop runs over 0..n for the very n that is stored as `num_workers` (no clamp, no other bound on
    one of the two)"""
    P = ctx.program
    n = 0
    for crate, fam in CRATES.items():
        bs = [x for x in P.bodies.values() if x.crate == crate and x.path.endswith("parallel::WorkerPool::new")]
        if len(bs) != 1:
            ctx.cannot("R1", fam + ":pool-size", "%d WorkerPool::new bodies" % len(bs))
            continue
        b = bs[0]
        S = T.Slicer(b, P)
        ags = Q.aggregates(b, "WorkerPool")
        if len(ags) != 1:
            ctx.cannot("R1", fam + ":pool-size", "WorkerPool construction not found", ctx.loc(b))
            continue
        i, j, s_ = ags[0]
        f = dict(zip(s_["r"]["fields"], s_["r"]["ops"]))
        stored = T.strip(S.operand(f["num_workers"], i, j))

        def core(t):
            t = T.strip(t)
            while (t[0] == "call" and t[1].rsplit("::", 1)[-1] in ("get",) and "NonZero" in t[1] and t[2]) or t[0] == "cast":
                t = T.strip(t[2][0] if t[0] == "call" else t[2])
            return t
        ends = []
        for bi, bj, st in b.iter_stmts():
            r = st.get("r") or {}
            if r.get("k") == "agg" and (r.get("path") or "").endswith("ops::Range") and len(r["ops"]) == 2:
                t = S.rvalue(r, bi, bj)
                if T.fold_int(t[4][0]) == 0:
                    ends.append((bi, t[4][1]))
        pushes = [blk for blk, t in Q.calls(b, "Vec::<T, A>::push")]
        n += 1
        ok = bool(ends) and all(core(e) == core(stored) for _, e in ends) and bool(pushes)
        ctx.check(ok, "R1", fam + ":pool-size", "senders are created for 0..num_workers, the value stored in the pool",
                  "WorkerPool::new creates workers for 0..%s but stores num_workers = %s: dispatch reduces modulo the stored value and indexes a sender that does "
                  "not exist (a panic in dispatch, or packets of some connections never accounted for)" % ([T.pp(e)[:40] for _, e in ends], T.pp(stored)[:40]), ctx.loc(b))
    ctx.floor("R1", "WorkerPool::new bodies with a sized sender table", n, 3)


def rule_workers_keep_running(ctx):
    """R6: a packet reported Queued is analysed only if the worker it was queued for is still there: no packet ends a worker's service
    loop (shared with C01.R7)"""
    from ..engine import report as R
    from . import C01
    C01.rule_liveness(R.Retag(ctx, "C01."))


def run(ctx):
    rule_workers_keep_running(ctx)
    rule_pool_size(ctx)
    rule_distinct_counters(ctx)
    rule_once(ctx)
    rule_R6(ctx)
    rule_R1(ctx)
    rule_R2(ctx)
    rule_R3(ctx)
    rule_R4(ctx)
    rule_R5(ctx)
