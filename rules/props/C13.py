"""C13 - Every bundled signature is reachable by the traffic it describes.

Structural clauses decided:
 R1 form-pair coverage: every (extractor-constructible, parser-constructible) pair of window / TTL forms that
    overlaps (tables/spec_tables.json) is routed to an accepting arm of the distance function, never to `None`
 R2 request observations are looked up in the request tables, response observations in the response tables
    (matchers and the per-protocol result builders)
 prerequisites evaluated here as well: C02.R1/R2 (index transparency), C03.R2/R2b (quirks), C03.R7 (window forms),
 C12.R9 (optional headers), C12.R10 (exact-match relations)
 further prerequisites: C06.R1/R2 (signatures load under the tokens the extractor prints), C20.R5 (a matcher exists whenever protocol
 and matching are enabled), TW (IPv4/IPv6 twins query the same tables)
"""
import json
import os

from ..engine import grammar as G
from ..engine import paths as PA
from ..engine import q as Q
from ..engine import terms as T
from ..engine.facts import VERIF, AnchorMissing, callee_of

EXPLANATION = ("Pair tables of Ttl::distance_ttl and WindowSize::distance_window_size are recovered by enumerating the acyclic paths "
               "of their match and intersecting the discriminant constraints on (observed, signature); the observed forms come from "
               "the variants constructed by calculate_ttl / detect_win_multiplicator, the signature forms from the nom grammar. "
               "Routing rules follow the receiver field of find_best_match and the observable passed to each matcher.")
TRUSTED = ["tables/spec_tables.json (reviewed overlap tables, one reason per pair)", "nom combinator semantics"]
DECLINED = ["per-signature reachability over all conforming traffic (needs synthesis and execution)",
            "HTTP header-list abstraction vs signature lists"]
ASSUMPTIONS = ["p0f `n-` TTL means maximum initial TTL of a randomising stack (p0f README section 5)"]
EXHAUSTIVE = True


def _spec():
    with open(os.path.join(VERIF, "tables", "spec_tables.json")) as fh:
        return json.load(fh)


def constructed_variants(P, body, enum_path):
    out = set()
    for i, j, s in Q.aggregates(body, enum_path):
        out.add(s["r"]["variant"])
    return out


def pair_table(P, body, enum_path):
    """{(self_variant, other_variant): set of results ('Some'|'None')} from acyclic path enumeration."""
    variants = P.variants(enum_path)
    trails, trunc = PA.enumerate_paths(body, 0, 20000, loop_once=False)
    if trunc:
        raise AnchorMissing("too many paths in " + body.path)
    S = T.Slicer(body, P)
    table = {}
    edge_cache = {}
    for tr in trails:
        cons = {0: set(variants), 1: set(variants)}
        for k in range(len(tr) - 1):
            a = tr[k]
            if a not in edge_cache:
                edge_cache[a] = T.branch_edges(body, S, a)
            be = edge_cache[a]
            if be is None:
                continue
            atom, labels = be
            if atom[0] != "variant":
                continue
            pl = T.strip(atom[1])
            if pl[0] != "param" or pl[1] not in (0, 1):
                continue
            lab = labels.get(tr[k + 1])
            if isinstance(lab, str):
                cur = {lab}
            elif isinstance(lab, tuple) and lab and lab[0] == "else":
                cur = set(lab[1])
            elif isinstance(lab, tuple) and lab and lab[0] == "anyof":
                cur = {x for x in lab[1] if isinstance(x, str)}
            else:
                continue
            cons[pl[1]] &= cur
        # result
        res = None
        for blk in reversed(tr):
            for s in reversed(body.blocks[blk]["s"]):
                if s["k"] == "assign" and s["p"]["l"] == 0 and not s["p"]["pr"] and s["r"]["k"] == "agg":
                    res = s["r"]["variant"]
                    break
            if res:
                break
        if res is None:
            res = "?"
        for e in cons[0]:
            for d in cons[1]:
                table.setdefault((e, d), set()).add(res)
    return table


def rule_R1(ctx):
    P = ctx.program
    spec = _spec()
    cases = [
        ("WindowSize", "huginn_net_db::tcp::WindowSize", "distance_window_size", "huginn_net_tcp::window_size::detect_win_multiplicator",
         "parse_window_size", spec["window_form_pairs"]["required"]),
        ("Ttl", "huginn_net_db::tcp::Ttl", "distance_ttl", "huginn_net_tcp::ttl::calculate_ttl", "parse_ttl",
         spec["ttl_form_pairs"]["required"]),
    ]
    npairs = 0
    for short, enum, dist, extractor, parser, required in cases:
        try:
            db = P.method1(short, dist)
            ex = P.body(extractor)
            E = constructed_variants(P, ex, enum)
            pb = P.fn("db_parse::" + parser)
            alts = G.alternatives(P, G.parser_grammar(P, pb))
            D = set()
            for pieces, vs in alts:
                D |= {v for (e, v) in vs if e == enum}
            table = pair_table(P, db, enum)
        except AnchorMissing as e:
            ctx.cannot("R1", short, str(e))
            continue
        ctx.extra.setdefault("pair_tables", {})[short] = {"%s,%s" % k: sorted(v) for k, v in sorted(table.items())}
        ctx.ok("R1", short + ":forms", "extractor constructs %s; parser constructs %s" % (sorted(E), sorted(D)), ctx.loc(ex))
        req = {(e, d): why for (e, d, why) in required}
        # every extractor form must be covered by the reviewed table (fail closed on a new form)
        for e in sorted(E):
            if not any(k[0] == e for k in req):
                ctx.cannot("R1", "%s:new-observed-form:%s" % (short, e), "extractor now constructs %s::%s which the reviewed overlap table does not cover" % (short, e), ctx.loc(ex))
        for (e, d), why in sorted(req.items()):
            if e not in E or d not in D:
                ctx.ok("R1", "%s:(%s,%s)" % (short, e, d), "pair not constructible (observed form %s, signature form %s)" % (e in E, d in D))
                continue
            npairs += 1
            res = table.get((e, d), set())
            if res == {"Some"}:
                ctx.ok("R1", "%s:(%s,%s)" % (short, e, d), "accepted arm; overlap: " + why, ctx.loc(db))
            elif "None" in res and "Some" not in res:
                ctx.fail("R1", "%s:(%s,%s)" % (short, e, d),
                         "observed %s::%s against signature %s::%s always yields None (signature unmatchable) although the forms overlap: %s"
                         % (short, e, short, d, why), ctx.loc(db))
            else:
                ctx.cannot("R1", "%s:(%s,%s)" % (short, e, d), "mixed/unknown results %s" % sorted(res), ctx.loc(db))
    ctx.floor("R1", "constructible overlapping form pairs", npairs, 17)


def rule_R2(ctx):
    P = ctx.program
    want = {
        ("huginn_net_tcp", "matching_by_tcp_request"): "tcp_request",
        ("huginn_net_tcp", "matching_by_tcp_response"): "tcp_response",
        ("huginn_net_http", "matching_by_http_request"): "http_request",
        ("huginn_net_http", "matching_by_http_response"): "http_response",
    }
    n = 0
    for (crate, name), field in want.items():
        bs = [b for b in P.bodies.values() if b.crate == crate and b.name == name and b.kind == "AssocFn"]
        if len(bs) != 1:
            ctx.cannot("R2", "%s::%s" % (crate, name), "%d bodies" % len(bs))
            continue
        b = bs[0]
        S = T.Slicer(b, P)
        cs = Q.calls(b, "find_best_match")
        if len(cs) != 1:
            ctx.cannot("R2", "%s::%s" % (crate, name), "expected one find_best_match call", ctx.loc(b))
            continue
        blk, t = cs[0]
        args = Q.call_args(b, S, blk, t)
        fp = Q.field_path(args[0])
        obs = Q.field_path(args[1])
        n += 1
        ok = fp is not None and fp[0] == 0 and fp[1][-1] == field and obs is not None and obs[0] == 1 and obs[1] == ["matching"]
        ctx.check(ok, "R2", "%s::%s" % (crate, name), "self.database.%s.find_best_match(&signature.matching)" % field,
                  "%s looks the observation up in `%s` (expected the `%s` table) with %s" % (
                      name, ".".join(fp[1]) if fp else "?", field, T.pp(args[1])), ctx.loc(b, blk))
    ctx.floor("R2", "matcher methods", n, 4)
    # callers: the SYN observable goes to the request matcher, SYN+ACK to the response matcher (tcp, http, unified)
    m = 0
    pairs = [("matching_by_tcp_request", "tcp_request"), ("matching_by_tcp_response", "tcp_response"),
             ("matching_by_http_request", "http_request"), ("matching_by_http_response", "http_response")]
    for b in P.bodies.values():
        if b.crate not in ("huginn_net_tcp", "huginn_net_http", "huginn_net"):
            continue
        S = None
        for blk, t in b.calls():
            nm = callee_of(t).rsplit("::", 1)[-1]
            for (meth, fld) in pairs:
                if nm != meth:
                    continue
                if S is None:
                    S = T.Slicer(b, P)
                args = Q.call_args(b, S, blk, t)
                src = T.expand_upvars(P, b, args[1])
                fields = [x[2] for x in T.walk(src) if x[0] == "field"]
                m += 1
                good = fld in fields and not any(f in fields for (_, f) in pairs if f != fld)
                ctx.check(good, "R2", "caller:%s:%s" % (T.short(b.path), meth),
                          "%s(<..>.%s)" % (meth, fld),
                          "%s is applied to an observable originating from fields %s, expected `%s`" % (meth, sorted(set(fields)), fld), ctx.loc(b, blk))
    ctx.floor("R2", "matcher call sites", m, 8)


def rule_prereq(ctx):
    """necessary conditions shared with other properties, evaluated here as well: a signature is only reachable when optional
    headers are not charged (C12.R9), window forms are derived as the signatures write them (C03.R7) and every quirk is set under
    exactly its defining condition (C03.R2 - quirk lists are compared for equality)"""
    from ..engine import report as R
    from . import C03, C12
    C12.rule_R9(R.Retag(ctx, "C12."))
    C03.rule_R7(R.Retag(ctx, "C03."))
    C03.rule_R2(R.Retag(ctx, "C03."))
    from . import C02
    C02.rule_R1_R2(R.Retag(ctx, "C02."))
    C02.rule_structural_equality(R.Retag(ctx, "C02."))
    C12.rule_R10(R.Retag(ctx, "C12."))
    C12.rule_R12(R.Retag(ctx, "C12."))
    C12.rule_enum_pair_tables(R.Retag(ctx, "C12."), C12._score_tables(R.Retag(ctx, "C12.")))
    C12.rule_components(R.Retag(ctx, "C12."), C12._score_tables(R.Retag(ctx, "C12.")))
    # .. and every component of the signature takes part in the distance (two bundled signatures that differ only in a component the
    # sum forgot are one entry for the matcher: the later one is unreachable)
    C12.rule_R5(R.Retag(ctx, "C12."))
    # signatures are loaded under the tokens the extractor prints (C06.R1/R2), and a matcher exists whenever its protocol and matching are enabled (C20.R5)
    from . import C06, C20
    C06.rule_R1_R2(R.Retag(ctx, "C06."))
    C20.rule_R5(R.Retag(ctx, "C20."))


def rule_twins(ctx):
    """the IPv4 and IPv6 copies of the per-packet functions route sides, roles and lookups identically (shared rule TW)"""
    from . import _twins as TW
    TW.twin_agreement(ctx, ctx.program, "TW", ("huginn_net_tcp", "huginn_net_http"))


def run(ctx):
    rule_twins(ctx)
    rule_prereq(ctx)
    rule_R1(ctx)
    rule_R2(ctx)
