"""C15 - Filtering commutes with analysis: filters remove packets, never change results.

Structural clauses decided:
 R1 on each of the 7 per-packet paths the filter decision precedes every analysis step (no path to an analysis
    callee avoids both `raw_filter::apply` and the `no filter configured` edge)
 R2 a rejected packet is inert: between the `apply == false` edge and the next packet no analysis callee, cache
    operation or result send is reachable, and the value returned is built from constants only
 R3 fail-open: `apply` returns true when nothing can be extracted; otherwise exactly should_process(..)
 R4 an admitted packet continues on the same code as an unfiltered one
 R6 should_process receives (src_ip, dst_ip, src_port, dst_port) of the quick extractor in that order
 R7 the quick extractor reads the endpoints at the IPv4/IPv6/TCP header offsets (RFC 791 / 8200 / 793) in each copy
 R8 in parallel mode every worker is started with a clone of the same filter and every process_packet call site in the
    worker loop passes it
 R9 the three raw_filter.rs copies agree per helper on the constants examined and the byte-order conversions applied; quick
    extractor and full parser try the link-layer interpretations in the same order (Ethernet, raw IP, NULL)
 R9 (also) quick extractor and full parser try the link-layer interpretations in the same order (Ethernet, raw IP, NULL)
 R8 (also) every process_packet call site of the worker loop passes the worker's filter
"""
import re

import json
from ..engine import cfg as C
from ..engine import q as Q
from ..engine import tables as TB
from ..engine import terms as T
from ..engine.facts import AnchorMissing, callee_of

EXPLANATION = ("CFG reachability with the filter call and the `filter is None` edge removed; region analysis of the rejected edge; "
               "return tables of raw_filter::apply; origin slices of should_process arguments down to constant byte offsets of the "
               "quick extractor, compared with the IPv4/IPv6/TCP header layouts.")
TRUSTED = ["Ipv4Addr::new / Ipv6Addr::new / u16::from_be_bytes argument order", "FilterConfig::should_process (decided by C14)"]
DECLINED = ["agreement of the quick decoder and pnet's decoder on every malformed frame (IHL < 5, NULL-datalink family codes, "
            "Ethernet heuristics): two independent byte-level computations, no sound static argument in reach"]
ASSUMPTIONS = ["analysis callees are identified by name: parse_packet, analyze_tcp, process_ipv4_packet/process_ipv6_packet, "
               "process_*_ipv4/ipv6, TtlCache operations, Sender::send"]

PATHS = [
    ("huginn_net_tcp", "HuginnNetTcp", "process_packet"),
    ("huginn_net_http", "HuginnNetHttp", "process_packet"),
    ("huginn_net_tls", "HuginnNetTls", "process_packet"),
    ("huginn_net_tcp", "WorkerPool", "process_packet"),
    ("huginn_net_http", "WorkerPool", "process_packet"),
    ("huginn_net_tls", "WorkerPool", "process_packet"),
    ("huginn_net", "HuginnNet", "process_with"),
]
ANALYSIS = ("parse_packet", "analyze_tcp", "process_ipv4_packet", "process_ipv6_packet", "process_tcp_ipv", "process_http_ipv",
            "process_tls_ipv", "TtlCache", "::send", "SignatureMatcher", "process_tcp_packet", "execute_analysis", "ObservablePackage")


def _is_analysis(t):
    n = callee_of(t)
    return any(a in n for a in ANALYSIS)


def rule_paths(ctx):
    P = ctx.program
    n = 0
    for crate, ty, name in PATHS:
        inst = "%s::%s::%s" % (crate, ty, name)
        try:
            b = [x for x in P.method(ty, name) if x.crate == crate][0]
        except (AnchorMissing, IndexError):
            ctx.cannot("R1", inst, "per-packet function not found")
            continue
        S = T.Slicer(b, P)
        applies = Q.calls(b, "raw_filter::apply")
        if len(applies) != 1:
            ctx.cannot("R1", inst, "expected exactly one raw_filter::apply call, found %d" % len(applies), ctx.loc(b))
            continue
        n += 1
        ablk, at = applies[0]
        # the `filter is None` edge: switch on the discriminant of the filter place the apply argument comes from
        fargs = Q.call_args(b, S, ablk, at)
        none_edges = []
        for blk in sorted(b.reachable):
            be = T.branch_edges(b, S, blk)
            if be is None:
                continue
            atom, labels = be
            if atom[0] != "variant":
                continue
            pl = T.pp(T.strip(atom[1]))
            if "filter" not in pl:
                continue
            for succ, lab in labels.items():
                if lab == "None" or (isinstance(lab, tuple) and lab and lab[0] == "else" and "None" in lab[1]):
                    none_edges.append((blk, succ))
        if not none_edges:
            ctx.cannot("R1", inst, "`filter is None` edge not identified", ctx.loc(b))
            continue
        # R1: reachability from entry avoiding the apply block and the None edges
        seen = {0}
        st = [0]
        while st:
            x = st.pop()
            if x == ablk:
                continue
            for s in b.succs(x):
                if (x, s) in none_edges or s in seen:
                    continue
                seen.add(s)
                st.append(s)
        early = [(i, t) for i, t in b.calls() if i in seen and i != ablk and _is_analysis(t) and not Q.in_tracing(t["span"])]
        # calls *before* the filter on the straight path (in blocks that dominate the apply block) also count
        ctx.check(not early, "R1", inst, "no analysis callee reachable without passing the filter decision",
                  "analysis step %s is reachable before/without the filter decision" % [T.short(callee_of(t)) for _, t in early][:3],
                  ctx.loc(b, early[0][0]) if early else ctx.loc(b, ablk))
        # apply's arguments: the packet parameter and the configured filter
        okargs = any(x[0] == "param" for x in T.walk(fargs[0])) or "packet" in T.pp(fargs[0])
        ctx.check(okargs and "filter" in T.pp(fargs[1]), "R1", inst + ":apply-args", "apply(packet, configured filter)",
                  "raw_filter::apply is not applied to the current packet and the configured filter: (%s, %s)" % (T.pp(fargs[0]), T.pp(fargs[1])), ctx.loc(b, ablk))
        # R2: rejected edge
        tgt = at["target"]
        rej = adm = None
        # the first branch after the call that is decided by its result - directly, or through a local that holds the result on the
        # filtered path and a constant otherwise (`let admitted = match filter { Some(f) => apply(p, f), None => true }; if !admitted`)
        seen_f, todo = set(), [tgt] if tgt is not None else []
        while todo and rej is None:
            x = todo.pop(0)
            if x in seen_f:
                continue
            seen_f.add(x)
            be = T.branch_edges(b, S, x)
            if be is not None:
                atom, labels = be
                alts = list(atom[1]) if atom[0] == "phi" else [atom]
                calls_, consts = [], []
                for a_ in alts:
                    neg_ = False
                    while a_[0] == "unop" and a_[1] == "Not":
                        a_, neg_ = a_[2], not neg_
                    if a_[0] == "call" and "raw_filter::apply" in a_[1]:
                        calls_.append(neg_)
                    elif a_[0] == "const" and isinstance(a_[1], bool):
                        consts.append(a_[1] != neg_)
                if len(calls_) == 1 and len(calls_) + len(consts) == len(alts) and len(set(consts)) <= 1:
                    # the tested value is apply(..) (or its negation) on the filtered path and a constant otherwise: the rejected edge is
                    # the one only apply == false can take
                    rej_label = calls_[0]          # value of the tested boolean when apply returned false
                    if not consts or consts[0] != rej_label:
                        for succ, lab in labels.items():
                            if lab is rej_label:
                                rej = succ
                            elif lab is (not rej_label):
                                adm = succ
                    break
            todo.extend(s_ for s_ in b.succs(x) if s_ not in seen_f)
        if rej is None or adm is None:
            ctx.cannot("R2", inst, "branch on the result of raw_filter::apply not found", ctx.loc(b, ablk))
            continue
        # region reachable from the rejected edge until return or until we loop back to a dominator of the apply block
        region = set()
        st = [rej]
        while st:
            x = st.pop()
            if x in region:
                continue
            if C.dominates(b, x, ablk):
                continue  # back at the loop header / before the filter: next packet
            region.add(x)
            st.extend(b.succs(x))
        eff = [(i, t) for i, t in b.calls() if i in region and _is_analysis(t) and not Q.in_tracing(t["span"])]
        ctx.check(not eff, "R2", inst, "rejected edge reaches return/next packet without analysis, cache or send (%d blocks)" % len(region),
                  "a rejected packet still reaches %s" % [T.short(callee_of(t)) for _, t in eff][:3], ctx.loc(b, eff[0][0]) if eff else None)
        # value returned on the rejected path is built from constants only
        rets = [x for x in region if b.blocks[x]["t"]["k"] == "return"]
        okret = True
        for r in rets:
            from ..engine import paths as PA
            # find one path entry..rej..r to evaluate _0 path-sensitively: use the reaching def restricted to region blocks
            val = None
            for x in sorted(region):
                for j, s in enumerate(b.blocks[x]["s"]):
                    if s["k"] == "assign" and s["p"]["l"] == 0 and not s["p"]["pr"]:
                        val = S.rvalue(s["r"], x, j)
            if val is not None and T.calls_in(val):
                okret = False
        ctx.check(okret, "R2", inst + ":empty-result", "rejected packet yields a constant (empty) result",
                  "the value returned for a rejected packet is computed by calls", ctx.loc(b, rej))
        # R4: admitted edge and the no-filter edge continue at the same analysis code without other effects in between
        def first_analysis(start):
            seen2 = set()
            st2 = [start]
            found = set()
            while st2:
                x = st2.pop()
                if x in seen2:
                    continue
                seen2.add(x)
                t = b.blocks[x]["t"]
                if t["k"] == "call" and _is_analysis(t) and not Q.in_tracing(t["span"]):
                    found.add(x)
                    continue
                st2.extend(b.succs(x))
            return found
        fa = first_analysis(adm)
        fn_ = set()
        for (_, s) in none_edges:
            fn_ |= first_analysis(s)
        # the same analysis call: the same block, or two copies of one source call (a helper holding the analysis, called on both edges)
        def _src(bs_):
            return {(callee_of(b.blocks[x]["t"]), json.dumps(b.blocks[x]["t"].get("span"), sort_keys=True)) for x in bs_}
        ctx.check(fa and (fa == fn_ or _src(fa) == _src(fn_)), "R4", inst, "admitted and unfiltered packets continue at the same analysis call(s) %s" % sorted(fa),
                  "admitted packets continue at blocks %s, unfiltered ones at %s" % (sorted(fa), sorted(fn_)), ctx.loc(b, adm))
    ctx.floor("R1", "per-packet paths with a filter call", n, 7)


def rule_apply(ctx):
    P = ctx.program
    for crate in ("huginn_net_tcp", "huginn_net_http", "huginn_net_tls"):
        inst = crate + "::raw_filter::apply"
        try:
            b = P.body(crate + "::raw_filter::apply")
        except AnchorMissing as e:
            ctx.cannot("R3", inst, str(e))
            continue
        sites = TB.return_sites(b, P)
        S = T.Slicer(b, P)
        good_open = False
        good_dec = False
        other = []
        for (blk, j, term, conds) in sites:
            var = [c for c in conds if c[0] == "variant" and T.has_call(c[1], "extract_quick_info")]
            if term[0] == "const" and term[1] is True and any(c[2] == "None" and c[3] for c in var):
                good_open = True
            elif term[0] == "call" and term[1].endswith("::should_process") and any(c[2] == "Some" and c[3] for c in var):
                good_dec = True
                args = term[2]
                # R6: args 1..4 are fields 0..3 of the extracted tuple
                idx = []
                for a in args[1:5]:
                    f = [x[2] for x in T.walk(a) if x[0] == "field" and isinstance(x[2], int)]
                    idx.append(f[0] if f else None)
                ctx.check(idx == [0, 1, 2, 3] and all(T.has_call(a, "extract_quick_info") for a in args[1:5]), "R6", inst,
                          "should_process(&info.0, &info.1, info.2, info.3)",
                          "should_process receives tuple fields %s of the quick extractor (expected 0,1,2,3 = src_ip, dst_ip, src_port, dst_port)" % idx, ctx.loc(b, blk))
            else:
                other.append(T.pp(term))
        ctx.check(good_open and good_dec and not other, "R3", inst,
                  "None => true (fail-open); Some(info) => should_process(info)",
                  "apply is not {extract None => true, Some => should_process}: fail-open=%s decision=%s other returns=%s" % (good_open, good_dec, other), ctx.loc(b))


# ---------------------------------------------------------------------------
def _offsets(t):
    """Byte offsets read by an address/port term: list of ('abs', n) | ('rel', k) in argument order."""
    out = []

    def idx_desc(i):
        i = T.strip(i)
        if i[0] == "const" and isinstance(i[1], int):
            return ("abs", i[1])
        if i[0] == "call" and "saturating_add" in i[1]:
            k = T.strip(i[2][1])
            if k[0] == "const":
                return ("rel", k[1])
        if i[0] == "binop" and i[1].startswith("Add"):
            k = T.strip(i[3])
            if k[0] == "const":
                return ("rel", k[1])
        return ("rel", 0)

    def rec(x):
        if x[0] == "index":
            out.append(idx_desc(x[2]))
            return
        if x[0] == "call" and x[1].endswith("::index") and len(x[2]) == 2:
            r = T.strip(x[2][1])
            if r[0] == "agg" and (r[2] or "").endswith("ops::Range") and len(r[4]) == 2:
                lo, hi = T.fold_int(r[4][0]), T.fold_int(r[4][1])
                if lo is not None and hi is not None and 0 <= hi - lo <= 64:
                    # a constant sub-slice `p[a..b]` copied as a whole reads bytes a .. b-1 in order
                    out.extend(("abs", k) for k in range(lo, hi))
                    return
        if x[0] in ("call",):
            for a in x[2]:
                rec(a)
        elif x[0] == "agg":
            for a in x[4]:
                rec(a)
        elif x[0] in ("ref", "cast"):
            rec(x[2])
        elif x[0] in ("deref",):
            rec(x[1])
        elif x[0] == "phi":
            for a in x[1]:
                rec(a)
    rec(t)
    return out


def rule_layout(ctx):
    P = ctx.program
    spec = {
        "extract_ipv4_info": ([("abs", k) for k in range(12, 16)], [("abs", k) for k in range(16, 20)], [("rel", 0), ("rel", 1)], [("rel", 2), ("rel", 3)]),
        "extract_ipv6_info": ([("abs", k) for k in range(8, 24)], [("abs", k) for k in range(24, 40)], [("abs", 40), ("abs", 41)], [("abs", 42), ("abs", 43)]),
    }
    n = 0
    for crate in ("huginn_net_tcp", "huginn_net_http", "huginn_net_tls"):
        for fn, want in spec.items():
            inst = "%s::raw_filter::%s" % (crate, fn)
            try:
                b = P.body("%s::raw_filter::%s" % (crate, fn))
            except AnchorMissing as e:
                ctx.cannot("R7", inst, str(e))
                continue
            somes = [s for s in TB.return_sites(b, P) if s[2][0] == "agg" and s[2][3] == "Some"]
            if len(somes) != 1:
                ctx.cannot("R7", inst, "expected one Some(..) return, found %d" % len(somes), ctx.loc(b))
                continue
            tup = T.strip(somes[0][2][4][0])
            if not (tup[0] == "agg" and tup[1] == "tuple" and len(tup[4]) == 4):
                ctx.cannot("R7", inst, "returned value is not a 4-tuple", ctx.loc(b))
                continue
            got = tuple(_offsets(x) for x in tup[4])
            n += 1
            names = ("src_ip", "dst_ip", "src_port", "dst_port")
            bad = [(names[i], got[i], want[i]) for i in range(4) if got[i] != want[i]]
            ctx.check(not bad, "R7", inst, "src/dst addresses and ports read at the header offsets %s" % (want,),
                      "%s is read from offsets %s, header layout says %s" % bad[0] if bad else "", ctx.loc(b, somes[0][0]))
            # protocol test: byte 9 (v4) / byte 6 (v6) must equal 6 (TCP) on the accepting path
            conds = somes[0][3]
            proto_ok = False
            S = T.Slicer(b, P)
            for c in Q.canon_conds(P, T.dom_conds(b, S, somes[0][0])):
                if c[0] == "cmp" and c[1] in ("Ne", "Eq"):
                    offs = _offsets(c[2]) + _offsets(c[3])
                    k = [x for x in (T.strip(c[2]), T.strip(c[3])) if x[0] == "const"]
                    wantoff = ("abs", 9) if fn == "extract_ipv4_info" else ("abs", 6)
                    if offs == [wantoff] and k and k[0][1] == 6 and ((c[1] == "Ne") != c[4]):
                        proto_ok = True
            ctx.check(proto_ok, "R7", inst + ":tcp-only", "accepts only protocol/next-header 6 (TCP)",
                      "the accepting path is not guarded by protocol byte == 6", ctx.loc(b))
            if fn == "extract_ipv4_info":
                # tcp_offset = (byte0 & 0x0f) * 4
                portterm = tup[4][2]
                ok_ihl = any(x[0] == "call" and "saturating_mul" in x[1] and T.strip(x[2][1])[0] == "const" and T.strip(x[2][1])[1] == 4 and
                             any(y[0] == "binop" and y[1] == "BitAnd" and T.strip(y[3])[0] == "const" and T.strip(y[3])[1] == 15 and _offsets(y[2]) == [("abs", 0)]
                                 for y in T.walk(x[2][0]))
                             for x in T.walk(portterm))
                ctx.check(ok_ihl, "R7", inst + ":ihl", "TCP header located at (byte0 & 0x0F) * 4",
                          "TCP header offset is not derived as (byte0 & 0x0F) * 4", ctx.loc(b))
    ctx.floor("R7", "quick extractor bodies", n, 6)


def _decode_signature(P, b):
    """what a link/IP decoding helper looks at, independent of how it is spelled: the byte offsets it reads (indexing, slice patterns,
    `get`, `first`, constant sub-slices expanded to their bytes), the constants it compares values with or switches on, the masks and
    shifts it applies, and the byte orders it converts from.  Insensitive to statement order, locals, logging, to whether sixteen
    bytes are read one by one or copied as `p[8..24]`, and to how often a conversion is written."""
    reads, tests, arith, orders = set(), set(), set(), set()

    def cint(o, depth=0):
        if "k" in o:
            v = T.const_value(o["k"])
            if isinstance(v[1], int) and not isinstance(v[1], bool):
                return v[1]
            return None
        pl = o.get("c") or o.get("m")
        if pl is not None and not pl["pr"] and depth < 3 and pl["l"] > b.arg_count:
            return local_const(pl["l"], depth + 1)       # a constant held in a temporary (`_t = const 4; Ge(len, _t)`)
        return None

    def local_const(l, depth=0):
        ds = [s for _, _, s in b.iter_stmts() if s["k"] == "assign" and s["p"]["l"] == l and not s["p"]["pr"]]
        if len(ds) == 1 and ds[0]["r"]["k"] == "use":
            return cint(ds[0]["r"]["o"], depth)
        return None

    def is_len(o):
        pl = o.get("c") or o.get("m")
        if pl is None or pl["pr"]:
            return False
        for _, _, s_ in b.iter_stmts():
            if s_["k"] == "assign" and s_["p"]["l"] == pl["l"] and not s_["p"]["pr"]:
                r_ = s_["r"]
                if r_["k"] == "unop" and r_.get("op") == "PtrMetadata":
                    return True
                if r_["k"] == "use":
                    return is_len(r_["o"])
        for blk_ in b.blocks:
            t_ = blk_["t"]
            if t_["k"] == "call" and t_["dest"]["l"] == pl["l"] and callee_of(t_).endswith("::len"):
                return True
        return False

    def place_reads(pl):
        for x in pl.get("pr", []):
            if isinstance(x, dict) and "ci" in x and not x.get("from_end"):
                reads.add(x["ci"])
            if isinstance(x, dict) and "i" in x:
                k = local_const(x["i"])
                if k is not None:
                    reads.add(k)
            if isinstance(x, dict) and "sub" in x:
                reads.add(x["sub"][0])       # `[.., rest @ ..]`: the rest starts at that offset, as `&p[k..]` does
    for i, j, s in b.iter_stmts():
        if s["k"] != "assign":
            continue
        r = s["r"]
        place_reads(s["p"])
        for key in ("o", "a", "b"):
            o = r.get(key)
            if isinstance(o, dict):
                pl = o.get("c") or o.get("m")
                if pl:
                    place_reads(pl)
        if isinstance(r.get("p"), dict):
            place_reads(r["p"])
        if r["k"] == "binop":
            op = r["op"].replace("WithOverflow", "").replace("Unchecked", "")
            ks = [k for k in (cint(r["a"]), cint(r["b"])) if k is not None]
            if op in ("Eq", "Ne", "Lt", "Le", "Gt", "Ge"):
                # comparisons with a length are guards / bounds checks, implied by the bytes read: only values compared with data count
                if not any(is_len(o_) for o_ in (r["a"], r["b"])):
                    tests.update(ks)
            elif op in ("BitAnd", "BitOr", "Shr", "Shl", "Mul"):
                arith.update((op, k) for k in ks)
    for blk in b.blocks:
        tt = blk["t"]
        if tt["k"] == "switch" and tt.get("ty") not in ("bool", "isize"):
            for (v, _tgt) in tt.get("arms", []):
                if isinstance(v, int):
                    tests.add(v)
    S = T.Slicer(b, P)
    for blk, t in b.calls():
        n = callee_of(t)
        if Q.in_tracing(t["span"]):
            continue
        last = n.rsplit("::", 1)[-1]
        if last in ("from_be_bytes", "to_be", "from_be", "to_be_bytes"):
            orders.add("be")
        elif last in ("from_le_bytes", "to_le", "from_le", "to_le_bytes", "swap_bytes"):
            orders.add("le")
        elif last in ("from_ne_bytes", "to_ne_bytes"):
            orders.add("ne")
        elif ("Ipv6Addr" in n or "Ipv4Addr" in n) and last == "from":
            orders.add("be")      # address from octets: network order by definition
        if n.endswith(("[T]>::first", "slice::<impl [T]>::first")):
            reads.add(0)
        if last in ("split_at", "split_at_checked") and ("[T]" in n or "slice" in n) and len(t["args"]) == 2:
            k = cint(t["args"][1])
            if k is not None:
                reads.add(k)             # the tail starts at that offset, as `&p[k..]` does
        if last == "get" and ("[T]" in n or "slice" in n) and len(t["args"]) == 2:
            k = cint(t["args"][1])
            if k is None:
                pl = t["args"][1].get("c") or t["args"][1].get("m")
                k = local_const(pl["l"]) if pl and not pl["pr"] else None
            if k is not None:
                reads.add(k)
        if last in ("index", "get") and len(t["args"]) == 2:
            a = Q.call_args(b, S, blk, t)
            r = T.strip(a[1])
            if r[0] == "agg" and r[1] == "adt" and (r[2] or "").rsplit("::", 1)[-1] in ("Range", "RangeInclusive", "RangeFrom", "RangeTo"):
                ks = [T.fold_int(x) for x in r[4]]
                if (r[2] or "").endswith("ops::Range") and len(ks) == 2 and None not in ks and 0 <= ks[1] - ks[0] <= 64:
                    reads.update(range(ks[0], ks[1]))
                else:
                    reads.update(k for k in ks if k is not None)
        for a_ in t["args"]:
            k = cint(a_)
            if k is not None and last in ("saturating_add", "saturating_mul", "checked_add", "checked_mul", "wrapping_add", "saturating_sub"):
                arith.add((last.split("_")[-1], k))
    # which helper handles which value (`0x0800 => extract_ipv4_info` as a match arm, or `if ethertype == 0x0800 { extract_ipv4_info }`)
    dispatch = set()
    for cb_, ct_ in b.calls():
        if Q.in_tracing(ct_["span"]):
            continue
        nm = callee_of(ct_)
        if not (nm.startswith("huginn_net") or nm.endswith(("Packet::<'a>::new", "Packet::new"))):
            continue
        for c in Q.canon_conds(P, T.dom_conds(b, S, cb_)):
            v = None
            if c[0] == "int" and isinstance(c[2], int) and not isinstance(c[2], bool):
                v = c[2]
            elif c[0] == "cmp" and c[1] == "Eq" and c[4] is True and T.fold_int(c[3]) is not None and not T.has_call(c[2], "::len"):
                v = T.fold_int(c[3])
            if v is not None:
                dispatch.add((v, re.sub(r"^huginn_net(_[a-z]+)?::", "", nm)))
    # length guards that give up: `if packet.len() < k { return None }` in whatever spelling (slice pattern, first_chunk, get(..)?) - the
    # frames one copy refuses to look at and another decodes
    guards = set()
    none_like = set()
    all_rets = set()
    for (rb_, j_, term_, _c_) in TB.return_sites(b, P):
        tt_ = T.strip(term_)
        all_rets.add(rb_)
        if (tt_[0] == "agg" and tt_[3] == "None") or (tt_[0] == "const" and tt_[1] is False) or (tt_[0] == "call" and tt_[1].endswith("::from_residual")):
            none_like.add(rb_)
    for sb_ in sorted(b.reachable):
        be_ = T.branch_edges(b, S, sb_)
        if be_ is None:
            continue
        for succ_, lab_ in be_[1].items():
            for c_ in Q.canon_cond(P, be_[0], lab_, sb_):
                c_ = Q._norm_cmp(c_)
                o_ = Q.oriented(c_, lambda z: T.has_call(z, "::len") and any(x[0] == "param" for x in T.walk(z))) if c_[0] == "cmp" else None
                if not (o_ and o_[0] in ("Lt", "Le") and T.fold_int(o_[2]) is not None):
                    continue
                # the edge taken when the frame is too short gives up: every return it can reach is None / false
                reach_ = C.reachable_from(b, succ_) | {succ_}
                rr_ = reach_ & all_rets
                if rr_ and rr_ <= none_like:
                    guards.add(T.fold_int(o_[2]) + (1 if o_[0] == "Le" else 0))
    return (tuple(sorted(reads)), tuple(sorted(tests)), tuple(sorted(arith, key=str)), tuple(sorted(orders)), tuple(sorted(dispatch)), tuple(sorted(guards)))


def rule_siblings(ctx):
    """R9: the three copies of the quick extractor (raw_filter.rs in tcp / http / tls) decode the same link types and header
    fields: per helper, the set of constants examined and the byte-order conversions agree across the copies.  Only copies that
    exist side by side are compared - there is no stored reference; a change made consistently in all copies passes."""
    P = ctx.program
    fams = (("huginn_net_tcp", "tcp"), ("huginn_net_http", "http"), ("huginn_net_tls", "tls"))
    names = ("try_ethernet", "try_null_datalink", "try_raw_ip", "extract_ipv4_info", "extract_ipv6_info", "extract_quick_info")
    n = 0
    for fn in names:
        sigs = {}
        bodies = {}
        for crate, fam in fams:
            b = P.bodies.get("%s::raw_filter::%s" % (crate, fn))
            if b is not None:
                sigs[fam] = _decode_signature(P, b)
                bodies[fam] = b
        if len(sigs) < 2:
            ctx.cannot("R9", "raw_filter::%s:agree" % fn, "fewer than two copies of raw_filter::%s found" % fn)
            continue
        n += 1
        groups = {}
        for fam, sg in sigs.items():
            groups.setdefault(sg, []).append(fam)
        if len(groups) == 1:
            g0 = list(groups)[0]
            ctx.ok("R9", "raw_filter::%s:agree" % fn, "%d copies read bytes %s, test %s, byte order %s" % (len(sigs), list(g0[0])[:12], list(g0[1])[:8], list(g0[3])), ctx.loc(bodies[sorted(bodies)[0]]))
            continue
        # the odd one out is the copy that differs from the majority
        major = max(groups.items(), key=lambda kv: len(kv[1]))
        for sg, fs in groups.items():
            if sg is major[0]:
                continue
            dc = {"bytes read": sorted(set(sg[0]) ^ set(major[0][0])), "values tested": sorted(set(sg[1]) ^ set(major[0][1])),
                  "masks/shifts/steps": sorted(set(sg[2]) ^ set(major[0][2]), key=str),
                  "value -> helper": sorted(set(sg[4]) ^ set(major[0][4]), key=str),
                  "frames shorter than .. refused": sorted(set(sg[5]) ^ set(major[0][5]))}
            dc = {k_: v_ for k_, v_ in dc.items() if v_}
            dv = (list(sg[3]), list(major[0][3]))
            for fam in fs:
                ctx.fail("R9", "raw_filter::%s:agree:%s" % (fn, fam),
                         "the %s copy of raw_filter::%s decodes differently from the %s cop%s: constants differing %s, byte-order conversions %s vs %s - the same frame is "
                         "then filtered in one analyzer and let through (or analysed unfiltered) in another" % (fam, fn, "/".join(major[1]), "ies" if len(major[1]) > 1 else "y", dc, dv[0], dv[1]),
                         ctx.loc(bodies[fam]))
    ctx.floor("R9", "raw_filter helpers present in several crates", n, 6)


def rule_workers(ctx):
    """R8: in parallel mode every worker applies the same filter (the spawn closure captures a clone of it)"""
    from . import _workers as W
    for crate, fam in (("huginn_net_tcp", "tcp"), ("huginn_net_http", "http"), ("huginn_net_tls", "tls")):
        W.uniform_workers(ctx, ctx.program, crate, fam, "R8")
        W.filter_reaches_pipeline(ctx, ctx.program, crate, fam, "R8")
        # a packet the filter rejects yields an empty result and nothing else: in particular it does not stop the worker that met it
        # (the admitted packets queued behind it must still be analysed)
        P_ = ctx.program
        wl = [x for x in P_.method("WorkerPool", "worker_loop") if x.crate == crate]
        wp = [x for x in P_.method("WorkerPool", "process_packet") if x.crate == crate]
        if len(wl) == 1 and len(wp) == 1:
            W.exit_conditions(ctx, P_, fam, wl[0], wp[0], "R8")
        else:
            ctx.cannot("R8", fam + ":worker_loop:exits", "worker_loop / process_packet not unique in %s" % crate)


def rule_link_order(ctx):
    """R9: filter and analyzer agree on the link-layer interpretation order"""
    from . import _endpoints as E
    E.link_layer_order(ctx, ctx.program, "R9", ("huginn_net_tcp", "huginn_net_http", "huginn_net_tls", "huginn_net"))
    E.ip_from_same_slice(ctx, ctx.program, "R9", ("huginn_net_tcp", "huginn_net_http", "huginn_net_tls", "huginn_net"))


def rule_pool_filter(ctx):
    """the filter reaches the workers: every pool is built with the analyzer's own filter (shared with C10.R4)"""
    from ..engine import report as R
    from . import C10
    C10.rule_pool_construction(R.Retag(ctx, "C10."))


def rule_filter_installed(ctx):
    """R1: the filter an analyzer is configured with is the filter it applies: `with_filter(config)` hands back the analyzer with
    `filter_config = Some(config)` on every path - whatever the configuration contains (a configuration the builder judges empty or
    trivial from some of its parts still constrains through the others)"""
    P = ctx.program
    n = 0
    for b in sorted(P.bodies.values(), key=lambda x: x.path):
        if b.name != "with_filter" or b.kind != "AssocFn" or b.arg_count != 2 or "FilterConfig" not in b.local_ty(2):
            continue
        fam = b.crate
        alts = TB.return_sites(b, P, True)
        bad = []
        for (rb, j, term, _c) in alts:
            idx = None
            for adt in P.adts.values():
                if adt["path"].split("<")[0].endswith((b.impl_self or "?").split("<")[0].split("::")[-1]) and adt["path"].startswith(b.crate + "::"):
                    idx = next((k_ for k_, f_ in enumerate(adt["variants"][0]["fields"]) if f_["name"] == "filter_config"), None)
            f = T.field(T.strip(term), "filter_config", idx)
            vals = [T.strip(x) for x in (T.strip(f)[1] if T.strip(f)[0] == "phi" else (f,))]
            # `self` updated in one field reads as the merge of the parameter and the update: the update is the field's value
            if any(v[0] != "field" for v in vals):
                vals = [v for v in vals if not (v[0] == "field" and T.strip(v[1])[0] == "param")]
            for v in vals:
                if v == T.NODEF:
                    continue
                okv = v[0] == "agg" and v[3] == "Some" and len(v[4]) == 1 and T.strip(v[4][0])[0] == "param" and T.strip(v[4][0])[1] == 1
                if v[0] == "field" or not okv:
                    bad.append((rb, T.pp(v)[:80]))
            if all(v == T.NODEF for v in vals):
                bad.append((rb, "filter_config not written"))
        n += 1
        ctx.check(not bad and alts, "R1", fam + ":with_filter:installs", "with_filter returns the analyzer with filter_config = Some(config) (%d returns)" % len(alts),
                  "with_filter can hand back the analyzer with filter_config = %s: the configured filter is not installed for some configurations "
                  "and packets it excludes are analysed and reported" % (sorted(set(x[1] for x in bad))[:3],), ctx.loc(b, bad[0][0]) if bad else ctx.loc(b))
    ctx.floor("R1", "with_filter builders", n, 4)


def run(ctx):
    rule_filter_installed(ctx)
    rule_pool_filter(ctx)
    rule_link_order(ctx)
    rule_siblings(ctx)
    rule_workers(ctx)
    rule_paths(ctx)
    rule_apply(ctx)
    rule_layout(ctx)
