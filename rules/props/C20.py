"""C20 - Unified analyzer equals the union of protocol analyzers; config only masks.

Structural clauses decided:
 R1 glue routing: every output field originates from the like-named observable; endpoints come from the package's
    source / destination and pair address with port of the same side; uptime roles; the merge keeps each protocol's fields
    under its own name; no two same-typed named arguments are exchanged at any call in the workspace; request/response table
    routing (C13.R2)
 R2 the unified crate calls exactly the protocol crates' entry points with its own caches; analyzers see the IP payload; the
    unified packet parser tries the link-layer interpretations in the protocol crates' order
 R3 each *_enabled flag guards exactly its own protocol call; the disabled branch yields the all-None package; a stateful
    protocol step is never skipped because another protocol's step failed on the same packet
 R4 tri-state quality: Disabled iff matching is switched off / no matcher, Matched(q) with q from the matcher result,
    NotMatched otherwise - in the unified glue and in the tcp / http result builders
 R5 constructor: matchers exist iff matcher_enabled && protocol enabled; caches sized max_connections iff enabled
 R6 label conversion: name<-name, family<-class, variant<-flavor, kind<-ty in all three output types
 R1 (also) TW: the IPv4 and IPv6 copies of every per-packet function route sides / roles / lookups identically
 R4 (also) the request diagnosis is get_diagnostic(user_agent, ..) in every configuration
"""
from ..engine import cfg as C
from ..engine import q as Q
from ..engine import tables as TB
from ..engine import terms as T
from ..engine.facts import AnchorMissing, callee_of

EXPLANATION = ("Origin slices (with closure / higher-order expansion) of every field of FingerprintResult and of the eight output "
               "constructors in HuginnNet::analyze_tcp; dominating conditions of the three protocol calls in execute_analysis and of "
               "every MatchQualityType construction; who-calls check of the protocol entry points; field maps of the From<&Label> impls.")
TRUSTED = ["Option::map / and_then / unwrap_or semantics", "the protocol crates' own behaviour (decided under their properties)"]
DECLINED = ["value equality of the unified results with the protocol analyzers' results over traces (needs execution)"]
ASSUMPTIONS = []

ROUTE = {"tcp_syn": "tcp_request", "tcp_syn_ack": "tcp_response", "tcp_mtu": "mtu", "tcp_client_uptime": "client_uptime",
         "tcp_server_uptime": "server_uptime", "http_request": "http_request", "http_response": "http_response", "tls_client": "tls_client"}
OUT_TYPES = {"SynTCPOutput": "tcp_request", "SynAckTCPOutput": "tcp_response", "MTUOutput": "mtu", "HttpRequestOutput": "http_request",
             "HttpResponseOutput": "http_response", "TlsClientOutput": "tls_client"}


def _fields(t):
    return [x[2] for x in T.walk(t) if x[0] == "field" and isinstance(x[2], str)]


def rule_R1(ctx):
    P = ctx.program
    b = P.method1("HuginnNet", "analyze_tcp")
    S = T.Slicer(b, P)
    ag = Q.aggregates(b, "FingerprintResult")
    full = None
    for (i, j, s) in ag:
        ops = [S.operand(o, i, j) for o in s["r"]["ops"]]
        if any(T.calls_in(o) for o in ops):
            full = (i, j, s, ops)
    if full is None:
        ctx.cannot("R1", "FingerprintResult", "result constructor with routed fields not found", ctx.loc(b))
        return
    i, j, s, ops = full
    for fname, t in zip(s["r"]["fields"], ops):
        want = ROUTE.get(fname)
        fl = [f for f in _fields(t) if f in set(ROUTE.values())]
        ok = fl and set(fl) == {want} and T.has_call(t, "ObservablePackage::extract")
        ctx.check(ok, "R1", "result.%s" % fname, "%s <- observable_package.%s" % (fname, want),
                  "output field %s originates from observable field(s) %s, expected `%s`" % (fname, sorted(set(fl)), want), ctx.loc(b, i))
    # the all-None result on extraction error
    errs = [x for x in ag if x is not None and (x[0], x[1]) != (i, j)]
    okn = False
    for (i2, j2, s2) in errs:
        t = S.rvalue(s2["r"], i2, j2)
        okn = all(T.strip(o)[0] == "agg" and T.strip(o)[3] == "None" for o in t[4])
    ctx.check(okn, "R1", "result:error-empty", "extraction error yields the all-None result", "error path result is not all-None", ctx.loc(b))
    # output constructors in the closures
    n = 0
    nroles = 0
    # (in the closures handed to `.map(..)`, or in analyze_tcp itself where such a closure is written as a `match`)
    for cb in [b] + [x for x in P.bodies.values() if x.path.startswith(b.path + "::{closure#")]:
        SC = T.Slicer(cb, P)
        for (ci, cj, cs) in Q.aggregates(cb):
            ty = cs["r"]["path"].split("::")[-1]
            if ty not in OUT_TYPES and ty != "UptimeOutput":
                continue
            f = {nm: T.expand_upvars(P, cb, SC.operand(o, ci, cj)) for nm, o in zip(cs["r"]["fields"], cs["r"]["ops"])}
            n += 1
            for side in ("source", "destination"):
                fl = _fields(f[side])
                ok = side in fl and ({"source", "destination"} - {side}).isdisjoint(fl) and "ip" in fl and "port" in fl
                ctx.check(ok, "R1", "%s@%s:%s" % (ty, T.short(cb.path).split("::")[-1], side), "%s = package.%s (ip, port)" % (side, side),
                          "%s.%s is built from %s" % (ty, side, sorted(set(fl))), ctx.loc(cb, ci))
            if ty == "UptimeOutput":
                role = T.strip(f["role"])
                src = [x for x in _fields(f["days"]) if x in ("client_uptime", "server_uptime")]
                nroles += 1
                good = role[0] == "agg" and ((role[3] == "Client" and src == ["client_uptime"]) or (role[3] == "Server" and src == ["server_uptime"]))
                ctx.check(good, "R1", "UptimeOutput@%s:role" % T.short(cb.path).split("::")[-1], "%s labelled %s" % (src, role[3] if role[0] == "agg" else "?"),
                          "uptime taken from %s is labelled %s" % (src, role[3] if role[0] == "agg" else T.pp(role)), ctx.loc(cb, ci))
            else:
                sig = f.get("sig") or f.get("mtu")
                if "sig" in f:
                    src = [x for x in _fields(f["sig"]) if x in set(ROUTE.values())]
                    ctx.check(src == [OUT_TYPES[ty]], "R1", "%s:sig" % ty, "sig = the %s observable" % OUT_TYPES[ty],
                              "%s.sig originates from %s" % (ty, src), ctx.loc(cb, ci))
    ctx.floor("R1", "output constructors in analyze_tcp closures", n, 8)
    ctx.floor("R1", "uptime role sites", nroles, 2)
    # merge: read on execute_analysis with handle_http_tcp_tlc written out at its call (the same statements whether the merge helper
    # exists or the package is assembled in execute_analysis itself)
    hb = P.inlined_view("huginn_net::process::execute_analysis", ("handle_http_tcp_tlc",))
    SH = T.Slicer(hb, P)
    nmerge = 0
    for (hi, hj, hs) in Q.aggregates(hb, "process::ObservablePackage"):
        nmerge += 1
        for nm, o in zip(hs["r"]["fields"], hs["r"]["ops"]):
            t = SH.operand(o, hi, hj)
            if nm in ("source", "destination"):
                okk = T.strip(t)[0] == "param" and T.strip(t)[2] == nm
            else:
                fl = _fields(t)
                proto = "http" if nm.startswith("http") else ("tls" if nm.startswith("tls") else "tcp")
                # the protocol packages the value can come from: the result of that protocol's entry point, or its all-None package
                srcs = {T.short(x[1]).rsplit("::", 1)[-1] for x in T.calls_in(t) if T.short(x[1]).rsplit("::", 1)[-1].startswith("process_")}
                pkgs = {(x[2] or "").rsplit("::", 1)[-1] for x in T.walk(t) if x[0] == "agg" and (x[2] or "").rsplit("::", 1)[-1].startswith("Observable") and
                        (x[2] or "").endswith("Package")}
                want_pkg = {"http": "ObservableHttpPackage", "tls": "ObservableTlsPackage", "tcp": "ObservableTCPPackage"}[proto]
                okk = nm in fl and (srcs or pkgs) and all(x.startswith("process_" + proto) for x in srcs) and pkgs <= {want_pkg}
            ctx.check(okk, "R1", "merge.%s" % nm, "%s <- like-named field of its protocol package" % nm, "merged field %s comes from %s" % (nm, T.pp(t)[:80]), ctx.loc(hb, hi))
    ctx.floor("R1", "merged package constructions", nmerge, 1)
    # endpoints of the package: this packet's addresses and ports
    pb = P.body("huginn_net::process::process_ip")
    SP = T.Slicer(pb, P)
    for blk, t in Q.calls(pb, "execute_analysis"):
        a = Q.call_args(pb, SP, blk, t)
        src, dst = T.strip(a[5]), T.strip(a[6])
        oks = src[0] == "agg" and T.has_call(src[4][1], "get_source") and 0 in [x[2] for x in T.walk(src[4][0]) if x[0] == "field"]
        okd = dst[0] == "agg" and T.has_call(dst[4][1], "get_destination") and 1 in [x[2] for x in T.walk(dst[4][0]) if x[0] == "field"]
        ctx.check(oks and okd, "R1", "process_ip:endpoints", "source = (addresses.0, tcp.source), destination = (addresses.1, tcp.destination)",
                  "package endpoints are not this packet's (source ok=%s, destination ok=%s)" % (oks, okd), ctx.loc(pb, blk))


def rule_R2_R3(ctx):
    P = ctx.program
    entry = {"process_tcp_ipv4", "process_tcp_ipv6", "process_http_ipv4", "process_http_ipv6", "process_tls_ipv4", "process_tls_ipv6"}
    called = {}
    others = set()
    for b in P.bodies.values():
        if b.crate != "huginn_net":
            continue
        for blk, t in b.calls():
            n = callee_of(t)
            if n.startswith(("huginn_net_tcp::", "huginn_net_http::", "huginn_net_tls::")) and not Q.in_tracing(t["span"]):
                last = n.rsplit("::", 1)[-1]
                if last in entry:
                    called.setdefault(last, []).append(b.path)
                elif any(k in n for k in ("process::process_ipv", "tcp_process::visit_tcp", "http_process::process_tcp_packet", "tls_process::process_tls_tcp",
                                           "parse_tls_client_hello", "check_ts_tcp")):
                    others.add(n)
    ctx.check(set(called) == entry and not others, "R2", "entry-points", "unified crate calls exactly %s" % sorted(entry),
              "unified crate calls %s (missing %s, internal pieces %s)" % (sorted(called), sorted(entry - set(called)), sorted(others)))
    # caches handed over are the unified analyzer's own
    eb = P.body("huginn_net::process::execute_analysis")
    S = T.Slicer(eb, P)
    want = {"process_http_with_data": "http_enabled", "process_tcp_with_data": "tcp_enabled", "process_tls_with_data": "tls_enabled"}
    n = 0
    for blk, t in eb.calls():
        nm = callee_of(t).rsplit("::", 1)[-1]
        if nm not in want:
            continue
        n += 1
        flags = []
        for c in Q.canon_conds(P, T.dom_conds(eb, S, blk)):
            if c[0] == "bool":
                fl = [x for x in _fields(c[1]) if x.endswith("_enabled")]
                if fl:
                    flags.append((fl[0], c[2]))
        ctx.check(flags == [(want[nm], True)], "R3", "execute_analysis:%s" % nm, "guarded by config.%s only" % want[nm],
                  "%s is guarded by %s, expected exactly config.%s" % (nm, flags, want[nm]), ctx.loc(eb, blk))
        a = Q.call_args(eb, S, blk, t)
        ctx.check(T.strip(a[0])[0] == "param" and T.strip(a[0])[2] == "packet_data", "R2", "execute_analysis:%s:data" % nm, "analyses the same IP packet bytes",
                  "%s is given %s" % (nm, T.pp(a[0])), ctx.loc(eb, blk))
    ctx.floor("R3", "protocol calls in execute_analysis", n, 3)
    # disabled branches: all-None packages
    for ty in ("ObservableHttpPackage", "ObservableTCPPackage", "ObservableTlsPackage"):
        okk = False
        for (i, j, s) in Q.aggregates(eb, ty):
            t = S.rvalue(s["r"], i, j)
            flags = [(x, c[2]) for c in Q.canon_conds(P, T.dom_conds(eb, S, i)) if c[0] == "bool" for x in _fields(c[1]) if x.endswith("_enabled")]
            if all(T.strip(o)[0] == "agg" and T.strip(o)[3] == "None" for o in t[4]) and flags and flags[-1][1] is False:
                okk = True
        ctx.check(okk, "R3", "execute_analysis:disabled:%s" % ty, "disabled protocol yields the all-None package", "disabled branch of %s is not all-None" % ty, ctx.loc(eb))
    # the three results are merged without further conditions
    vb = P.inlined_view("huginn_net::process::execute_analysis", ("handle_http_tcp_tlc",))
    hs = Q.aggregates(vb, "process::ObservablePackage")
    ctx.check(len(hs) == 1, "R3", "execute_analysis:merge", "single merge of the three packages", "the three packages are merged at %d places (expected one)" % len(hs), ctx.loc(eb))


def _quality_sites(P, b):
    """(block, variant, dominating conditions, term) for MatchQualityType constructions in b."""
    S = T.Slicer(b, P)
    out = []
    for (i, j, s) in Q.aggregates(b, "MatchQualityType"):
        conds = Q.canon_conds(P, T.dom_conds(b, S, i))
        out.append((i, s["r"]["variant"], conds, S.rvalue(s["r"], i, j)))
    return out


def rule_R4(ctx):
    P = ctx.program
    # unified glue: closures of analyze_tcp (macros expanded)
    b = P.method1("HuginnNet", "analyze_tcp")
    n = 0
    for cb in [x for x in P.bodies.values() if x.path.startswith(b.path + "::{closure#")]:
        for (blk, var, conds, term) in _quality_sites(P, cb):
            n += 1
            en = None
            for c in conds:
                if c[0] == "bool" and "matcher_enabled" in _fields(T.expand_upvars(P, cb, c[1])):
                    en = c[2]
            inst = "unified:%s:%s" % (T.short(cb.path).split("::", 1)[-1].replace("analyze_tcp::", ""), var)
            if var == "Disabled":
                ctx.check(en is False, "R4", inst, "Disabled only when matcher_enabled is false", "Disabled quality constructed under matcher_enabled=%s" % en, ctx.loc(cb, blk))
            elif var == "NotMatched":
                # not_matched value is the unwrap_or default built on the enabled branch, or inside the matched closure for a None signature
                ctx.check(en is True or cb.path.count("{closure#") >= 2, "R4", inst, "NotMatched on the enabled branch",
                          "NotMatched constructed under matcher_enabled=%s" % en, ctx.loc(cb, blk))
            elif var == "Matched":
                q = T.strip(term[4][0])
                from_tuple = any(x[0] == "field" and x[2] in (2, "2") for x in T.walk(q)) or q[0] == "const"
                ctx.check(from_tuple, "R4", inst, "Matched(q) with q = third element of the matcher result (or the MTU constant 1.0)",
                          "Matched quality value originates from %s" % T.pp(q)[:80], ctx.loc(cb, blk))
    ctx.floor("R4", "quality constructions in the unified glue", n, 12)
    # the macros select the disabled value on the else branch of `enabled`, and the matcher result drives matched / not matched
    # protocol crates
    for crate, fns in (("huginn_net_tcp", ("create_observable_package_ipv4", "create_observable_package_ipv6")), ("huginn_net_http", ("create_observable_package_ipv4", "create_observable_package_ipv6"))):
        for fn in fns:
            pb = P.body("%s::process::%s" % (crate, fn))
            m = 0
            for (blk, var, conds, term) in _quality_sites(P, pb):
                m += 1
                matcher = None
                result = None
                for c in conds:
                    if c[0] == "variant":
                        st = T.strip(c[1])
                        if st[0] == "param" and st[2] == "matcher":
                            matcher = (c[2] == "Some") == c[3]
                        elif T.has_call(c[1], "matching_by_"):
                            result = (c[2] == "Some") == c[3]
                inst = "%s:%s:%s@L%d" % (crate.split("_")[-1], fn[-4:], var, pb.blocks[blk]["t"]["span"]["lo"])
                want = {"Disabled": (False, None), "Matched": (True, True), "NotMatched": (True, False)}[var]
                # http request diagnosis builds NotMatched in a nested way; accept matcher=True for NotMatched/Matched regardless of nesting
                good = matcher == want[0] and (want[1] is None or result == want[1] or result is None and var != "Matched")
                ctx.check(good, "R4", inst, "%s when matcher %s%s" % (var, "present" if want[0] else "absent", "" if want[1] is None else (" and lookup %s" % ("hit" if want[1] else "missed"))),
                          "%s quality constructed with matcher present=%s, lookup hit=%s" % (var, matcher, result), ctx.loc(pb, blk))
            ctx.floor("R4", "%s %s quality constructions" % (crate, fn), m, 6)


def rule_R5(ctx):
    P = ctx.program
    b = P.method1("HuginnNet", "new")
    S = T.Slicer(b, P)
    locs = {b.local_name(l): l for l in range(len(b.locals)) if b.local_name(l)}
    want = {"tcp_matcher": "tcp_enabled", "http_matcher": "http_enabled"}
    for name, flag in want.items():
        l = locs.get(name)
        if l is None:
            ctx.cannot("R5", name, "local not found", ctx.loc(b))
            continue
        good = 0
        for (db, dj, full) in S.defs().get(l, []):
            term = S.def_term(l, db, dj, 0)
            flags = {}
            for c in Q.canon_conds(P, T.dom_conds(b, S, db)):
                if c[0] == "bool":
                    for x in _fields(c[1]):
                        if x.endswith("_enabled"):
                            flags[x] = c[2]
            built = T.has_call(term, "SignatureMatcher") or any(x[0] == "const" and isinstance(x[1], tuple) and x[1] and x[1][0] == "fn" and "SignatureMatcher" in x[1][1] for x in T.walk(term))
            if built and flags == {"matcher_enabled": True, flag: True}:
                good += 1
            elif not built and term[0] == "agg" and term[3] == "None":
                good += 0
            elif built:
                ctx.fail("R5", name + ":condition", "%s is built under %s, expected matcher_enabled && %s" % (name, flags, flag), ctx.loc(b, db))
        ctx.check(good >= 1, "R5", name, "%s built iff matcher_enabled && %s" % (name, flag), "%s construction not recognised" % name, ctx.loc(b))
    for name, flag in (("connection_tracker_size", "tcp_enabled"), ("http_flows_size", "http_enabled")):
        l = locs.get(name)
        if l is None:
            ctx.cannot("R5", name, "local not found", ctx.loc(b))
            continue
        seen = {}
        for (db, dj, full) in S.defs().get(l, []):
            term = T.strip(S.def_term(l, db, dj, 0))
            fl = None
            for c in Q.canon_conds(P, T.dom_conds(b, S, db)):
                if c[0] == "bool" and flag in _fields(c[1]):
                    fl = c[2]
            if term[0] == "param" and term[2] == "max_connections":
                seen["max"] = fl
            elif term[0] == "const" and term[1] == 0:
                seen["zero"] = fl
        ctx.check(seen == {"max": True, "zero": False}, "R5", name, "%s = max_connections iff %s else 0" % (name, flag), "%s selection is %s" % (name, seen), ctx.loc(b))
    # fields of Self use those locals
    for (i, j, s) in Q.aggregates(b, "HuginnNet"):
        f = dict(zip(s["r"]["fields"], s["r"]["ops"]))
        t1 = S.operand(f["connection_tracker"], i, j)
        t2 = S.operand(f["http_flows"], i, j)
        ctx.check(T.has_call(t1, "TtlCache") and T.has_call(t2, "TtlCache"), "R5", "caches", "both caches constructed in new()", "caches not constructed", ctx.loc(b, i))


def rule_R6(ctx):
    P = ctx.program
    want = {"name": "name", "family": "class", "variant": "flavor", "kind": "ty"}
    n = 0
    for ty in ("OperativeSystem", "Browser", "WebServer"):
        bs = [b for b in P.bodies.values() if b.kind == "AssocFn" and b.name == "from" and (b.impl_self or "").endswith("output::" + ty)]
        if len(bs) != 1:
            ctx.cannot("R6", ty, "From<&Label> impl not found")
            continue
        b = bs[0]
        S = T.Slicer(b, P)
        for (rb, j, term, _c) in TB.return_sites(b, P):
            if term[0] == "agg":
                names = [f["name"] for f in P.adt(term[2])["variants"][0]["fields"]]
                got = {}
                for nm, v in zip(names, term[4]):
                    fl = _fields(v)
                    got[nm] = fl[0] if fl else None
                n += 1
                ctx.check(got == want, "R6", ty, "name<-name, family<-class, variant<-flavor, kind<-ty", "%s::from maps %s" % (ty, got), ctx.loc(b))
    ctx.floor("R6", "label conversions", n, 3)


def _fallible_for_tcp(P, entry_names):
    """Can one of these protocol entry points return Err for a well-formed TCP segment?  Explicit `Err(..)` constructions in the entry
    point and its callees (workspace, depth 4) count unless they sit under the `protocol is not TCP` test (the unified caller has
    already established is_tcp())."""
    sites = []
    for en in entry_names:
        roots = [b for b in P.bodies.values() if b.path.endswith("::" + en) and b.crate in ("huginn_net_tcp", "huginn_net_http", "huginn_net_tls")]
        for root in roots:
            for b in Q.callgraph_closure(P, root, depth=4):
                if b.kind == "Closure" and any(k in b.path for k in ("map_err", )):
                    continue
                S = None
                for i, j, st in b.iter_stmts():
                    if st["k"] == "assign" and st["r"]["k"] == "agg" and st["r"].get("variant") == "Err" and "Result" in (st["r"].get("path") or ""):
                        if Q.in_tracing(st.get("span")) if st.get("span") else False:
                            continue
                        if S is None:
                            S = T.Slicer(b, P)
                        conds = Q.canon_conds(P, T.dom_conds(b, S, i))
                        not_tcp = any(any(x[0] == "call" and x[1].endswith(("get_next_level_protocol", "get_next_header")) for x in T.walk(c[1] if c[0] != "cmp" else ("t", c[2], c[3])))
                                      for c in conds)
                        # error conversions inside `?` / map_err closures re-wrap an existing error: not a new source
                        rewrap = b.kind == "Closure"
                        if not not_tcp and not rewrap:
                            sites.append((b, i))
    return sites


def rule_coupling(ctx):
    """R3 (no error coupling): a protocol step that keeps per-connection state is never skipped because another protocol's step
    failed on the same packet - otherwise the unified analyzer's state falls behind the stand-alone analyzer's and later packets differ"""
    P = ctx.program
    eb = P.body("huginn_net::process::execute_analysis")
    S = T.Slicer(eb, P)
    steps = {}
    for blk, t in eb.calls():
        nm = callee_of(t).rsplit("::", 1)[-1]
        if nm in ("process_http_with_data", "process_tcp_with_data", "process_tls_with_data"):
            stateful = any("TtlCache" in eb.locals[(a.get("m") or a.get("c") or {"l": 0})["l"]]["ty"] for a in t["args"] if ("m" in a or "c" in a))
            steps[nm] = (blk, stateful)
    ctx.floor("R3", "protocol steps in execute_analysis", len(steps), 3)
    entry = {"process_http_with_data": ("process_http_ipv4", "process_http_ipv6"), "process_tcp_with_data": ("process_tcp_ipv4", "process_tcp_ipv6"),
             "process_tls_with_data": ("process_tls_ipv4", "process_tls_ipv6")}
    fall = {}
    for nm, (blk, stateful) in sorted(steps.items()):
        if not stateful:
            ctx.ok("R3", "coupling:%s" % nm, "stateless step: skipping it cannot change later results", ctx.loc(eb, blk))
            continue
        deps = []
        for o, (oblk, _st) in sorted(steps.items()):
            if o == nm or not C.reaches(eb, oblk, blk):
                continue
            # is there an outcome of `o` (its Break / Err arm) from which this step is no longer reached?
            for x in sorted(eb.reachable):
                be = T.branch_edges(eb, S, x)
                if be is None or be[0][0] != "variant" or not T.has_call(be[0][1], o):
                    continue
                if any(T.has_call(be[0][1], other) for other in steps if other != o):
                    continue
                for succ, lab in be[1].items():
                    if not C.reaches(eb, succ, blk) and succ != blk:
                        deps.append(o)
        deps = sorted(set(deps))
        bad = []
        for o in deps:
            if o not in fall:
                fall[o] = _fallible_for_tcp(P, entry[o])
            if fall[o]:
                fb, fi = fall[o][0]
                bad.append("%s (it can fail for a TCP segment, e.g. at %s)" % (o, ctx.loc(fb, fi)))
        ctx.check(not bad, "R3", "coupling:%s" % nm,
                  "runs regardless of the other protocols' outcome (precedes them, or they cannot fail for a TCP segment): depends on %s" % (deps or "nothing"),
                  "%s, which updates per-connection state, only runs when %s succeeded: a segment rejected by that protocol is never shown to this one, so its "
                  "reassembly/tracking state falls behind the stand-alone analyzer and a later, valid packet yields a different result" % (nm, "; ".join(bad)), ctx.loc(eb, blk))


def rule_args(ctx):
    """R1 (argument routing): across the workspace no two same-typed, named arguments are passed in each other's positions"""
    from . import _argswap as AS
    n = AS.swapped_arguments(ctx, ctx.program, "R1", ("huginn_net_tcp", "huginn_net_http", "huginn_net_tls", "huginn_net", "huginn_net_db"))
    AS.swapped_fields(ctx, ctx.program, "R1", ("huginn_net_tcp", "huginn_net_http", "huginn_net_tls", "huginn_net"))
    ctx.floor("R1", "calls to workspace functions with named parameters", n, 300)


def rule_endpoints(ctx):
    """R1: endpoints reported anywhere in the workspace pair address and port of the same side; analyzers see the IP payload"""
    from . import _endpoints as E
    allc = ("huginn_net_tcp", "huginn_net_http", "huginn_net_tls", "huginn_net")
    E.ipport_pairing(ctx, ctx.program, "R1", allc)
    E.tcp_from_payload(ctx, ctx.program, "R2", allc)


def rule_link_order(ctx):
    """R2: the unified analyzer's packet parser interprets a frame like the protocol analyzers' parsers do"""
    from . import _endpoints as E
    E.link_layer_order(ctx, ctx.program, "R2", ("huginn_net_tcp", "huginn_net_http", "huginn_net_tls", "huginn_net"))
    E.ip_from_same_slice(ctx, ctx.program, "R2", ("huginn_net_tcp", "huginn_net_http", "huginn_net_tls", "huginn_net"))


def rule_table_routing(ctx):
    """R1: request observations are matched against the request tables, responses against the response tables (shared with C13.R2)"""
    from ..engine import report as R
    from . import C13
    C13.rule_R2(R.Retag(ctx, "C13."))


def rule_diagnosis(ctx):
    """R4: the HTTP diagnosis is computed like the HTTP analyzer computes it: get_diagnostic(user agent, user-agent match, signature match)
    for every reported request, whatever the configuration (without a matcher the two matches are None, the user-agent test still applies)"""
    P = ctx.program
    n = 0
    for b in P.bodies.values():
        if b.crate not in ("huginn_net", "huginn_net_http") or not b.blocks:
            continue
        ags = Q.aggregates(b, "HttpRequestOutput")
        if not ags:
            continue
        S = T.Slicer(b, P)
        for (i, j, s) in ags:
            f = dict(zip(s["r"]["fields"], [S.operand(o, i, j) for o in s["r"]["ops"]]))
            if "diagnosis" not in f:
                continue
            n += 1
            d = T.strip(f["diagnosis"])
            direct = d[0] == "call" and d[1].endswith("get_diagnostic")
            ua = direct and any(x[0] == "field" and x[2] == "user_agent" for x in T.walk(d[2][0]))
            ctx.check(direct and ua, "R4", "diagnosis:%s" % T.short(b.path), "diagnosis = get_diagnostic(user_agent, ..)",
                      "the request diagnosis is %s instead of get_diagnostic(user_agent, ua match, signature match) in every case: with some configuration (e.g. matching switched off) "
                      "the unified analyzer reports another diagnosis than the HTTP analyzer (`None` instead of `Anonymous` for a request without User-Agent)" % T.pp(d)[:80], ctx.loc(b, i))
    ctx.floor("R4", "HttpRequestOutput constructions with a diagnosis", n, 2)


def rule_twins(ctx):
    """R1: the IPv4 and IPv6 copies of every per-packet function route sides, roles and lookups identically"""
    from . import _twins as TW
    TW.twin_agreement(ctx, ctx.program, "R1", ("huginn_net_tcp", "huginn_net_http", "huginn_net_tls", "huginn_net"))


def rule_signature_untouched(ctx):
    """R1: the signature a result carries (`sig`) is the value the analysis produced: between its production and the result's construction
    nothing borrows it mutably or assigns to its parts (a field moved out with `take()` / `mem::take` leaves the stand-alone result's
    signature different from the unified one for the same packet)"""
    P = ctx.program
    n, bad = 0, []
    for b in sorted(P.bodies.values(), key=lambda x: x.path):
        if b.crate not in ("huginn_net", "huginn_net_http", "huginn_net_tcp", "huginn_net_tls"):
            continue
        for i, j, st in b.iter_stmts():
            r = st.get("r") or {}
            if st["k"] != "assign" or r.get("k") != "agg" or "sig" not in (r.get("fields") or []) or not r.get("path", "").split("::")[-1].endswith("Output"):
                continue
            o = r["ops"][r["fields"].index("sig")]
            pl = o.get("m") or o.get("c")
            if not isinstance(pl, dict) or "l" not in pl:
                continue
            root = pl["l"]
            for _ in range(8):
                ds = [s2 for (_, _, s2) in b.iter_stmts() if s2["k"] == "assign" and s2["p"]["l"] == root and not s2["p"]["pr"]]
                if len(ds) == 1 and ds[0]["r"]["k"] == "use" and not b.local_name(root):
                    p2 = ds[0]["r"]["o"].get("m") or ds[0]["r"]["o"].get("c")
                    if isinstance(p2, dict) and "l" in p2 and not p2["pr"]:
                        root = p2["l"]
                        continue
                break
            n += 1
            for i2, j2, s2 in b.iter_stmts():
                if s2["k"] != "assign":
                    continue
                r2 = s2["r"]
                if r2["k"] == "ref" and r2.get("bk") == "mut" and r2["p"]["l"] == root:
                    bad.append((b, i2, r.get("path", "").split("::")[-1]))
                elif s2["p"]["l"] == root and s2["p"]["pr"]:
                    bad.append((b, i2, r.get("path", "").split("::")[-1]))
    seen = set()
    for (b, blk, what) in bad:
        key = "%s:%s:%s:sig-untouched" % (b.crate, b.name, what)
        if key in seen:
            continue
        seen.add(key)
        ctx.fail("R1", key, "%s modifies the signature it then reports in %s.sig: the reported signature is no longer what the analysis produced, and "
                 "differs from what the other analyzer reports for the same packet" % (b.name, what), ctx.loc(b, blk))
    if not bad:
        ctx.ok("R1", "sig-untouched", "%d result constructions, none preceded by a mutable borrow of / assignment into the reported signature" % n)
    ctx.floor("R1", "result constructions carrying a signature", n, 8)


def run(ctx):
    rule_signature_untouched(ctx)
    rule_diagnosis(ctx)
    rule_twins(ctx)
    rule_table_routing(ctx)
    rule_link_order(ctx)
    rule_endpoints(ctx)
    rule_coupling(ctx)
    rule_args(ctx)
    rule_R1(ctx)
    rule_R2_R3(ctx)
    rule_R4(ctx)
    rule_R5(ctx)
    rule_R6(ctx)
