"""Shared rule: lifetimes of the connection caches.

Every per-connection cache of the analyzers is a `TtlCache`; an entry lives for the duration given at its `insert`.  The documented
lifetimes are whole seconds (TLS reassembly 20 s, HTTP flows 60 s, TCP timestamps 30 s).  A lifetime below one second (a unit slip:
`from_millis(20)` for 20 s) makes an entry expire between two segments of one connection, so what is reported depends on packet timing;
two inserts into the same cache with different lifetimes make it depend on which of them wrote the entry last."""
from ..engine import q as Q
from ..engine import terms as T
from ..engine.facts import callee_of


def duration_ms(t):
    """milliseconds of a std::time::Duration term when it is a constant, else None"""
    t = T.strip(t)
    while t[0] in ("ref", "deref"):
        t = T.strip(t[2] if t[0] == "ref" else t[1])
    if t[0] == "call" and "time::Duration::" in t[1]:
        last = t[1].rsplit("::", 1)[-1]
        ks = [T.fold_int(x) for x in t[2]]
        if None in ks:
            return None
        if last == "new" and len(ks) == 2:
            return ks[0] * 1000 + ks[1] / 1e6
        if last == "from_secs" and len(ks) == 1:
            return ks[0] * 1000
        if last == "from_millis" and len(ks) == 1:
            return ks[0]
        if last == "from_micros" and len(ks) == 1:
            return ks[0] / 1e3
        if last == "from_nanos" and len(ks) == 1:
            return ks[0] / 1e6
        if last == "from_mins" and len(ks) == 1:
            return ks[0] * 60000
        return None
    if t[0] == "const" and (t[3] or "").endswith("Duration"):
        raw = t[1][1] if isinstance(t[1], tuple) and t[1] and t[1][0] == "raw" else t[1]
        if isinstance(raw, (bytes, bytearray)) and len(raw) >= 12:
            return int.from_bytes(raw[0:8], "little") * 1000 + int.from_bytes(raw[8:12], "little") / 1e6
    return None


def cache_ttls(ctx, P, rule, crates, floor=1):
    n = 0
    for b in sorted(P.bodies.values(), key=lambda x: x.path):
        if b.crate not in crates:
            continue
        S = None
        seen = []
        for blk, t in b.calls():
            nm = callee_of(t)
            if not ("TtlCache" in nm and nm.endswith("::insert")):
                continue
            S = S or T.Slicer(b, P)
            a = Q.call_args(b, S, blk, t)
            ms = duration_ms(a[-1])
            n += 1
            inst = "%s:%s:ttl@%d" % (b.crate.replace("huginn_net_", ""), T.short(b.path).split("::")[-1], len(seen) + 1)
            if ms is None:
                ctx.ok(rule, inst, "lifetime %s (not a constant: not judged)" % T.pp(T.strip(a[-1]))[:40], ctx.loc(b, blk))
                continue
            seen.append(ms)
            ctx.check(ms >= 1000 and ms == int(ms) and int(ms) % 1000 == 0, rule, inst, "entry lifetime %g s" % (ms / 1000.0),
                      "%s stores a connection-cache entry for %g ms: the documented lifetimes are whole seconds - an entry that expires between two segments of one "
                      "connection makes the result depend on packet timing (a ClientHello / request split over segments is dropped, a withheld estimate comes back)"
                      % (T.short(b.path), ms), ctx.loc(b, blk))
        if len(set(seen)) > 1:
            ctx.fail(rule, "%s:%s:ttl-uniform" % (b.crate.replace("huginn_net_", ""), T.short(b.path).split("::")[-1]),
                     "%s inserts into its connection cache with different lifetimes %s ms: how long state lives depends on which insert wrote the entry last"
                     % (T.short(b.path), sorted(set(seen))), ctx.loc(b))
    ctx.floor(rule, "connection-cache inserts with a lifetime", n, floor)
    return n
