"""Shared rule: the IPv4 and the IPv6 copy of a function route addresses, ports, roles and lookups the same way.

The workspace keeps one function per IP version for most per-packet steps (process_*_ipv4/6, create_observable_package_ipv4/6,
extract_from_ipv4/6, hash_ipv4/6_flow, the IpPacketProcessor impls).  Apart from the header fields that only one version has, the two
copies are meant to be the same code.  For every such pair the *routing signature* is compared: which workspace functions are called
with which side of the packet (source / destination accessor) in which argument position, which endpoint / role / enum constants are
put into which field of the values they build, which matcher table is queried.  Only the two copies are compared with each other - no
stored reference - so a change made in both passes, a copy-paste slip in one of them does not."""
import collections
import re

from ..engine import q as Q
from ..engine import terms as T
from ..engine.facts import callee_of


def _norm(p):
    return re.sub(r'[Ii]pv[46]|_v[46]\b|\bV[46]\b', lambda m: re.sub('[46]', 'N', m.group(0)), p)


def _role(t):
    """side / role of a value: src, dst, mixed or -"""
    sides = set()
    for x in T.walk(T.strip(t)):
        if x[0] == "call":
            n = x[1].rsplit("::", 1)[-1]
            if n == "get_source":
                sides.add("src")
            elif n == "get_destination":
                sides.add("dst")
        elif x[0] == "field" and isinstance(x[2], str):
            nm = x[2]
            if nm in ("client_uptime", "tcp_request", "http_request", "source"):
                sides.add("cli:" + nm if nm != "source" else "src")
            elif nm in ("server_uptime", "tcp_response", "http_response", "destination"):
                sides.add("srv:" + nm if nm != "destination" else "dst")
        elif x[0] == "agg" and x[1] == "adt" and x[3] in ("Client", "Server"):
            sides.add("role:" + x[3])
        elif x[0] == "const" and isinstance(x[2], str) and x[2].rsplit("::", 1)[-1] in ("Client", "Server"):
            sides.add("role:" + x[2].rsplit("::", 1)[-1])
    if not sides:
        return "-"
    return "+".join(sorted(sides))


def signature(P, b0):
    """routing signature of a function *and the closures / local functions it runs* (whether a step is written inline or inside a
    combinator closure - `new(..).ok_or_else(..).and_then(|p| visit(p, ..))` against `let Some(p) = new(..) else {..}; visit(p, ..)` -
    does not change what is routed where); captured values are traced to their origin in the enclosing function"""
    from ..engine import lists as L
    sig = collections.Counter()
    for b in L.with_callables(P, b0):
        if b is not b0 and b.kind != "Closure":
            continue
        sig.update(_signature1(P, b))
    return sig


def _signature1(P, b):
    S = T.Slicer(b, P)
    sig = collections.Counter()
    up = (lambda x: T.expand_upvars(P, b, x, depth=4)) if b.kind == "Closure" else (lambda x: x)
    for blk, t in b.calls():
        if Q.in_tracing(t["span"]):
            continue
        n = callee_of(t)
        last = _norm(n.rsplit("::", 1)[-1])
        ws = n.startswith("huginn_net") or "huginn_net" in n.split(" as ")[0]
        a = [up(x) for x in Q.call_args(b, S, blk, t)]
        roles = tuple(_role(x) for x in a)
        if ws or any(r != "-" for r in roles):
            if last in ("get_source", "get_destination", "clone", "deref", "from", "into", "branch", "from_residual", "ok_or_else", "map_err", "and_then", "map"):
                continue
            # std adapters that hand their argument on unchanged (Option / reference plumbing) route nothing
            if not ws and (T.is_identity_call(n) or last in ("as_ref", "as_deref", "as_mut", "as_deref_mut", "unwrap_or", "unwrap_or_default", "unwrap_or_else", "ok",
                                                             "is_some", "is_none", "is_ok", "is_err", "cloned", "copied", "to_owned", "to_string", "as_str", "as_slice",
                                                             "borrow", "take", "iter", "or_else", "ok_or", "filter", "then", "then_some", "is_some_and")):
                continue
            sig[("call", last, roles)] += 1
    for i, j, s in b.iter_stmts():
        if s["k"] == "assign" and s["r"]["k"] == "agg" and s["r"]["ak"] == "adt":
            path = s["r"].get("path") or ""
            if not path.startswith("huginn_net"):
                continue
            t = up(S.rvalue(s["r"], i, j))
            fields = s["r"].get("fields") or []
            # a field filled from the like-named field of the input (`http_request: package.http_request.map(..)`) routes nothing: it is
            # what the copy that fills the struct field by field does without building an aggregate
            roles = tuple((f, _role(x)) for f, x in zip(fields, t[4]) if _role(x) != "-" and not ({"cli:" + f, "srv:" + f} & set(_role(x).split("+"))))
            var = s["r"].get("variant")
            if roles or var in ("Client", "Server"):
                sig[("agg", _norm(path.rsplit("::", 1)[-1]), var if var in ("Client", "Server") else None, roles)] += 1
    from ..engine import tables as TB
    for (rb, j, term, _c) in TB.return_sites(b, P):
        tt = T.strip(up(term))
        if tt[0] == "agg" and tt[1] == "tuple":
            roles = tuple(_role(x) for x in tt[4])
            if any(r != "-" for r in roles):
                sig[("ret", roles)] += 1
    return sig


def twins(P, crates):
    groups = collections.defaultdict(list)
    for b in P.bodies.values():
        if b.crate in crates and b.blocks and b.kind != "Closure":
            n = _norm(b.path)
            if n != b.path:
                groups[n].append(b)
    return {n: bs for n, bs in groups.items() if len(bs) == 2}


def twin_agreement(ctx, P, rule, crates, floor=8):
    prs = twins(P, crates)
    n = 0
    for name, (b1, b2) in sorted(prs.items()):
        s1, s2 = signature(P, b1), signature(P, b2)
        if not s1 and not s2:
            continue
        n += 1
        # compared as sets: how often a routed step is written (a guard duplicated in one copy, merged in the other) is not routing
        only1 = sorted(set(s1) - set(s2), key=str)
        only2 = sorted(set(s2) - set(s1), key=str)
        short = T.short(b1.path).split(" as ")[-1]
        ctx.check(not only1 and not only2, rule, "twins:%s:%s" % (b1.crate.replace("huginn_net", "hn"), _norm(short)),
                  "IPv4 and IPv6 copies route sides / roles / lookups identically (%d routed items)" % sum(s1.values()),
                  "the IPv4 and the IPv6 copy of %s route differently: only in %s: %s; only in %s: %s - one IP version attributes addresses, ports, roles or table lookups "
                  "differently from the other" % (_norm(short), T.short(b1.path)[-40:], [str(x)[:90] for x in only1][:3], T.short(b2.path)[-40:], [str(x)[:90] for x in only2][:3]),
                  ctx.loc(b2))
    # (one pair may lose its routed items to a refactor - a role predicate inlined into both copies - without making the rule vacuous)
    ctx.floor(rule, "IPv4/IPv6 twin pairs with routed items", n, max(1, floor - 1))
    return n
