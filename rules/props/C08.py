"""C08 - TLS ClientHello reassembly is segmentation-invariant and reports exactly once.

Structural clauses decided:
 R1 the parser is applied to exactly buffer[..5+record_len], only when that many bytes are buffered
 R2 once: bytes are appended only while no signature was produced; the success arm records the signature; reset() restores
    every field the other methods modify
 R3 flow lifecycle: the flow is dropped after a result and after a parse error; new flows are admitted only on a
    TLS handshake header (path rule over all entry->insert paths; record versions 0x0300..=0x0304); a tracked flow always
    reaches add_bytes and is never turned away by the header check; the flow key is this packet's directed 4-tuple; nothing but
    the owner's removals (and TTL) shrinks the flow cache; the reader is fed the IP payload; reported endpoints pair address and port
 R4 size cap: records above 64 KiB are refused (buffer cleared, error) before parsing
 C18.R2 the parallel dispatch hash looks at the connection identity only
 W.R1 / W.R3 / C11.R1 pool built with the limits in their own positions, batches processed in arrival order, reader growth discipline;
 R3 (also) a segment bypasses the reader only when it has no payload or belongs to no TLS flow (all entry->return paths examined)
"""
from ..engine import cfg as C
from ..engine import paths as PA
from ..engine import q as Q
from ..engine import tables as TB
from ..engine import terms as T
from ..engine.facts import AnchorMissing, callee_of

EXPLANATION = ("Origin slice of the argument of parse_tls_client_hello (slice bound = saturating_add(be16(buffer[3],buffer[4]),5)), "
               "dominating conditions of extend_from_slice / parse / insert, post-dominance of tcp_flows.remove on the result and "
               "error arms, origin of the flow key.")
TRUSTED = ["tls-parser parses one record from the slice it is given", "TtlCache get_mut/insert/remove/contains_key"]
DECLINED = ["invariance over every cut position (needs execution)", "identity of the emitted result with the single-segment result"]
ASSUMPTIONS = []

RD = "TlsClientHelloReader"


def _be16_of(t):
    """indices of a from_be_bytes([buf[i], buf[j]]) term"""
    for x in T.walk(t):
        if x[0] == "call" and x[1].endswith("from_be_bytes"):
            arr = T.strip(x[2][0])
            if arr[0] == "agg" and arr[1] == "array":
                idx = []
                for e in arr[4]:
                    e = T.strip(e)
                    if e[0] == "call" and e[1].endswith("::index") and len(e[2]) == 2:
                        k = T.strip(e[2][1])
                        idx.append(k[1] if k[0] == "const" else None)
                    elif e[0] == "index":
                        k = T.strip(e[2])
                        idx.append(k[1] if k[0] == "const" else None)
                return idx
    return None


def _is_needed(t):
    """needed = 5 + be16(buffer[3], buffer[4]) in either operand order; widening through `as usize` / usize::from / into;
    the two bytes may be read from the buffer directly or from a prefix slice of it that starts at 0"""
    t = T.strip(t)
    parts = None
    if t[0] == "call" and t[1].endswith(("saturating_add", "checked_add", "wrapping_add")) and len(t[2]) == 2:
        parts = (t[2][0], t[2][1])
    elif t[0] == "binop" and t[1].startswith("Add"):
        parts = (t[2], t[3])
    elif t[0] == "field" and T.strip(t[1])[0] == "binop" and T.strip(t[1])[1].startswith("Add"):
        bt = T.strip(t[1])
        parts = (bt[2], bt[3])
    if parts is None:
        return False
    for (a, k) in (parts, parts[::-1]):
        if T.fold_int(k) == 5 and _be16_of(a) == [3, 4] and any(x[0] == "field" and x[2] == "buffer" for x in T.walk(a)) and _from_offset_zero(a):
            return True
    return False


def _from_offset_zero(t):
    """the indexed base is the buffer itself or buffer[..n] / buffer[0..n] (so index k is byte k of the record)"""
    for x in T.walk(t):
        if x[0] == "call" and x[1].endswith("::index") and len(x[2]) == 2:
            r = T.strip(x[2][1])
            if r[0] == "agg" and r[1] == "adt" and (r[2] or "").endswith(("ops::RangeFrom", "ops::Range")):
                if T.fold_int(r[4][0]) != 0:
                    return False
    return True


def rule_reader(ctx):
    P = ctx.program
    b = P.method1(RD, "add_bytes")
    S = T.Slicer(b, P)
    ps = Q.calls(b, "parse_tls_client_hello")
    if len(ps) != 1:
        ctx.cannot("R1", "add_bytes:parse", "expected one parse_tls_client_hello call, found %d" % len(ps), ctx.loc(b))
        return
    blk, t = ps[0]
    a = Q.call_args(b, S, blk, t)
    arg = T.strip(a[0])
    ok1 = False
    why = T.pp(arg)[:100]
    for c in [arg] + T.calls_in(arg):
        if c[0] == "call" and c[1].endswith("::index") and len(c[2]) == 2:
            r = T.strip(c[2][1])
            if r[0] == "agg" and (r[2] or "").endswith("ops::RangeTo") and _is_needed(r[4][0]) and any(x[0] == "field" and x[2] == "buffer" for x in T.walk(c[2][0])):
                ok1 = True
    ctx.check(ok1, "R1", "add_bytes:slice", "parse(&self.buffer[..needed]), needed = be16(buffer[3..5]) + 5",
              "the parser is not given exactly the first complete record: %s" % why, ctx.loc(b, blk))
    conds = Q.canon_conds(P, T.dom_conds(b, S, blk))
    have_len = False
    cap = None
    ctype = False
    for c in conds:
        if c[0] == "cmp":
            op, x, y, pol = c[1], c[2], c[3], c[4]
            o = Q.oriented(c, lambda z: T.has_call(z, "::len") and not _is_needed(z))
            if o and _is_needed(o[2]):
                have_len = o[0] == "Ge"
            if _is_needed(x) and T.fold_int(y) is not None:
                if op == "Le":
                    cap = T.fold_int(y)
                elif op == "Lt":
                    cap = T.fold_int(y) - 1
            if op in ("Ne", "Eq") and T.strip(y)[0] == "const" and T.strip(y)[1] == 0x16:
                ctype = (op == "Eq") == pol
    ctx.check(have_len, "R1", "add_bytes:complete", "parse only when buffer.len() >= needed", "parse is attempted before the record is complete", ctx.loc(b, blk))
    ctx.check(ctype, "R1", "add_bytes:handshake-type", "parse only records of content type 0x16", "record content type is not checked before parsing", ctx.loc(b, blk))
    ctx.check(cap is not None and cap <= 64 * 1024 + 5, "R4", "add_bytes:cap", "records above %s bytes refused before parsing" % cap,
              "no size cap (<= 64 KiB + 5) dominates the parse (cap=%s)" % cap, ctx.loc(b, blk))
    # .. and the cap is no tighter than the protocol allows: a TLSPlaintext record carries up to 2^14 bytes, so `needed` (5 header bytes +
    # record length) of a legal ClientHello record reaches 16389
    ctx.check(cap is None or cap >= (1 << 14) + 5, "R4", "add_bytes:cap-admits-legal-records", "largest legal record (2^14 + 5 header bytes) passes the cap %s" % cap,
              "records are refused above %s bytes (header included), but a legal handshake record has up to 16384 + 5: a maximum-size ClientHello is dropped as "
              "`too large` and the connection gets no fingerprint" % cap, ctx.loc(b, blk))
    # over-size path: reset + Err
    big = False
    for (rb, j, term, _c) in TB.return_sites(b, P):
        cs = Q.canon_conds(P, T.dom_conds(b, S, rb))
        if any(c[0] == "cmp" and c[1] == "Gt" and c[4] and _is_needed(c[2]) for c in cs):
            resets = [rblk for rblk, rt in Q.calls(b, RD + "::reset") if C.dominates(b, rblk, rb)]
            if not resets:
                # reset() written out: the buffered bytes are cleared on this path (`self.buffer.clear()` / truncate(0) / drain(..))
                for cblk, ct in Q.calls(b, ["::clear", "::truncate", "::drain"]):
                    ca = Q.call_args(b, S, cblk, ct)
                    if C.dominates(b, cblk, rb) and any(x[0] == "field" and x[2] == "buffer" for x in T.walk(ca[0])):
                        resets.append(cblk)
            big = (term[0] == "agg" and term[3] == "Err") and bool(resets)
    ctx.check(big, "R4", "add_bytes:oversize-path", "over-size record: buffer reset and Err returned", "over-size record path does not clear the buffer and return Err", ctx.loc(b))
    # R2 once
    ext = Q.calls(b, "extend_from_slice")
    if len(ext) != 1:
        ctx.cannot("R2", "add_bytes:append", "expected one extend_from_slice", ctx.loc(b))
    else:
        eb, et = ext[0]
        cs = Q.canon_conds(P, T.dom_conds(b, S, eb))
        once = any((c[0] == "variant" and any(x[0] == "field" and x[2] == "signature" for x in T.walk(c[1])) and ((c[2] == "Some") != c[3])) or
                   (c[0] == "bool" and c[1][0] == "call" and c[1][1].endswith("is_some") and c[2] is False) for c in cs)
        ea = Q.call_args(b, S, eb, et)
        ctx.check(once and any(x[0] == "param" and x[2] == "data" for x in T.walk(ea[1])), "R2", "add_bytes:append-guard",
                  "data appended only while signature is None", "bytes are appended after a signature was already produced (or not from `data`)", ctx.loc(b, eb))
    # success arm records the signature: a store to self.signature of Some(..) in the Ok(Some) arm
    stored = False
    for i, j, s in b.iter_stmts():
        if s["k"] == "assign" and s["p"]["l"] == 1 and any(isinstance(x, dict) and x.get("n") == "signature" for x in s["p"]["pr"]):
            cs = Q.canon_conds(P, T.dom_conds(b, S, i))
            if any(c[0] == "variant" and T.has_call(c[1], "parse_tls_client_hello") and c[2] in ("Ok", "Some") and c[3] for c in cs):
                t2 = S.rvalue(s["r"], i, j)
                if t2[0] == "agg" and t2[3] == "Some":
                    stored = True
    ctx.check(stored, "R2", "add_bytes:record-signature", "success arm sets self.signature = Some(..)", "the success arm does not remember that a signature was produced", ctx.loc(b))
    # returned value on success is the parsed signature
    okret = False
    for (rb, j, term, _c) in TB.return_sites(b, P):
        if term[0] == "agg" and term[3] == "Ok" and T.has_call(term, "parse_tls_client_hello"):
            inner = T.strip(term[4][0])
            okret = inner[0] == "agg" and inner[3] == "Some"
    ctx.check(okret, "R2", "add_bytes:returns-parsed", "Ok(Some(parsed signature)) on completion", "completion does not return the parsed signature", ctx.loc(b))


def rule_prefix_kept(ctx):
    """R1: the bytes of a record that arrived earlier are still there when the next segment is appended: in add_bytes nothing that empties
    or shortens the buffer (clear / truncate / drain / reset / a fresh Vec) can be followed by the append of the new segment - the buffer
    shrinks only on the ways out (record judged: parsed, rejected, not a handshake)"""
    P = ctx.program
    b = P.method1("TlsClientHelloReader", "add_bytes")
    S = T.Slicer(b, P)
    appends, shrinks = set(), {}
    for blk, t in b.calls():
        nm = callee_of(t).rsplit("::", 1)[-1]
        if not t.get("args"):
            continue
        a0 = S.operand(t["args"][0], blk, len(b.blocks[blk]["s"]))
        on_buffer = any(x[0] == "field" and x[2] == "buffer" for x in T.walk(a0))
        if nm in ("extend_from_slice", "extend", "append", "push") and on_buffer:
            appends.add(blk)
        if (nm in ("clear", "truncate", "drain", "split_off", "retain") and on_buffer) or (nm == "reset" and "TlsClientHelloReader" in callee_of(t)):
            shrinks[blk] = nm
    for i, j, st in b.iter_stmts():
        if st["k"] == "assign" and any(isinstance(x, dict) and x.get("n") == "buffer" for x in st["p"]["pr"]):
            shrinks[i] = "assignment"
    bad = []
    for sb, nm in sorted(shrinks.items()):
        seen, todo = set(), list(b.succs(sb))
        while todo:
            x = todo.pop()
            if x in seen:
                continue
            seen.add(x)
            if x in appends:
                bad.append((sb, nm))
                break
            todo.extend(b.succs(x))
    ctx.check(not bad, "R1", "add_bytes:prefix-kept", "%d places shorten the buffer, none of them ahead of the append of the new segment (%d appends)" % (len(shrinks), len(appends)),
              "add_bytes can discard buffered bytes (%s) and then append the new segment: the first part of a ClientHello that arrived in an earlier "
              "segment is lost for inputs the discard condition admits, and the record is never completed" % (sorted(set(x[1] for x in bad)),),
              ctx.loc(b, bad[0][0]) if bad else None)
    ctx.floor("R1", "appends of the segment to the reader's buffer", len(appends), 1)


def rule_flow(ctx):
    P = ctx.program
    b = P.body("huginn_net_tls::process::process_tcp_packet")
    S = T.Slicer(b, P)
    # flow key
    keyok = 0
    ops = 0
    for blk, t in Q.calls(b, "TtlCache"):
        nm = callee_of(t).rsplit("::", 1)[-1]
        if nm not in ("get", "get_mut", "insert", "remove", "contains_key"):
            continue
        ops += 1
        a = Q.call_args(b, S, blk, t)
        k = T.strip(a[1])
        good = False
        if k[0] == "agg" and k[1] == "tuple" and len(k[4]) == 4:
            e = [T.strip(x) for x in k[4]]
            good = (e[0][0] == "param" and e[0][2] == "src_ip" and e[1][0] == "param" and e[1][2] == "dst_ip"
                    and T.has_call(e[2], "get_source") and T.has_call(e[3], "get_destination"))
        keyok += 1 if good else 0
        ctx.check(good, "R3", "process_tcp_packet:%s:key@%d" % (nm, ops), "keyed by (src_ip, dst_ip, src_port, dst_port) of this packet",
                  "flow cache `%s` is keyed by %s" % (nm, T.pp(a[1])[:100]), ctx.loc(b, blk))
    # (what the property needs is every kind of operation keyed correctly: lookup, admission and removal - how often a removal is
    # written out, once per arm or once in front of the match, is a matter of style)
    ctx.floor("R3", "flow cache operations", ops, 5)
    adds = Q.calls(b, RD + "::add_bytes")
    if len(adds) != 1:
        ctx.cannot("R3", "process_tcp_packet:add_bytes", "expected one add_bytes call", ctx.loc(b))
        return
    ablk, at = adds[0]
    aa = Q.call_args(b, S, ablk, at)
    ctx.check(T.has_call(aa[1], "::payload") and T.has_call(aa[0], "get_mut"), "R3", "process_tcp_packet:feeds-reader",
              "reader (from the flow cache) is fed this segment's payload", "add_bytes is not applied to the cached reader and this segment's payload", ctx.loc(b, ablk))
    # result / error arms drop the flow
    tgt = at["target"]
    removes = [blk for blk, t in Q.calls(b, "::remove") if "TtlCache" in callee_of(t)]
    arms = {}
    else_arms = {}
    arm_edges = {}          # arm name -> the switch edges that select it (an arm body may be shared: `Ok(None) | Err(_) => ..`)
    # collect arms of the match on add_bytes result (nested Ok/Err then Some/None)
    for blk in sorted(b.reachable):
        be = T.branch_edges(b, S, blk)
        if be is None:
            continue
        atom, labels = be
        if atom[0] == "variant" and T.has_call(atom[1], "add_bytes"):
            for succ, lab in labels.items():
                # `let Ok(x) = r else { .. }`: the else edge is the one remaining variant
                if isinstance(lab, tuple) and lab and lab[0] == "else" and len(lab[1]) == 1:
                    else_arms.setdefault(lab[1][0], succ)
                    arm_edges.setdefault(lab[1][0], set()).add((blk, succ))
                if isinstance(lab, str):
                    arms[lab] = succ
                    arm_edges.setdefault(lab, set()).add((blk, succ))
    for k_, v_ in else_arms.items():
        arms.setdefault(k_, v_)
    for arm, need in (("Some", True), ("Err", True), ("None", False)):
        if arm not in arms:
            ctx.cannot("R3", "process_tcp_packet:arm:" + arm, "arm not found (have %s)" % sorted(arms), ctx.loc(b, ablk))
            continue
        succ = arms[arm]
        has = any(C.dominates(b, succ, r) and C.postdominates(b, r, succ) for r in removes)
        keeps = not any(C.dominates(b, succ, r) for r in removes)
        if (need and not has) or (not need and keeps):
            # the removal may be hoisted in front of the match (`if !matches!(outcome, Ok(None)) { remove }; match outcome {..}`): every
            # feasible path through the arm is read on its own - it passes a removal after add_bytes, or it does not
            trails, trunc = PA.enumerate_paths(b, 0, 6000)
            edges_ = arm_edges.get(arm, set())
            thr = [tr for tr in trails if ablk in tr and any((tr[k_], tr[k_ + 1]) in edges_ for k_ in range(len(tr) - 1))]
            if thr and not trunc:
                def _removed(tr):
                    k0 = tr.index(ablk)
                    return any(x in removes for x in tr[k0:])
                has = all(_removed(tr) for tr in thr)
                keeps = not any(_removed(tr) for tr in thr)
        if need:
            ctx.check(has, "R3", "process_tcp_packet:arm:%s:drops-flow" % arm, "flow removed on every path of the %s arm" % arm,
                      "the %s arm does not remove the flow: %s" % (arm, "a second result could be produced / state is retained after the result" if arm == "Some"
                                                                     else "a failed flow keeps accumulating"), ctx.loc(b, succ))
        else:
            ctx.check(keeps, "R3", "process_tcp_packet:arm:None:keeps-flow", "incomplete record keeps the flow",
                      "the flow is dropped while the record is still incomplete (segments before completion would be lost)", ctx.loc(b, succ))
    # result only in the Some arm, built from this packet's endpoints
    for (rb, j, term, _c) in TB.return_sites(b, P):
        inner = T.strip(term[4][0]) if term[0] == "agg" and term[3] == "Ok" and term[4] else None
        if inner is not None and inner[0] == "agg" and inner[3] == "Some":
            in_some = "Some" in arms and C.dominates(b, arms["Some"], rb)
            ctx.check(in_some, "R3", "process_tcp_packet:result-only-on-completion", "a result is returned only in the Ok(Some) arm",
                      "a TLS result is produced outside the completion arm", ctx.loc(b, rb))
    # admission: insert only when no reader exists; is_tls decided by header check for untracked flows; !is_tls returns None
    ins = [(blk, t) for blk, t in Q.calls(b, "::insert") if "TtlCache" in callee_of(t)]
    if len(ins) != 1:
        ctx.cannot("R3", "process_tcp_packet:insert", "expected one flow insert", ctx.loc(b))
        return
    iblk, it = ins[0]
    cs = Q.canon_conds(P, T.dom_conds(b, S, iblk))
    no_reader = any(c[0] == "variant" and T.has_call(c[1], "get_mut") and ((c[2] == "None" and c[3]) or (c[2] == "Some" and not c[3])) for c in cs)
    # path rule: a reader is created for an untracked flow only after is_tls_traffic(payload) said yes.  Every entry -> insert path is
    # examined; paths on which the flow was found tracked (contains_key true) and then not found (get_mut None) are infeasible.
    trails, trunc = PA.enumerate_paths(b, 0, 4000, stop={iblk})
    trails = [tr for tr in trails if tr[-1] == iblk]
    badpath = None
    for tr in trails:
        pc = PA.path_conds(P, b, S, tr)
        tracked = any(c[0] == "bool" and c[1][0] == "call" and c[1][1].endswith("contains_key") and c[2] is True for c in pc)
        notfound = any(c[0] == "variant" and T.has_call(c[1], "get_mut") and ((c[2] == "None" and c[3]) or (c[2] == "Some" and not c[3])) for c in pc)
        if tracked and notfound:
            continue
        checked = any(c[0] == "bool" and c[1][0] == "call" and c[1][1].endswith("is_tls_traffic") and T.has_call(c[1], "::payload") and c[2] is True for c in pc)
        if not checked:
            badpath = tr
            break
    ctx.check(no_reader and bool(trails) and not trunc and badpath is None, "R3", "process_tcp_packet:admission",
              "new reader only when none exists and the segment starts with a TLS handshake header (%d paths to the insert examined)" % len(trails),
              "a reader can be created for an untracked flow without is_tls_traffic(payload) having accepted the segment (no-reader=%s, offending path %s)" % (no_reader, badpath),
              ctx.loc(b, iblk))
    # continuation: a segment of a tracked flow is never turned away by the header check: every path on which contains_key is true and the
    # function returns before add_bytes must not be decided by is_tls_traffic
    okt = True
    rtr, trunc2 = PA.enumerate_paths(b, 0, 6000)
    for tr in rtr:
        if ablk in tr:
            continue
        pc = PA.path_conds(P, b, S, tr)
        tracked = any(c[0] == "bool" and c[1][0] == "call" and c[1][1].endswith("contains_key") and c[2] is True for c in pc)
        turned = any(c[0] == "bool" and c[1][0] == "call" and c[1][1].endswith("is_tls_traffic") and c[2] is False for c in pc)
        if tracked and turned:
            okt = False
    # ... and by nothing else either: the only reasons not to hand a segment to the reader are `no payload` and `untracked and not TLS`
    odd = None
    for tr in rtr:
        if ablk in tr:
            continue
        pc = PA.path_conds(P, b, S, tr)
        if PA.contradicts_constants(pc):
            continue
        empty = any((c[0] == "bool" and c[1][0] == "call" and c[1][1].endswith("::is_empty") and c[2] is True and T.has_call(c[1], "::payload")) or
                    (c[0] == "cmp" and c[1] == "Eq" and c[4] is True and T.has_call(c[2], "::len") and T.has_call(c[2], "::payload") and T.fold_int(c[3]) == 0) for c in pc)
        untracked_not_tls = any(c[0] == "bool" and c[1][0] == "call" and c[1][1].endswith("is_tls_traffic") and c[2] is False for c in pc)
        lost = any(c[0] in ("variant",) and T.has_call(c[1], "get_mut") and T.has_call(c[1], "ok_or_else") for c in pc) or any(T.has_call(c[1], "ok_or_else") for c in pc if c[0] == "variant")
        # the same `entry vanished right after insert` exit written as a match: the reader map said None after the insert on this path
        if iblk in tr:
            after = set(tr[tr.index(iblk):])
            lost = lost or any(c[0] == "variant" and T.has_call(c[1], "get_mut") and ((c[2] == "None" and c[3]) or (c[2] == "Some" and not c[3])) and c[4] in after for c in pc)
        if not (empty or untracked_not_tls or lost):
            odd = [c[0] + ":" + T.pp(c[1])[:50] + "=" + str(c[2] if c[0] != "cmp" else (c[1], c[4])) for c in pc if c[0] in ("bool", "cmp")][-3:]
            break
    ctx.check(odd is None and not trunc2, "R3", "process_tcp_packet:segments-reach-reader", "a segment bypasses the reader only when it has no payload or belongs to no TLS flow",
              "a segment with payload of a tracked flow can return before add_bytes under %s: short continuation segments are dropped and the record never completes for those "
              "segmentations" % odd, ctx.loc(b))
    ctx.check(okt and not trunc2, "R3", "process_tcp_packet:continuation", "continuation segments of a tracked flow are accepted without header check",
              "a segment of a tracked flow can be rejected because it does not start with a TLS handshake header (every continuation segment would be)", ctx.loc(b))
    # tracked flow reaches add_bytes: add_bytes post-dominates the get_mut==Some edge
    okreach = False
    for blk in sorted(b.reachable):
        be = T.branch_edges(b, S, blk)
        if be and be[0][0] == "variant" and T.has_call(be[0][1], "get_mut") and not T.has_call(be[0][1], "insert"):
            for succ, lab in be[1].items():
                if lab == "Some" and C.postdominates(b, ablk, succ):
                    okreach = True
    ctx.check(okreach, "R3", "process_tcp_packet:tracked-reaches-reader", "a tracked flow always reaches add_bytes",
              "a segment of a tracked flow can bypass the reader", ctx.loc(b, ablk))
    rule_tls_gate(ctx)


def rule_tls_gate(ctx):
    """R3: what `is_tls_traffic` admits as the start of a flow: 5 bytes, handshake content type, record versions 0x0300 ..= 0x0304 - a
    ClientHello the gate refuses is never fingerprinted (shared with C04)"""
    P = ctx.program
    # is_tls_traffic: handshake type 0x16 and version 0x0300..=0x0304, needs 5 bytes
    tb = P.body("huginn_net_tls::tls_process::is_tls_traffic")
    ST = T.Slicer(tb, P)
    trues = []
    for (rb, j, term, _c) in TB.return_sites(tb, P):
        trues.append((rb, term))
    conds_all = []
    for blk in sorted(tb.reachable):
        conds_all += Q.canon_conds(P, T.dom_conds(tb, ST, blk))
    has5 = any(c[0] == "cmp" and ((c[1] in ("Lt", "Ge") and T.fold_int(c[3]) == 5) or (c[1] in ("Le", "Gt") and T.fold_int(c[3]) == 4)) and T.has_call(c[2], "::len") for c in conds_all if c[0] == "cmp")
    has16 = any(c[0] == "cmp" and c[1] in ("Eq", "Ne") and T.strip(c[3])[0] == "const" and T.strip(c[3])[1] == 0x16 for c in conds_all if c[0] == "cmp") or \
        any(c[0] == "int" and (c[2] == 0x16 or (isinstance(c[2], tuple) and any(0x16 in y for y in c[2][1:] if isinstance(y, tuple)))) for c in conds_all) or \
        any(s["k"] == "assign" and s["r"]["k"] == "binop" and s["r"]["op"] == "Eq" and "k" in s["r"]["b"] and T.const_value(s["r"]["b"]["k"])[1] == 0x16 for _, _, s in tb.iter_stmts())
    ctx.check(has5 and has16, "R3", "is_tls_traffic", "needs 5 bytes and content type 0x16", "TLS header test lost its length (5) or handshake-type (0x16) check", ctx.loc(tb))
    # accepted record versions: exactly 0x0300 ..= 0x0304 (SSL 3.0 .. TLS 1.3 record layer)
    rng = None
    for i, j, s in tb.iter_stmts():
        if s["k"] != "assign":
            continue
        t = T.strip(ST.rvalue(s["r"], i, j))
        for x in T.walk(t):
            if x[0] == "call" and x[1].endswith("RangeInclusive::<Idx>::new") and len(x[2]) == 2:
                rng = (T.fold_int(x[2][0]), T.fold_int(x[2][1]), "inclusive")
            if x[0] == "agg" and x[1] == "adt" and (x[2] or "").endswith("ops::Range") and len(x[4]) == 2 and T.fold_int(x[4][0]) is not None:
                hi = T.fold_int(x[4][1])
                rng = (T.fold_int(x[4][0]), hi - 1 if hi is not None else None, "half-open")
    for blk, t in tb.calls():
        if callee_of(t).endswith("::contains"):
            a = Q.call_args(tb, ST, blk, t)
            for x in T.walk(a[0]):
                if x[0] == "call" and x[1].endswith("RangeInclusive::<Idx>::new") and len(x[2]) == 2:
                    rng = (T.fold_int(x[2][0]), T.fold_int(x[2][1]), "inclusive")
                if x[0] == "agg" and x[1] == "adt" and (x[2] or "").endswith("ops::Range") and len(x[4]) == 2:
                    hi = T.fold_int(x[4][1])
                    rng = (T.fold_int(x[4][0]), hi - 1 if hi is not None else None, "half-open")
                if x[0] == "const" and isinstance(x[1], (bytes, bytearray)) and len(x[1]) >= 4 and "Range" in (x[3] or ""):
                    import struct as _st
                    lo, hi = _st.unpack("<HH", bytes(x[1][:4]))
                    if "RangeInclusive" in x[3]:
                        rng = (lo, hi, "inclusive")
                    else:
                        rng = (lo, hi - 1, "half-open")
    if rng is None:
        # comparison pair  version >= 0x0300 && version <= 0x0304
        los = [T.fold_int(c[3]) for c in conds_all if c[0] == "cmp" and c[1] in ("Ge", "Lt") and T.fold_int(c[3]) is not None and T.has_call(c[2], "from_be_bytes")]
        his = [(c[1], T.fold_int(c[3])) for c in conds_all if c[0] == "cmp" and c[1] in ("Le", "Gt", "Lt", "Ge") and T.fold_int(c[3]) is not None and T.has_call(c[2], "from_be_bytes")]
        if los and his:
            rng = (min(los), max(h - 1 if op in ("Lt", "Ge") and h > 0x300 else h for op, h in his), "comparisons")
    ctx.check(rng is not None and rng[0] == 0x0300 and rng[1] == 0x0304, "R3", "is_tls_traffic:versions", "record versions 0x0300 ..= 0x0304 admitted",
              "the TLS header test admits record versions %s: a ClientHello whose record layer says %s is never admitted as a new flow although the reader parses it"
              % ("0x%04x..=0x%04x (%s)" % (rng[0] or 0, rng[1] or 0, rng[2]) if rng else "not recognised", "0x0304" if rng and rng[1] == 0x0303 else "an accepted version"), ctx.loc(tb))


def rule_retained(ctx):
    """R3: half-reassembled flows survive until their own result / error / TTL - nothing else clears the flow cache"""
    from . import _workers as W
    W.state_retained(ctx, ctx.program, "huginn_net_tls", "tls", "R3", 1)


def rule_segments(ctx):
    """R3: the reader is fed the TCP payload bounded by the IP length; results carry the packet's own endpoints"""
    from . import _endpoints as E
    E.tcp_from_payload(ctx, ctx.program, "R3", ("huginn_net_tls",))
    E.ipport_pairing(ctx, ctx.program, "R3", ("huginn_net_tls",))


def rule_reset(ctx):
    from . import _reset as RS
    RS.reset_complete(ctx, ctx.program, "R2", "TlsClientHelloReader")


def rule_dispatch(ctx):
    """in parallel mode all segments of a connection must reach the worker that holds its reader: the dispatch hash looks at the
    connection identity only (shared with C18.R2)"""
    from ..engine import report as R
    from . import C18
    C18.rule_R2(R.Retag(ctx, "C18."))


def rule_parallel(ctx):
    """parallel mode: the pool is built with the configured limits in their own positions, batches are processed in arrival order; the
    reader discards what it cannot use (C11.R1 on the reader buffer)"""
    from ..engine import report as R
    from . import _argswap as AS
    from . import _workers as W
    from . import C11
    AS.swapped_arguments(ctx, ctx.program, "W.R1", ("huginn_net_tls",), only_params=("max_connections", "queue_size", "batch_size", "timeout_ms", "num_workers"))
    W.fifo_batch(ctx, ctx.program, "huginn_net_tls", "tls", "W.R3")
    # a ClientHello is reported however the capture is composed: a packet the analyzer rejects (a UDP datagram between two segments)
    # does not end the run, and every worker can hold as many pending readers as configured
    W.capture_loop_exits(ctx, ctx.program, "W.R7")
    W.uniform_workers(ctx, ctx.program, "huginn_net_tls", "tls", "W.R2")
    C11.rule_R1(R.Retag(ctx, "C11."), only=("TlsClientHelloReader",))


def rule_framing(ctx):
    """segments reach the reader only if the frame is interpreted as what it is: the documented link-layer order (shared with C15.R9)"""
    from . import _endpoints as E
    E.link_layer_order(ctx, ctx.program, "R3", ("huginn_net_tls",))


def rule_flow_lifetime(ctx):
    """R3: a tracked flow outlives the gaps between the segments of one ClientHello: whole-second lifetime (shared rule _ttl)"""
    from . import _ttl
    _ttl.cache_ttls(ctx, ctx.program, "R3", ("huginn_net_tls",), 1)


def run(ctx):
    rule_flow_lifetime(ctx)
    rule_framing(ctx)
    rule_parallel(ctx)
    rule_dispatch(ctx)
    rule_reset(ctx)
    rule_segments(ctx)
    rule_reader(ctx)
    rule_prefix_kept(ctx)
    rule_flow(ctx)
    rule_retained(ctx)
