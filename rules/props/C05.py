"""C05 - HTTP/1.x heads are reported faithfully and independently of the body.

Structural clauses decided:
 R1 the body is cut off before any decoding: what is UTF-8 validated / split into lines is a prefix of the input that
    ends at the EARLIEST blank line (CRLFCRLF or LFLF) found by a byte search
 R2 no reordering operation is applied to the header vectors between parsing and the observable
 R3 lookup maps are filled first-wins (entry().or_insert, or insert guarded by !contains_key)
 R4 request lists drive requests, response lists responses (optional / skip-value / common lists; is_request flags at the
    call sites)
 R5 preferred language: higher q wins, ties go to the earlier entry; q-values are compared as parsed (no rounding)
 R6 head routing: request line -> (method, uri, version); version restricted to 1.0/1.1; cookie / referer split out
 R7 absent-header list: names compared case-folded on both sides; every header of the message counts as present
 R8 header lines / cookie pairs are divided at their first separator only
 R9 the header order records the value as parsed (no value dependent dropping)
 R10 the header-count cap is inclusive (exactly max_headers headers are accepted)
 R11 nothing on the HTTP/1 path validates the whole input (head and body) with a strict UTF-8 conversion
 R12 header names / values are trimmed with trim() (spaces and tabs)
 R2  (also) each header yields exactly one header-order entry (the pushes of the per-header loop are mutually exclusive)
"""
from ..engine import lists as L
from ..engine import q as Q
from ..engine import tables as TB
from ..engine import terms as T
from ..engine.facts import AnchorMissing, callee_of

EXPLANATION = ("Origin slice of the argument of str::from_utf8 in Http1Parser::parse_request/parse_response (must be a prefix slice "
               "bounded by a blank-line search); forbidden-call scan over header vectors; idiom check of the lookup map; dominating "
               "conditions of the list selectors; argument order of the language comparator; field origins of the request aggregate.")
TRUSTED = ["str::split / lines / trim semantics", "HashMap::entry().or_insert keeps the first value", "Iterator::max_by returns the last maximum"]
DECLINED = ["exactness of names / values / whitespace trimming", "cookie splitting details", "RFC 7230 grammar coverage (methods, obs-fold)"]
ASSUMPTIONS = ["p0f header-name matching is case sensitive (as in p0f), so HTTP/1 name comparisons are not case-folded"]

HP = "Http1Parser"


def _prefix_slice_of_param(t, pname="data"):
    """Is t (strip'ed) `&data[..end]` / data.get(..end) / split_at(..).0 with `end` derived from a search for the blank line?"""
    t = T.strip(t)
    # follow helper calls that return a sub-slice of their argument
    if t[0] == "call":
        c = t[1]
        if c.endswith("::index") and len(t[2]) == 2:
            r = T.strip(t[2][1])
            base = T.strip(t[2][0])
            if r[0] == "agg" and (r[2] or "").endswith(("ops::RangeTo", "ops::Range", "ops::RangeToInclusive")) and base[0] == "param":
                return _is_blankline_search(r[4][-1])
        if (c.endswith("::get") or c.endswith("::split_at") or c.endswith("split_at_checked")) and t[2]:
            base = T.strip(t[2][0])
            if base[0] == "param":
                return any(_is_blankline_search(x) for x in t[2][1:])
        if c.endswith("::unwrap_or") or c.endswith("::unwrap_or_default"):
            return _prefix_slice_of_param(t[2][0], pname)
    if t[0] in ("field", "downcast"):
        return _prefix_slice_of_param(t[1], pname)
    if t[0] in ("ref", "deref"):
        return _prefix_slice_of_param(t[2] if t[0] == "ref" else t[1], pname)
    if t[0] == "phi":
        # `match data.get(..end) { Some(head) => head, None => data }` is `data.get(..end).unwrap_or(data)`: the whole input is the
        # fallback of an out-of-range prefix, never the normal case
        alts = [T.strip(x) for x in t[1]]
        pref = [x for x in alts if _prefix_slice_of_param(x, pname)]
        rest = [x for x in alts if x not in pref]
        return bool(pref) and all(x[0] == "param" or (x[0] == "deref" and T.strip(x[1])[0] == "param") for x in rest)
    return False


def _is_blankline_search(t):
    for x in T.walk(t):
        if x[0] == "call" and any(x[1].endswith(k) for k in ("::position", "::find", "memmem", "::windows", "::rposition")):
            return True
        if x[0] == "agg" and x[1] == "closure":
            return True
    return False


def _earliest_problem(term):
    """When several blank-line searches are combined, the head must end at the earliest hit."""
    calls = T.calls_in(term)
    searches = {(c[1], c[3]) for c in calls if c[1].endswith(("::position", "::find", "::rposition", "::rfind"))}
    mx = [T.short(c[1]) for c in calls if c[1].endswith(("::max", "::max_by", "::max_by_key", "::last", "::rposition", "::rfind", "::next_back"))]
    mn = [c for c in calls if c[1].endswith(("::min", "::min_by", "::min_by_key"))]
    if mx:
        return "the end of the head is chosen with %s: with two blank-line forms present the later one wins and body bytes are decoded as head" % ",".join(sorted(set(mx)))
    if len(searches) >= 2 and not mn:
        return "two blank-line searches are combined without taking the earlier position"
    return None


def rule_R1(ctx):
    P = ctx.program
    seen_helpers = set()
    for fn in ("parse_request", "parse_response"):
        b = P.method1(HP, fn)
        S = T.Slicer(b, P)
        cs = Q.calls(b, ["str::from_utf8", "from_utf8_lossy", "converts::from_utf8"])
        if not cs:
            ctx.cannot("R1", fn + ":decode", "no UTF-8 decoding call found", ctx.loc(b))
            continue
        for blk, t in cs:
            a = Q.call_args(b, S, blk, t)
            arg = a[0]
            whole = T.strip(arg)[0] == "param"
            ok = False
            if not whole:
                ok = _prefix_slice_of_param(arg)
                if not ok:
                    # helper function returning the head: accept a call into the crate whose body returns a prefix slice of its parameter
                    st = T.strip(arg)
                    if st[0] == "call" and st[1] in P.bodies and st[2] and T.strip(st[2][-1])[0] == "param":
                        hb = P.bodies[st[1]]
                        HS = T.Slicer(hb, P)
                        rets = TB.return_sites(hb, P)
                        # every exit returns the prefix up to the blank line; the whole input only as the fallback arm of that prefix
                        # (`match data.get(..end) { Some(h) => h, None => data }` = `data.get(..end).unwrap_or(data)`)
                        pref_ = [term for (_, _, term, _c) in rets if _prefix_slice_of_param(term)]
                        rest_ = [T.strip(term) for (_, _, term, _c) in rets if not _prefix_slice_of_param(term)]
                        ok = bool(pref_) and all(x[0] == "param" for x in rest_) and len(rest_) <= 1 and \
                            any(_is_blankline_search(term) for (_, _, term, _c) in rets)
                        if ok and hb.path not in seen_helpers:
                            seen_helpers.add(hb.path)
                            probs = [p for p in (_earliest_problem(term) for (_, _, term, _c) in rets) if p]
                            ctx.check(not probs, "R1", T.short(hb.path) + ":earliest-blank-line", "the head ends at the first blank line (CRLFCRLF or LFLF, whichever comes first)",
                                      "; ".join(probs), ctx.loc(hb))
            if ok and not whole:
                pr = _earliest_problem(arg)
                if pr and not any(T.strip(arg)[0] == "call" and T.strip(arg)[1] in seen_helpers for _ in (0,)):
                    ctx.fail("R1", fn + ":earliest-blank-line", pr, ctx.loc(b, blk))
            ctx.check(ok, "R1", fn + ":head-only",
                      "only the bytes up to the blank line are decoded and split",
                      "%s validates and splits the *whole* input (head and body) as UTF-8 text: a binary body makes a complete, valid head unparsable "
                      "(InvalidUtf8), and a body containing bare `\\n\\n` or different line endings changes how the head is split" % fn, ctx.loc(b, blk))


def rule_R2_R3(ctx):
    P = ctx.program
    bodies = [P.method1(HP, "parse_request"), P.method1(HP, "parse_response"), P.method1(HP, "parse_headers"),
              P.body("huginn_net_http::http1_process::convert_headers_to_http_format"),
              P.body("huginn_net_http::http1_process::build_absent_headers_from_new_parser"),
              P.body("huginn_net_http::http1_process::convert_http1_request_to_observable"),
              P.body("huginn_net_http::http1_process::convert_http1_response_to_observable")]
    bad = []
    for b in bodies:
        for blk, t in b.calls():
            n = callee_of(t)
            if any(n.endswith(k) or k in n for k in ("::sort", "sort_by", "sort_unstable", "::reverse", "::rev", "::dedup", "swap_remove", "::swap", "::retain", "::rotate_")):
                bad.append((b, blk, T.short(n)))
            if ("hash_map::Iter" in n or "HashMap" in n and n.endswith("::iter")) or "hash_map::IntoIter" in n or "hash_map::Values" in n or "hash_map::Keys" in n:
                bad.append((b, blk, T.short(n)))
    ctx.check(not bad, "R2", "http1:no-reordering", "no sort/reverse/dedup/retain/swap/hash-iteration on the head path (%d bodies)" % len(bodies),
              "header order can be changed by %s" % [(T.short(b.path), c) for b, _, c in bad][:3], ctx.loc(bad[0][0], bad[0][1]) if bad else None)
    # horder pushes happen in one forward loop over the parsed headers
    cv = bodies[3]
    S = T.Slicer(cv, P)
    lb = L.list_build(P, cv)
    if lb is None:
        ctx.cannot("R2", "http1:horder-forward", "neither a push loop nor an iterator chain builds the returned header list", ctx.loc(cv))
    else:
        ctx.check(len(lb.elements) == 3 and lb.forward, "R2", "http1:horder-forward", "horder built in one forward pass over the parsed headers (3 arms, %s form)" % lb.form,
                  "horder construction is not one forward pass (elements=%d, iterators=%s)" % (len(lb.elements), [T.short(n) for n in lb.iterators]), ctx.loc(cv))
        # each arm yields Header::new(&header.name) of the *current* header
        okname = 0
        for (eb, blk, v) in lb.elements:
            if any(x[0] == "call" and x[1].endswith("Header::new") and any(y[0] == "field" and y[2] == "name" for y in T.walk(x)) for x in T.walk(v)):
                okname += 1
        ctx.check(okname == 3, "R2", "http1:horder-names", "every horder entry carries the wire name of its header", "horder entries are not built from header.name", ctx.loc(cv))
    # R3 first-wins maps
    n = 0
    for b in bodies[:2]:
        SB = T.Slicer(b, P)
        ent_guarded = []
        ins = []
        for iblk, t in Q.calls(b, "HashMap::<K, V, S, A>::insert"):
            # `if !map.contains_key(&k) { map.insert(k, v) }` is the same first-wins rule written by hand
            a = Q.call_args(b, SB, iblk, t)
            guarded = False
            for c in Q.canon_conds(P, T.dom_conds(b, SB, iblk)):
                if c[0] == "bool" and c[2] is False and c[1][0] == "call" and c[1][1].endswith("::contains_key") and len(c[1][2]) == 2:
                    same_map = T.canon_value(T.strip(c[1][2][0])) == T.canon_value(T.strip(a[0]))
                    same_key = T.pp(T.canon_value(T.strip(c[1][2][1]))) == T.pp(T.canon_value(T.strip(a[1])))
                    guarded = guarded or (same_map and same_key)
            if not guarded:
                ins.append(t)
            else:
                ent_guarded.append(t)
        ent = [t for _, t in Q.calls(b, "Entry::<'a, K, V, A>::or_insert")] + [t for _, t in Q.calls(b, "::or_insert_with")]
        n += 1
        ctx.check(not ins and len(ent) + len(ent_guarded) >= 1, "R3", b.name + ":first-wins", "lookup map filled with entry().or_insert (first value kept)",
                  "lookup map uses insert (last duplicate wins) or no first-wins idiom: host / user-agent / accept-language / server would come from a later duplicate", ctx.loc(b))
    ctx.floor("R3", "lookup maps", n, 2)


def rule_R4(ctx):
    P = ctx.program
    for fn, lists in (("convert_headers_to_http_format", ("optional_headers", "skip_value_headers")), ("build_absent_headers_from_new_parser", ("common_headers",))):
        b = P.body("huginn_net_http::http1_process::" + fn)
        S = T.Slicer(b, P)
        got = {}
        for blk, t in b.calls():
            nm = callee_of(t).rsplit("::", 1)[-1]
            for l in lists:
                if nm.endswith(l):
                    for c in Q.canon_conds(P, T.dom_conds(b, S, blk)):
                        if c[0] == "bool" and T.strip(c[1])[0] == "param" and T.strip(c[1])[2] == "is_request":
                            got[nm] = c[2]
        want = {}
        for l in lists:
            want["request_" + l] = True
            want["response_" + l] = False
        ctx.check(got == want, "R4", fn + ":list-routing", "request_* lists iff is_request", "list selection is %s, expected %s" % (got, want), ctx.loc(b))
    # callers pass true for requests / false for responses; expsw from user_agent / server
    for fn, flag, sw in (("convert_http1_request_to_observable", True, "user_agent"), ("convert_http1_response_to_observable", False, "server")):
        b = P.body("huginn_net_http::http1_process::" + fn)
        S = T.Slicer(b, P)
        okf = True
        n = 0
        for blk, t in Q.calls(b, ["convert_headers_to_http_format", "build_absent_headers_from_new_parser"]):
            a = Q.call_args(b, S, blk, t)
            k = T.strip(a[1])
            n += 1
            okf = okf and k[0] == "const" and k[1] is flag and any(x[0] == "field" and x[2] == "headers" for x in T.walk(a[0]))
        ctx.check(okf and n == 2, "R4", fn + ":flag", "lists selected with is_request=%s over the parsed headers" % flag, "%s passes the wrong direction flag" % fn, ctx.loc(b))
        ag = [x for x in Q.aggregates(b) if x[2]["r"]["path"].endswith(("HttpRequestObservation", "HttpResponseObservation"))]
        if ag:
            i, j, s = ag[0]
            f = {nm: S.operand(o, i, j) for nm, o in zip(s["r"]["fields"], s["r"]["ops"])}
            ctx.check(any(x[0] == "field" and x[2] == sw for x in T.walk(f["expsw"])) and any(x[0] == "field" and x[2] == "version" for x in T.walk(f["version"]))
                      and T.has_call(f["horder"], "convert_headers_to_http_format") and T.has_call(f["habsent"], "build_absent_headers_from_new_parser"),
                      "R4", fn + ":observation", "version / horder / habsent / expsw(%s) routed" % sw, "observation fields are wired wrongly", ctx.loc(b, i))


def rule_request_line_rejections(ctx):
    """R1: a request line is refused for its length, its number of parts, its version or its method - never for what the request target
    looks like (origin-form, absolute-form, authority-form `CONNECT host:443` and asterisk-form `OPTIONS *` are all request targets,
    RFC 7230 5.3): every condition that decides an Err exit of parse_request_line is one of those four tests"""
    from ..engine import paths as PA
    P = ctx.program
    b = P.method1("Http1Parser", "parse_request_line")
    S = T.Slicer(b, P)
    n = 0
    odd = []
    for (rb, j, term, _c) in TB.return_sites(b, P):
        tt = T.strip(term)
        if not ((tt[0] == "agg" and tt[3] == "Err") or (tt[0] == "call" and tt[1].endswith("::from_residual"))):
            continue
        n += 1
        trails, trunc = PA.enumerate_paths(b, 0, 2000, stop={rb})
        trails = [tr for tr in trails if tr[-1] == rb]
        if trunc or not trails:
            odd.append((rb, "paths not enumerable"))
            continue
        deciding = PA.deciding_blocks(b, S, rb, j if j >= 0 else None)
        for tr in trails:
            for c in [Q._norm_cmp(x) for x in PA.path_conds(P, b, S, tr) if x[-1] in deciding]:
                txt = T.pp(c[1] if c[0] != "cmp" else c[2]) + (T.pp(c[3]) if c[0] == "cmp" else "")
                if c[0] == "cmp" and (T.has_call(c[2], "::len") or T.has_call(c[3], "::len")):
                    continue                                  # length cap / number of parts
                if "Version" in txt or "version" in txt:
                    continue                                  # version text not recognised / not 1.0 or 1.1
                if "is_valid_method" in txt:
                    continue
                # (a one-line `is_valid_method` is expanded into its test: membership of the method in the table of method names)
                if any(x[0] == "const" and (b"GET" in (x[1] if isinstance(x[1], (bytes, bytearray)) else b"") or (isinstance(x[1], str) and x[1] == "GET") or
                                             (x[2] or "").endswith("VALID_METHODS") or (x[3] or "").startswith("&[&str;")) for y in ([c[1]] if c[0] != "cmp" else [c[2], c[3]]) for x in T.walk(y)):
                    continue
                if c[0] in ("variant", "variant_in") and T.strip(c[1])[0] == "agg":
                    continue                                  # a `?` on a value built just before
                if c[0] == "bool" and T.strip(c[1])[0] == "const":
                    continue
                odd.append((rb, txt[:70]))
    ctx.check(not odd, "R1", "parse_request_line:rejections", "%d Err exits, decided by length / part count / version / method only" % n,
              "parse_request_line also rejects a request line on `%s`: well-formed requests whose target has another of the RFC 7230 forms are never reported"
              % (odd[0][1] if odd else ""), ctx.loc(b, odd[0][0]) if odd else None)
    ctx.floor("R1", "Err exits of parse_request_line", n, 4)


def rule_q_default(ctx):
    """R5: a language range without a `q` parameter has quality 1 (RFC 7231 5.3.1): wherever the parsed q-value may be absent, the value
    used instead is the constant 1.0"""
    import struct
    P = ctx.program
    b = P.body("huginn_net_http::http_languages::get_highest_quality_language")
    from ..engine import lists as L
    found = []
    for cb in L.with_closures(P, b):
        CS = T.Slicer(cb, P)
        for blk, t in cb.calls():
            last = callee_of(t).rsplit("::", 1)[-1]
            if last not in ("unwrap_or", "unwrap_or_default", "unwrap_or_else", "map_or", "map_or_else") or "Option" not in callee_of(t):
                continue
            if not (cb.local_ty(t["dest"]["l"]) or "").startswith(("f32", "f64")):
                continue
            a = Q.call_args(cb, CS, blk, t)
            d = T.strip(a[1]) if last in ("unwrap_or", "map_or") and len(a) > 1 else None
            val = None
            if d is not None and d[0] == "const" and isinstance(d[1], tuple) and d[1] and d[1][0] == "f":
                val = struct.unpack("<f", struct.pack("<I", d[1][1]))[0] if d[1][2] == 4 else struct.unpack("<d", struct.pack("<Q", d[1][1]))[0]
            found.append((cb, blk, last, val))
    if not found:
        ctx.cannot("R5", "language:q-default", "no defaulting of an absent q-value found", ctx.loc(b))
    for (cb, blk, last, val) in found:
        ctx.check(val == 1.0, "R5", "language:q-default", "absent q means 1.0",
                  "a language range without `q` is given quality %s (%s): RFC 7231 says 1, so an unweighted range loses against any weighted one and the reported "
                  "language changes" % (val if val is not None else "the type's default / a computed value", last), ctx.loc(cb, blk))


def rule_R5(ctx):
    P = ctx.program
    b = P.body("huginn_net_http::http_languages::get_highest_quality_language")
    S = T.Slicer(b, P)
    mb = Q.calls(b, ["Iterator::max_by", "Iterator::min_by"])
    if len(mb) != 1:
        ctx.cannot("R5", "language:selector", "max_by/min_by not found", ctx.loc(b))
        return
    blk, t = mb[0]
    is_max = callee_of(t).endswith("max_by")
    a = Q.call_args(b, S, blk, t)
    cl = T.strip(a[1])
    cb = P.bodies.get(cl[2]) if cl[0] == "agg" and cl[1] == "closure" else None
    if cb is None:
        ctx.cannot("R5", "language:comparator", "comparator closure not found", ctx.loc(b, blk))
        return
    q_ok = idx_ok = False
    # the comparator and the closures it creates (`.then_with(|| b.1.cmp(&a.1))`): captured operands are traced back to the
    # comparator's own parameters
    sites = []
    for xb in L.with_closures(P, cb):
        XS = T.Slicer(xb, P)
        for cblk, ct in xb.calls():
            args = Q.call_args(xb, XS, cblk, ct)
            if xb is not cb:
                args = [T.expand_upvars(P, xb, y, depth=1) for y in args]
            sites.append((callee_of(ct), args))
    for n, args in sites:
        if n.endswith("partial_cmp") or n.endswith("total_cmp"):
            pa = [({x[1] for x in T.params_in(y)}, [x[2] for x in T.walk(y) if x[0] == "field"]) for y in args]
            # quality: field 0 of a vs field 0 of b, natural order for max_by
            q_ok = pa[0][0] == {1} and pa[1][0] == {2} and 0 in pa[0][1] and 0 in pa[1][1]
            if not is_max:
                q_ok = pa[0][0] == {2} and pa[1][0] == {1}
        if n.endswith("::cmp") and "Ord" in n:
            pa = [({x[1] for x in T.params_in(y)}, [x[2] for x in T.walk(y) if x[0] == "field"]) for y in args]
            # index: reversed (b.1 vs a.1) under max_by so that the earlier entry is the maximum
            idx_ok = 1 in pa[0][1] and 1 in pa[1][1] and ((pa[0][0] == {2} and pa[1][0] == {1}) if is_max else (pa[0][0] == {1} and pa[1][0] == {2}))
    ctx.check(q_ok and idx_ok, "R5", "language:comparator", "quality compared first (higher wins); on ties the earlier index wins",
              "language comparator does not implement `higher q first, earlier entry on ties` (quality ok=%s, tie rule ok=%s)" % (q_ok, idx_ok), ctx.loc(cb))
    # default quality 1.0 and index from enumerate over split(',')
    en = any(callee_of(t2).endswith("::enumerate") for _, t2 in b.calls()) and any(callee_of(t2).endswith("::split") for _, t2 in b.calls())
    ctx.check(en, "R5", "language:index-source", "index = position in the comma separated list", "tie index is not the list position", ctx.loc(b))


def rule_R5b(ctx):
    """the compared q-value is the parsed number itself (no rounding / truncation before the comparison)"""
    P = ctx.program
    b = P.body("huginn_net_http::http_languages::get_highest_quality_language")
    found = False
    for cb in P.closures_of(b.path):
        S = T.Slicer(cb, P)
        for i, j, s in cb.iter_stmts():
            if s["k"] == "assign" and s["r"]["k"] == "agg" and s["r"]["ak"] == "tuple" and len(s["r"]["ops"]) == 3:
                t = S.rvalue(s["r"], i, j)
                q = T.expand_upvars(P, cb, t[4][0])
                ty = cb.locals[s["p"]["l"]]["ty"] if not s["p"]["pr"] else ""
                if not (ty.startswith("(") and ty.count(",") == 2 and "usize" in ty.split(",")[1]):
                    continue
                found = True
                if not ty.startswith("(f32,") and not ty.startswith("(f64,"):
                    ctx.fail("R5", "language:q-precision", "q-values are compared as `%s`, not as the parsed fraction: entries that differ only in a later decimal tie and the "
                             "earlier, lower-quality language wins" % ty.split(",")[0].lstrip("("), ctx.loc(cb, i))
                    continue
                lossy = [x for x in T.walk(q) if x[0] == "cast" and x[1] in ("FloatToInt", "IntToFloat", "IntToInt")]
                arith = [x for x in T.walk(q) if x[0] == "binop" and x[1] in ("Mul", "Div", "Add", "Sub", "Rem")]
                rnd = [c for c in T.calls_in(q) if c[1].endswith(("::round", "::floor", "::ceil", "::trunc"))]
                ctx.check(not lossy and not arith and not rnd, "R5", "language:q-precision", "q-values are compared as parsed (f32), default 1.0",
                          "the q-value is %s before the comparison: entries that differ only in a later decimal (RFC 7231 allows three) tie, and the earlier, "
                          "lower-quality language wins" % ("converted (%s)" % lossy[0][1] if lossy else "rounded" if rnd else "rescaled"), ctx.loc(cb, i))
    if not found:
        ctx.cannot("R5", "language:q-precision", "the (quality, index, name) tuple of the language selection was not found", ctx.loc(b))


SELECTIVE = ("::filter", "::filter_map", "::take", "::skip", "::take_while", "::skip_while", "::step_by", "::nth", "::dedup", "::retain", "::truncate")


def rule_R11(ctx):
    """R11: nothing on the HTTP/1 path validates the whole captured input (head AND body) as UTF-8: strict `str::from_utf8` is only
    applied to the head cut off by head_of; detection helpers that look at the start of the data use the lossy conversion"""
    P = ctx.program
    n = 0
    bad = []
    for b in P.bodies.values():
        if b.crate != "huginn_net_http" or not any(m in b.path for m in ("::http1_parser::", "::http1_process::", "::http_process::")):
            continue
        S = None
        for blk, t in b.calls():
            nm = callee_of(t)
            if not (nm.endswith("str::from_utf8") or nm.endswith("converts::from_utf8") or nm.endswith("String::from_utf8")):
                continue
            S = S or T.Slicer(b, P)
            a = Q.call_args(b, S, blk, t)
            n += 1
            arg = T.strip(a[0])
            while arg[0] in ("ref", "deref"):
                arg = T.strip(arg[2] if arg[0] == "ref" else arg[1])
            whole = arg[0] == "param" or (arg[0] == "call" and arg[1].endswith(("::to_vec", "::to_owned", "::clone")) and T.strip(arg[2][0])[0] in ("param", "ref", "deref") and not T.calls_in(arg[2][0]))
            if whole:
                bad.append((b, blk))
    ctx.check(not bad, "R11", "http1:no-strict-utf8-on-whole-input", "%d strict UTF-8 validations, none of them over the whole input" % n,
              "%s validates the whole captured buffer (head and body) with a strict UTF-8 conversion: a well-formed head followed by a binary body is no longer recognised"
              % (T.short(bad[0][0].path) if bad else ""), ctx.loc(bad[0][0], bad[0][1]) if bad else None)
    ctx.floor("R11", "strict UTF-8 conversions on the HTTP/1 path", n, 2)


def rule_R12(ctx):
    """R12: header names and values are trimmed of optional whitespace with `trim()` (spaces AND tabs, RFC 7230 OWS)"""
    P = ctx.program
    b = P.method1("Http1Parser", "parse_headers")
    S = T.Slicer(b, P)
    ags = Q.aggregates(b, "HttpHeader")
    if not ags:
        ctx.cannot("R12", "parse_headers:trim", "HttpHeader construction not found", ctx.loc(b))
        return
    for (i, j, s) in ags[:1]:
        f = dict(zip(s["r"]["fields"], [S.operand(o, i, j) for o in s["r"]["ops"]]))
        for fld in ("name", "value"):
            t = f.get(fld)
            calls = [x[1] for x in T.calls_in(t)] if t is not None else []
            for x in (T.walk(t) if t is not None else []):
                if x[0] == "agg" and x[1] == "closure" and x[2] in P.bodies:
                    calls += [callee_of(ct) for _, ct in P.bodies[x[2]].calls()]
            full = any(c.endswith("str>::trim") or c.endswith("<impl str>::trim") or c.endswith("str::trim") for c in calls)
            partial = sorted({T.short(c) for c in calls if c.endswith(("::trim_matches", "::trim_start_matches", "::trim_end_matches", "::trim_start", "::trim_end", "::strip_prefix", "::strip_suffix", "::trim_ascii_start"))})
            ctx.check(full and not partial, "R12", "parse_headers:%s:trimmed" % fld, "header %s = trim() of its part of the line" % fld,
                      "the header %s is trimmed with %s instead of trim(): a tab (the other half of optional whitespace) stays in the reported %s, user agent, software string and "
                      "signature values" % (fld, ",".join(partial) or "nothing", fld), ctx.loc(b, i))


def rule_R10(ctx):
    """R10: the header-count cap admits a head with exactly max_headers headers (the documented limit is inclusive)"""
    P = ctx.program
    b = P.method1("Http1Parser", "parse_headers")
    S = T.Slicer(b, P)
    found = False
    for (rb, j, term, _c) in TB.return_sites(b, P):
        tt = T.strip(term)
        if not (tt[0] == "agg" and tt[3] == "Err" and any(x[0] == "agg" and x[3] == "TooManyHeaders" for x in T.walk(tt))):
            continue
        for c in Q.canon_conds(P, T.dom_conds(b, S, rb)):
            if c[0] == "cmp" and any(x[0] == "field" and x[2] == "max_headers" for x in T.walk(c[3])) and T.has_call(c[2], "::len"):
                found = True
                strict = (c[1] == "Gt" and c[4]) or (c[1] == "Le" and not c[4])
                ctx.check(strict, "R10", "parse_headers:max-headers-inclusive", "rejected only when the number of header lines exceeds max_headers",
                          "a head with exactly max_headers header lines is rejected (comparison %s%s): well-formed heads at the documented limit are not reported"
                          % (c[1], "" if c[4] else " negated"), ctx.loc(b, rb))
    if not found:
        ctx.cannot("R10", "parse_headers:max-headers-inclusive", "TooManyHeaders exit with a `len > max_headers` test not found", ctx.loc(b))


def rule_R8(ctx):
    """R8: a header line / cookie pair is divided at its FIRST separator only (`:` / `=`): the value is everything after it, so values
    that contain the separator themselves (URLs, base64 padding, k=v payloads) are reported whole"""
    P = ctx.program
    sites = (("huginn_net_http::http1_parser::Http1Parser", "parse_cookies", "="), ("huginn_net_http::http1_parser::Http1Parser", "parse_headers", ":"),
             ("huginn_net_http::http2_parser::Http2Parser", "parse_cookies_from_headers", "="))
    n = 0
    for ty, fn, sep in sites:
        try:
            b = P.method1(ty.split("::")[-1], fn)
        except AnchorMissing as e:
            ctx.cannot("R8", fn + ":first-separator", str(e))
            continue
        S = T.Slicer(b, P)
        bad = []
        good = 0
        for cb in [b] + P.closures_of(b.path):
            CS = T.Slicer(cb, P) if cb is not b else S
            for blk, t in cb.calls():
                nm = callee_of(t)
                if "str" not in nm:
                    continue
                last = nm.rsplit("::", 1)[-1]
                if last not in ("split", "rsplit", "split_terminator", "rsplitn", "rsplit_once", "rfind", "find", "split_once", "splitn", "split_inclusive"):
                    continue
                a = Q.call_args(cb, CS, blk, t)
                pats = [x[1] for y in a[1:] for x in T.walk(y) if x[0] == "const" and isinstance(x[1], str)]
                if sep not in pats:
                    continue
                if last in ("find", "split_once"):
                    good += 1
                elif last == "splitn":
                    k = [T.fold_int(y) for y in a[1:] if T.fold_int(y) is not None]
                    if k and k[0] == 2:
                        good += 1
                    else:
                        bad.append((cb, blk, "%s(%s, ..)" % (last, k)))
                else:
                    bad.append((cb, blk, last + "(%r)" % sep))
        n += good
        ctx.check(good >= 1 and not bad, "R8", fn + ":first-separator", "divided at the first `%s` (find / split_once / splitn(2))" % sep,
                  "%s divides at every `%s` (%s): a value that contains the separator is cut short (`session=dXNl==` gives `dXNl`, `prefs=lang=en` gives `lang`)"
                  % (fn, sep, ", ".join(x[2] for x in bad) or "no first-separator search found"), ctx.loc(bad[0][0], bad[0][1]) if bad else ctx.loc(b))
    ctx.floor("R8", "first-separator searches in header / cookie parsing", n, 3)


def rule_R9(ctx):
    """R9: what the header order (horder) records for an ordinary header is its value as parsed - no value dependent dropping"""
    P = ctx.program
    for path in ("huginn_net_http::http1_process::convert_headers_to_http_format", "huginn_net_http::http2_process::convert_http2_headers_to_http_format"):
        b0 = P.body(path)
        n = 0
        for b in L.with_closures(P, b0):
            S = T.Slicer(b, P)
            for blk, t in Q.calls(b, "with_optional_value"):
                a = Q.call_args(b, S, blk, t)
                n += 1
                v = T.expand_upvars(P, b, a[-1], depth=6)
                drops = sorted({T.short(x[1]) for x in T.calls_in(v) if x[1].endswith(("::filter", "::take_if", "::and_then", "::filter_map", "::xor", "::zip", "::then", "::then_some"))})
                fromv = any(x[0] == "field" and x[2] == "value" for x in T.walk(v))
                # the same droppers written out as a `match` (or inlined from a new closure): the value is merged with a fresh `None`
                if any(x[0] == "phi" and any(T.strip(y)[0] == "agg" and T.strip(y)[3] == "None" for y in x[1]) for x in T.walk(v)):
                    drops = sorted(set(drops) | {"a branch that replaces the value by None"})
                ctx.check(fromv and not drops, "R9", "%s:value-as-parsed" % T.short(path).split("::")[-1], "horder value = header.value",
                          "the value recorded in the header order goes through %s: a header with a particular value (e.g. an empty one) is rendered as if it had none "
                          "(`Name` instead of `Name=[]`)" % (",".join(drops) or "something other than header.value"), ctx.loc(b, blk))
        ctx.floor("R9", "with_optional_value sites in " + T.short(path).split("::")[-1], n, 1)


def rule_R7(ctx):
    """a common header that is present under any capitalisation is not listed as absent (header names are case-insensitive)"""
    P = ctx.program
    b0 = P.body("huginn_net_http::http1_process::build_absent_headers_from_new_parser")
    n = 0
    fold = ("to_lowercase", "to_ascii_lowercase", "to_uppercase", "to_ascii_uppercase")
    for b in L.with_closures(P, b0):
        S = T.Slicer(b, P)
        for blk, t in Q.calls(b, "::contains"):
            a = Q.call_args(b, S, blk, t)
            hay, needle = T.expand_upvars(P, b, a[0], depth=6), T.expand_upvars(P, b, a[1], depth=6)
            needle_f = any(T.has_call(needle, f) for f in fold)
            hay_f = any(T.has_call(hay, f) for f in fold)
            for x in T.walk(hay):
                if x[0] == "agg" and x[1] == "closure" and x[2] in P.bodies:
                    if any(callee_of(t2).endswith(fold) for _, t2 in P.bodies[x[2]].calls()):
                        hay_f = True
            n += 1
            sel = sorted({T.short(x[1]) for x in T.calls_in(hay) if x[1].endswith(SELECTIVE)})
            ctx.check(not sel, "R7", "absent-headers:all-present-names", "every header of the message counts as present",
                      "the set of present header names is built through %s: a header that is on the wire but filtered out there is listed as absent although it also appears "
                      "in the header order" % ",".join(sel), ctx.loc(b, blk))
            ctx.check(needle_f and hay_f, "R7", "absent-headers:case-fold", "present names and common-list names are compared case-folded",
                      "the absent-header list compares header names byte for byte (present side folded=%s, list side folded=%s): a common header sent as `host:` or `ACCEPT:` "
                      "is on the wire, appears in the header order, and is nevertheless listed as absent" % (hay_f, needle_f), ctx.loc(b, blk))
    for cb in L.with_closures(P, b0)[1:]:
        for blk, t in cb.calls():
            if callee_of(t).endswith("eq_ignore_ascii_case"):
                n += 1
                ctx.ok("R7", "absent-headers:ignore-case", "case-insensitive comparison", ctx.loc(cb, blk))
    ctx.floor("R7", "name comparisons in build_absent_headers_from_new_parser", n, 1)


def rule_R6(ctx):
    P = ctx.program
    b = P.method1(HP, "parse_request")
    S = T.Slicer(b, P)
    ag = Q.aggregates(b, "Http1Request")
    if not ag:
        ctx.cannot("R6", "parse_request:aggregate", "Http1Request not constructed", ctx.loc(b))
        return
    i, j, s = ag[0]
    f = {nm: S.operand(o, i, j) for nm, o in zip(s["r"]["fields"], s["r"]["ops"])}

    def tuple_idx(t):
        return [x[2] for x in T.walk(t) if x[0] == "field" and isinstance(x[2], int)]

    rl = all(T.has_call(f[k], "parse_request_line") for k in ("method", "uri", "version"))
    order = [tuple_idx(f[k])[:1] for k in ("method", "uri", "version")]
    ctx.check(rl and order == [[0], [1], [2]], "R6", "request-line:routing", "(method, uri, version) = parse_request_line(first line)",
              "request line fields are routed as %s" % order, ctx.loc(b, i))
    keys = {}
    for k in ("host", "user_agent", "accept_language", "connection", "transfer_encoding"):
        lits = [x[1] for x in T.consts_in(f[k]) if isinstance(x[1], str)]
        keys[k] = lits[0] if lits else None
    want = {"host": "host", "user_agent": "user-agent", "accept_language": "accept-language", "connection": "connection", "transfer_encoding": "transfer-encoding"}
    ctx.check(keys == want, "R6", "request:lookup-keys", "host / user-agent / accept-language looked up under their own lower-case names",
              "lookup keys are %s" % keys, ctx.loc(b, i))
    # cookie and referer are split out under their own names, everything else keeps its place in `headers`
    cond_lits = set()
    for blk, t in Q.calls(b, "Vec::<T, A>::push"):
        for c in Q.canon_conds(P, T.dom_conds(b, S, blk)):
            if c[0] == "cmp" and c[1] in ("Eq", "Ne"):
                for side in (c[2], c[3]):
                    ss = T.strip(side)
                    if ss[0] == "const" and isinstance(ss[1], str):
                        cond_lits.add((ss[1], (c[1] == "Eq") == c[4]))
    ctx.check(("cookie", False) in cond_lits and ("referer", False) in cond_lits, "R6", "request:cookie-referer-split",
              "headers other than cookie / referer are pushed to the ordered list", "cookie/referer exclusion from the header list changed: %s" % sorted(cond_lits), ctx.loc(b))
    # parse_request_line: version restricted, method validated, three parts
    rb = P.method1(HP, "parse_request_line")
    SR = T.Slicer(rb, P)
    oks = [(blk, term) for (blk, j2, term, _c) in TB.return_sites(rb, P) if term[0] == "agg" and term[3] == "Ok"]
    if oks:
        blk, term = oks[0]
        cs = Q.canon_conds(P, T.dom_conds(rb, SR, blk))
        three = any(c[0] == "cmp" and c[1] in ("Ne", "Eq") and T.fold_int(c[3]) == 3 and ((c[1] == "Eq") == c[4]) for c in cs)
        ver = any(c[0] in ("variant", "variant_in") and set([c[2]] if c[0] == "variant" else c[2]) <= {"V10", "V11"} and c[3] for c in cs) or \
            any(c[0] == "int" for c in cs)
        meth = any(c[0] == "bool" and c[1][0] == "call" and c[1][1].endswith("is_valid_method") and c[2] for c in cs) or \
            any(c[0] in ("bool", "cmp") and any(x[0] == "const" and ((isinstance(x[1], (bytes, bytearray)) and b"GET" in x[1]) or x[1] == "GET" or
                                                                 (x[2] or "").endswith("VALID_METHODS") or (x[3] or "").startswith("&[&str;"))
                                                for y in ([c[1]] if c[0] == "bool" else [c[2], c[3]]) for x in T.walk(y)) for c in cs)
        ctx.check(three and meth, "R6", "request-line:shape", "three whitespace separated parts, valid method%s" % (", version in {1.0, 1.1}" if ver else ""),
                  "request line acceptance changed (three parts=%s, method check=%s)" % (three, meth), ctx.loc(rb, blk))


def rule_adapters_pass_buffer(ctx):
    """R1: the parser adapters (impls of the HttpParser trait) hand the reassembled bytes to the protocol processor as they are: whether a
    stream is recognised (can_parse) and what is parsed never depends on a prefix, suffix or copy the adapter cut out itself"""
    P = ctx.program
    n = 0
    for b in sorted(P.bodies.values(), key=lambda x: x.path):
        if b.crate != "huginn_net_http" or b.kind != "AssocFn" or not (b.impl_trait or "").endswith("HttpParser") or b.name not in ("can_parse", "parse_request", "parse_response"):
            continue
        S = T.Slicer(b, P)
        for blk, t in b.calls():
            nm = callee_of(t)
            if not nm.startswith("huginn_net") and "HttpProcessor" not in nm:
                continue
            if len(t["args"]) < 2:
                continue
            a = Q.call_args(b, S, blk, t)
            n += 1
            d = T.strip(a[1])
            ok = d[0] == "param" and d[2] == "data"
            ctx.check(ok, "R1", "adapter:%s::%s->%s" % ((b.impl_self or "").split("::")[-1], b.name, T.short(nm).split("::")[-1]),
                      "the processor receives the buffer unchanged",
                      "%s::%s passes %s to %s instead of the whole buffer: a well-formed message whose decisive bytes lie outside that part (a request line longer than the "
                      "probe) is not recognised and silently not reported" % ((b.impl_self or "").split("::")[-1], b.name, T.pp(d)[:60], T.short(nm)), ctx.loc(b, blk))
    ctx.floor("R1", "processor calls in HttpParser adapters", n, 6)


def rule_rendering(ctx):
    """the derived signature is what the parsed head defines: its text rendering has the documented field / separator skeleton
    (shared with C06.R1 - a stray separator makes the reported signature differ from the one the same headers define)"""
    from ..engine import report as R
    from . import C06
    C06.rule_R1_composite(R.Retag(ctx, "C06."))


def rule_routing_ignores_body(ctx):
    """the HTTP/1 gate `can_process_request` rejects HTTP/2 traffic with is_http2_traffic: that test looks at the start of the bytes only
    (shared with C16.R4)"""
    from ..engine import report as R
    from . import C16
    C16.rule_preface_is_prefix(R.Retag(ctx, "C16."))


def _method_names(b):
    import re as _re
    out = set()

    def walk(o):
        if isinstance(o, dict):
            v = o.get("v")
            if isinstance(v, dict) and isinstance(v.get("str"), str) and _re.fullmatch(r"[A-Z][A-Z-]{2,15}", v["str"]):
                out.add(v["str"])
            for x in o.values():
                walk(x)
        elif isinstance(o, list):
            for x in o:
                walk(x)
    for blk in b.blocks:
        walk(blk)
    return out


def rule_method_tables_agree(ctx):
    """R1: the two tables of request methods say the same: every method the request-line parser accepts (`is_valid_method`) is also admitted
    by the gate that decides whether a payload is handed to that parser (`can_process_request`) - a method missing from the gate's table
    is a well-formed request the analyzer never reports"""
    P = ctx.program
    pb = [b for b in P.method("Http1Parser", "is_valid_method")]
    gb = [b for b in P.bodies.values() if b.crate == "huginn_net_http" and b.name == "can_process_request" and "Http1Processor" in b.path]
    if len(pb) != 1 or len(gb) != 1:
        ctx.ok("R1", "method-tables", "no separate is_valid_method / can_process_request pair to compare (%d / %d)" % (len(pb), len(gb)))
        return
    pm, gm = _method_names(pb[0]), _method_names(gb[0])
    if not pm or not gm:
        ctx.ok("R1", "method-tables", "method names are not literal in both functions (parser %d, gate %d): nothing to compare" % (len(pm), len(gm)))
        return
    for m in sorted(pm - gm):
        ctx.fail("R1", "gate-admits:" + m, "`%s` is a method the request-line parser accepts, but the HTTP/1 gate can_process_request does not list it: a well-formed "
                 "`%s <target> HTTP/1.1` head is never handed to the parser and the analyzer reports nothing for it" % (m, m), ctx.loc(gb[0]))
    ctx.ok("R1", "method-tables", "%d methods accepted by the parser, %d admitted by the gate" % (len(pm), len(gm)))
    ctx.floor("R1", "methods in the parser's table", len(pm), 9)


def run(ctx):
    rule_method_tables_agree(ctx)
    rule_routing_ignores_body(ctx)
    rule_rendering(ctx)
    rule_adapters_pass_buffer(ctx)
    rule_R1(ctx)
    rule_R2_R3(ctx)
    rule_R4(ctx)
    rule_request_line_rejections(ctx)
    rule_q_default(ctx)
    rule_R5(ctx)
    rule_R5b(ctx)
    rule_R6(ctx)
    rule_R7(ctx)
    rule_R8(ctx)
    rule_R9(ctx)
    rule_R10(ctx)
    rule_R11(ctx)
    rule_R12(ctx)
    from . import _http_lists as HL
    HL.direction_flags(ctx, ctx.program, "R4", "http1_process")
    HL.exclusive_pushes(ctx, ctx.program, "R2", "huginn_net_http::http1_process::convert_headers_to_http_format")
