"""C07 - Connections are analysed in isolation: results do not depend on other traffic.

Structural clauses decided:
 R1 no cross-flow mutable state is written on the per-packet path: every interior-mutable field (RefCell/Cell/Mutex/
    RwLock/Atomic/OnceCell) of the analyzer / processor / parser types that is written from the per-packet call graph
    must be in the reviewed allow-list (statistics counters, shutdown flag, result channel) or be re-initialised before use
 R2 every HTTP flow-cache operation is keyed by the packet's own full identity; an entry is removed under the key it was found with
 R3 per-flow data is only reached through the looked-up cache entry
 C08.R3 / C19.R1,R2,R4 the TLS reassembly cache and the TCP timestamp tracker are keyed by the packet's own connection
 W.R2 every worker gets the configured capacity and configuration unchanged
 W.R7 / W.R6 a rejected packet never ends a capture loop; a worker never discards a dequeued packet; C11.R1 (reader) a reader left in
 the flow table keeps no bytes it can never use; TW IPv4/IPv6 twins agree
"""
from ..engine import cfg as C
from ..engine import q as Q
from ..engine import terms as T
from ..engine.facts import AnchorMissing, callee_of

EXPLANATION = ("ADT scan for interior-mutable fields; call-graph closure from the per-packet entry points; receiver origins of every "
               "write-style call (borrow_mut/lock/store/fetch_*/set) on such fields; origins of every TtlCache key in the HTTP flow "
               "tracker, with the lookup key compared to the removal key.")
TRUSTED = ["TtlCache semantics", "hpack Decoder keeps a dynamic table between decode calls (RFC 7541)"]
DECLINED = ["equality of results between isolated and interleaved runs (needs execution)", "eviction effects at capacity (excluded by the property)"]
ASSUMPTIONS = ["allow-list of shared mutable state: dispatched_count, dropped_count, worker_dropped, shutdown_flag, result_sender (C18 decides their use)"]

ALLOW_FIELDS = {"dispatched_count", "dropped_count", "worker_dropped", "shutdown_flag", "result_sender"}
ENTRY_SUFFIXES = ("process::process_ipv4_packet", "process::process_ipv6_packet", "HuginnNet::<'a>::analyze_tcp")
IMUT = ("RefCell<", "Cell<", "Mutex<", "RwLock<", "Atomic", "OnceCell<", "OnceLock<", "UnsafeCell<")
WRITE_CALLS = ("::borrow_mut", "::lock", "::write", "::store", "::fetch_add", "::fetch_sub", "::swap", "::set", "::replace", "::get_or_init", "::try_borrow_mut")


def _reach(P):
    roots = [b for p, b in P.bodies.items() if p.endswith(ENTRY_SUFFIXES) and b.kind in ("Fn", "AssocFn")]
    seen = {}
    st = list(roots)
    while st:
        b = st.pop()
        if b.path in seen:
            continue
        seen[b.path] = b
        for blk, t in b.calls():
            for name in (t.get("res"), t.get("decl")):
                if name and name in P.bodies and name not in seen:
                    st.append(P.bodies[name])
            if t.get("res") is None or t.get("res") not in P.bodies:
                d = t.get("decl") or ""
                if d and d not in P.bodies:
                    for nb in Q.dyn_impl_targets(P, d):
                        if nb.path not in seen:
                            st.append(nb)
        for i, j, s in b.iter_stmts():
            if s["k"] == "assign" and s["r"]["k"] == "agg" and s["r"]["ak"] == "closure" and s["r"]["path"] in P.bodies and s["r"]["path"] not in seen:
                st.append(P.bodies[s["r"]["path"]])
    return roots, seen


def _reset_sites(P, body, f):
    """Blocks of `body` in which a freshly constructed value is stored into interior-mutable field f (through borrow_mut/lock)."""
    S = T.Slicer(body, P)
    out = []
    for i, j, s in body.iter_stmts():
        if s["k"] == "assign" and s["p"]["pr"] and s["p"]["pr"][0] == "*":
            base = S.local(s["p"]["l"], i, j)
            if any(x[0] == "field" and x[2] == f for x in T.walk(base)) and (T.has_call(base, "borrow_mut") or T.has_call(base, "::lock")):
                val = T.strip(S.rvalue(s["r"], i, j))
                if val[0] == "call" and (val[1].endswith("::new") or val[1].endswith("::default")) and not val[2]:
                    out.append(i)
    # the fresh value may be the result of a call terminator assigned in the next block: handle `(*guard) = move _tmp`
    return out


def _reset_before_use(P, wbody, wblk, f):
    """True if every path to the write at (wbody, wblk) passes a reset of field f: either in wbody itself (dominating),
    or in every intra-crate caller of wbody (dominating the call)."""
    rs = _reset_sites(P, wbody, f)
    if any(C.dominates(wbody, r, wblk) for r in rs):
        return True
    # the write may itself be the reset: its guard is the base of a fresh-value store
    S = T.Slicer(wbody, P)
    for i, j, s in wbody.iter_stmts():
        if i in rs and s["k"] == "assign" and s["p"]["pr"] and s["p"]["pr"][0] == "*":
            base = S.local(s["p"]["l"], i, j)
            if any(x[0] == "call" and len(x) > 3 and x[3] == wblk for x in T.walk(base)):
                return True
    callers = []
    for b in P.bodies.values():
        if b.crate != wbody.crate:
            continue
        for blk, t in b.calls():
            if (t.get("res") or t.get("decl")) == wbody.path:
                callers.append((b, blk))
    if not callers:
        return False
    for (cb, cblk) in callers:
        rs = _reset_sites(P, cb, f)
        if not any(C.dominates(cb, r, cblk) and r != cblk for r in rs):
            return False
    return True


def rule_R1(ctx, rule="R1"):
    P = ctx.program
    fields = {}
    for path, adt in P.adts.items():
        if adt["kind"] != "struct":
            continue
        for f in adt["variants"][0]["fields"]:
            if any(k in f["ty"] for k in IMUT):
                fields[(path, f["name"])] = f["ty"]
    ctx.extra["interior_mutable_fields"] = ["%s.%s: %s" % (p.split("::", 1)[1], n, ty[:60]) for (p, n), ty in sorted(fields.items())]
    ctx.floor(rule, "interior-mutable struct fields in the workspace", len(fields), 8)
    roots, reach = _reach(P)
    ctx.floor(rule, "per-packet entry points", len(roots), 7)
    ctx.extra["per_packet_reachable_bodies"] = len(reach)
    fnames = {n for (_, n) in fields}
    nwrites = 0
    for b in reach.values():
        S = None
        for blk, t in b.calls():
            n = callee_of(t)
            if not any(n.endswith(w) for w in WRITE_CALLS):
                continue
            if not any(k.rstrip("<") in n for k in ("RefCell", "Cell", "Mutex", "RwLock", "Atomic", "OnceCell", "OnceLock")):
                continue
            if S is None:
                S = T.Slicer(b, P)
            a = Q.call_args(b, S, blk, t)
            recv = T.expand_upvars(P, b, a[0])
            fl = [x[2] for x in T.walk(recv) if x[0] == "field" and isinstance(x[2], str) and x[2] in fnames]
            if not fl:
                continue
            nwrites += 1
            f = fl[0]
            owner = [p for (p, n2) in fields if n2 == f]
            key = "%s.%s<-%s" % (owner[0].split("::")[-1] if owner else "?", f, T.short(b.path))
            if f in ALLOW_FIELDS:
                ctx.ok(rule, key, "allowed shared state (statistics / shutdown / channel)", ctx.loc(b, blk))
            elif _reset_before_use(P, b, blk, f):
                ctx.ok(rule, key, "field is re-initialised (fresh value stored) before every use on the per-message path: no state survives from an earlier connection", ctx.loc(b, blk))
            else:
                ctx.fail(rule, key,
                         "per-packet code writes `%s` (%s), state that is shared by all connections handled by this object: what one connection leaves there "
                         "is visible when the next connection is analysed" % (f, fields.get((owner[0], f), "?")[:50] if owner else "?"), ctx.loc(b, blk))
    # statics with interior mutability
    for b in reach.values():
        for blk, t in b.calls():
            pass
    ctx.check(True, rule, "scan", "%d write-style calls on interior-mutable fields examined in %d reachable bodies" % (nwrites, len(reach)))


def rule_R2_R3(ctx):
    P = ctx.program
    b = P.body("huginn_net_http::http_process::process_tcp_packet")
    S = T.Slicer(b, P)

    def key_kind(t):
        t = T.strip(t)
        if t[0] == "phi":
            ks = {key_kind(x) for x in t[1]}
            return "+".join(sorted(ks))
        if t[0] == "agg" and t[1] == "tuple" and len(t[4]) == 4:
            e = [T.strip(x) for x in t[4]]

            def nm(x):
                if x[0] == "param":
                    return x[2]
                if x[0] == "call" and x[1].endswith("get_source"):
                    return "src_port"
                if x[0] == "call" and x[1].endswith("get_destination"):
                    return "dst_port"
                return "?"
            names = [nm(x) for x in e]
            if names == ["src_ip", "dst_ip", "src_port", "dst_port"]:
                return "forward"
            if names == ["dst_ip", "src_ip", "dst_port", "src_port"]:
                return "reversed"
            return "other:" + ",".join(names)
        return "other"

    ops = []
    for blk, t in Q.calls(b, "TtlCache"):
        nm = callee_of(t).rsplit("::", 1)[-1]
        if nm in ("get", "get_mut", "insert", "remove", "contains_key"):
            a = Q.call_args(b, S, blk, t)
            ops.append((nm, blk, key_kind(a[1])))
    ctx.floor("R2", "HTTP flow cache operations", len(ops), 5)
    lookups = [o for o in ops if o[0] in ("get", "get_mut")]
    ctx.check(sorted(o[2] for o in lookups) == ["forward", "reversed"], "R2", "http:lookup-keys", "flow looked up by the packet's 4-tuple, then by the reversed 4-tuple",
              "flow lookups use keys %s" % [o[2] for o in lookups], ctx.loc(b))
    for nm, blk, kk in ops:
        if nm == "insert":
            ctx.check(kk == "forward", "R2", "http:insert-key", "new flow stored under the SYN's own 4-tuple", "flow inserted under key `%s`" % kk, ctx.loc(b, blk))
    # removal must use the key the entry was found under: forward when found directly, reversed when found via the reversed key
    rems = [o for o in ops if o[0] == "remove"]
    for k, (nm, blk, kk) in enumerate(rems):
        ctx.check(kk == "forward+reversed", "R2", "http:remove-key@%d" % k,
                  "entry removed under the key it was found with",
                  "a finished/closed flow is removed with the packet's forward 4-tuple only (key `%s`): when the closing or completing segment comes from the server "
                  "the entry is stored under the reversed tuple, nothing is removed, and a later connection re-using the 4-tuple within the TTL is never analysed" % kk,
                  ctx.loc(b, blk))
    # R3 stores into TcpFlow fields go through the looked-up entry
    n = 0
    bad = []
    for i, j, s in b.iter_stmts():
        if s["k"] == "assign" and s["p"]["pr"] and s["p"]["pr"][0] == "*":
            names = [x.get("n") for x in s["p"]["pr"] if isinstance(x, dict)]
            if any(nm in ("client_http_parsed", "server_http_parsed") for nm in names):
                n += 1
                base = S.local(s["p"]["l"], i, j)
                if not T.has_call(base, "get_mut"):
                    bad.append(i)
    for blk, t in Q.calls(b, "Vec::<T, A>::push"):
        a = Q.call_args(b, S, blk, t)
        if any(x[0] == "field" and x[2] in ("client_data", "server_data") for x in T.walk(a[0])):
            n += 1
            if not T.has_call(a[0], "get_mut"):
                bad.append(blk)
    ctx.check(n >= 4 and not bad, "R3", "http:flow-writes", "%d writes to per-flow data, all through the entry returned by the keyed lookup" % n,
              "per-flow data is written through something other than the looked-up entry", ctx.loc(b, bad[0]) if bad else None)


def rule_other_caches(ctx):
    """the TLS reassembly cache and the TCP timestamp tracker are keyed by the packet's own connection too (shared with C08.R3, C19.R2/R4)"""
    from ..engine import report as R
    from . import C08, C19
    C08.rule_flow(R.Retag(ctx, "C08."))
    C19.rule_R1_R2(R.Retag(ctx, "C19."))
    C19.rule_R4(R.Retag(ctx, "C19."))


def rule_worker_capacity(ctx):
    """every worker gets the configured capacity and the shared configuration unchanged: connections within the configured limits never evict each other"""
    from . import _workers as W
    from . import _argswap as AS
    for crate, fam in (("huginn_net_tcp", "tcp"), ("huginn_net_http", "http"), ("huginn_net_tls", "tls")):
        W.uniform_workers(ctx, ctx.program, crate, fam, "W.R2")
    # the pool is built with each configured limit in its own position (connection capacity is not the queue length)
    AS.swapped_arguments(ctx, ctx.program, "W.R1", ("huginn_net_tcp", "huginn_net_http", "huginn_net_tls", "huginn_net"),
                         only_params=("max_connections", "queue_size", "batch_size", "timeout_ms", "num_workers"))


def rule_capture_loops(ctx):
    """one connection's rejected packet never ends the analysis of the others (shared with C01.R7); a worker never discards a dequeued packet"""
    from . import _workers as W
    P = ctx.program
    W.capture_loop_exits(ctx, P, "W.R7")
    for crate, fam in (("huginn_net_tcp", "tcp"), ("huginn_net_http", "http"), ("huginn_net_tls", "tls")):
        wl = [b for b in P.method("WorkerPool", "worker_loop") if b.crate == crate]
        if len(wl) == 1:
            W.received_consumed(ctx, P, fam, wl[0], "W.R6")


def rule_reader_state(ctx):
    """a reader left in the flow table does not keep bytes it can never use (a later connection on the same 4-tuple would inherit them)"""
    from ..engine import report as R
    from . import C11
    C11.rule_R1(R.Retag(ctx, "C11."), only=("TlsClientHelloReader",))


def rule_extractor_reset(ctx):
    """the documented way to reuse an HTTP/2 fingerprint extractor for a new connection restores every field its other methods modify
    (shared rule _reset, also C17.R3)"""
    from . import _reset as RS
    RS.reset_complete(ctx, ctx.program, "R2", "Http2FingerprintExtractor")


def rule_twins(ctx):
    """the IPv4 and IPv6 copies of the per-packet functions route sides, roles and lookups identically (shared rule TW)"""
    from . import _twins as TW
    TW.twin_agreement(ctx, ctx.program, "TW", ("huginn_net_tcp", "huginn_net_http", "huginn_net_tls"))


def rule_worker_survives(ctx):
    """a packet of one connection cannot stop the worker that other connections are hashed to: process_packet answers `stop` only when
    the result channel is closed (shared with C01.R7 / C10.R5)"""
    from ..engine import report as R
    from . import C01
    C01.rule_liveness(R.Retag(ctx, "C01."))


def run(ctx):
    rule_extractor_reset(ctx)
    rule_worker_survives(ctx)
    rule_twins(ctx)
    rule_reader_state(ctx)
    rule_capture_loops(ctx)
    rule_worker_capacity(ctx)
    rule_other_caches(ctx)
    rule_R1(ctx)
    rule_R2_R3(ctx)
