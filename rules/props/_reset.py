"""Shared rule: a `reset()` method returns an object to its freshly constructed state."""
from ..engine import q as Q
from ..engine import terms as T
from ..engine.facts import callee_of

MUTATORS = ("::clear", "::push", "::extend", "::extend_from_slice", "::drain", "::truncate", "::insert", "::remove", "::append", "::retain", "::take", "::replace")


def _fields_touched(P, b, only_reset=False):
    """fields of self written (assigned, or passed by &mut to a mutating call) in a method"""
    S = T.Slicer(b, P)
    out = set()
    for i, j, s in b.iter_stmts():
        if s["k"] == "assign" and s["p"]["l"] == 1 and s["p"]["pr"]:
            names = [x.get("n") for x in s["p"]["pr"] if isinstance(x, dict) and x.get("n")]
            if names:
                out.add(names[0])
    for blk, t in b.calls():
        n = callee_of(t)
        if n.endswith(MUTATORS) and t["args"]:
            a = Q.call_args(b, S, blk, t)
            fl = [x[2] for x in T.walk(a[0]) if x[0] == "field" and isinstance(x[2], str) and any(y[0] == "param" and y[1] == 0 for y in T.walk(x[1]))]
            if fl:
                out.add(fl[-1] if False else fl[0])
    return out


def reset_complete(ctx, P, rule, type_name, reset_name="reset", exempt=()):
    """every field that the type's other `&mut self` methods modify is restored by reset()"""
    methods = [b for b in P.bodies.values() if b.kind == "AssocFn" and (b.impl_self or "").split("<")[0].endswith(type_name) and b.impl_trait is None and b.blocks]
    rs = [b for b in methods if b.name == reset_name]
    if len(rs) != 1:
        ctx.cannot(rule, "%s::%s:complete" % (type_name, reset_name), "%d bodies named %s" % (len(rs), reset_name))
        return
    r = rs[0]
    restored = _fields_touched(P, r)
    mutated = set()
    for m in methods:
        if m is r or m.name in ("new", "default"):
            continue
        mutated |= _fields_touched(P, m)
    missing = sorted(mutated - restored - set(exempt))
    ctx.check(not missing and bool(mutated), rule, "%s::%s:complete" % (type_name, reset_name), "reset restores %s" % sorted(mutated),
              "%s::%s() does not restore %s, which other methods modify: an object reused for a second connection still carries the first connection's data "
              "(its first SETTINGS / WINDOW_UPDATE / buffered bytes are found again)" % (type_name, reset_name, missing), ctx.loc(r))
