"""Shared helpers: classify origin terms of packet_hash.rs values into connection-identity roles."""
from ..engine import q as Q
from ..engine import terms as T


def _const_int(t):
    t = T.strip(t)
    if t[0] == "const" and isinstance(t[1], int):
        return t[1]
    return None


def slice_range(t):
    """('range', lo, hi) | ('from', term) for a `&x[a..b]` / `&x[a..]` index call term, else None."""
    t = T.strip(t)
    if t[0] == "call" and "ops::Index" in t[1] and t[1].endswith("::index") and len(t[2]) == 2:
        r = T.strip(t[2][1])
        if r[0] == "agg" and r[1] == "adt":
            if r[2].endswith("ops::Range") and len(r[4]) == 2:
                return ("range", _const_int(r[4][0]), _const_int(r[4][1]), t[2][0])
            if r[2].endswith("ops::RangeFrom") and len(r[4]) == 1:
                return ("from", r[4][0], None, t[2][0])
    return None


def _tcp_header_offset(t):
    """40 (fixed IPv6 header) or (byte0 & 0x0f) * 4 (IPv4 IHL in 32-bit words)"""
    t = T.strip(t)
    k = T.fold_int(t)
    if k is not None:
        return k == 40
    # nothing may cap the offset from above (`.min(20)` reads option bytes as ports); a lower bound of 20 is harmless
    for x in T.walk(t):
        if x[0] == "call":
            last = x[1].rsplit("::", 1)[-1]
            if last in ("min", "clamp", "saturating_sub", "wrapping_sub", "rem", "checked_rem") or (last == "max" and not any(T.fold_int(a) == 20 for a in x[2])):
                return False
        if x[0] == "binop" and x[1].replace("WithOverflow", "") in ("Sub", "Rem", "Div", "Shr"):
            return False
    masks = [T.fold_int(x[3]) for x in T.walk(t) if x[0] == "binop" and x[1] == "BitAnd"]
    byte0 = any(x[0] == "index" and T.fold_int(x[2]) == 0 for x in T.walk(t))
    times4 = any((x[0] == "call" and x[1].endswith(("saturating_mul", "wrapping_mul", "checked_mul")) and any(T.fold_int(a) == 4 for a in x[2])) or
                 (x[0] == "binop" and x[1].startswith("Mul") and 4 in (T.fold_int(x[2]), T.fold_int(x[3]))) or
                 (x[0] == "binop" and x[1].startswith("Shl") and T.fold_int(x[3]) == 2) for x in T.walk(t))
    return 0x0F in masks and byte0 and times4


ROLE_RANGES = {(12, 16): "src_ip", (16, 20): "dst_ip", (8, 24): "src_ip", (24, 40): "dst_ip"}


def roles(t, depth=0):
    """Set of identity roles a hashed value is built from; 'other:<desc>' for anything else."""
    t = T.strip(t)
    if depth > 12:
        return {"other:deep"}
    if t[0] == "phi":
        out = set()
        for x in t[1]:
            out |= roles(x, depth + 1)
        return out
    sr = slice_range(t)
    if sr is not None:
        if sr[0] == "range":
            r = ROLE_RANGES.get((sr[1], sr[2]))
            base = T.strip(sr[3])
            if base[0] != "param":
                inner = slice_range(base)
                if inner is not None and inner[0] == "from" and T.strip(inner[3])[0] == "param":
                    base = T.strip(inner[3])
            if r and base[0] == "param":
                return {r}
            return {"other:bytes[%s..%s]" % (sr[1], sr[2])}
        return {"other:tail-slice"}
    if t[0] == "call" and t[1].endswith("::from_be_bytes"):
        arr = T.strip(t[2][0])
        if arr[0] == "agg" and arr[1] == "array" and len(arr[4]) == 2:
            idx = []
            base_ok = True
            for e in arr[4]:
                e = T.strip(e)
                if e[0] == "index":
                    idx.append(_const_int(e[2]))
                    b = slice_range(e[1])
                    if b is None or b[0] != "from":
                        base_ok = False
                else:
                    base_ok = False
            if base_ok and idx in ([0, 1], [2, 3]):
                # the slice the ports are read from must start at the TCP header: IHL*4 behind an IPv4 header, 40 behind an IPv6 header
                starts = []
                for e in arr[4]:
                    b = slice_range(T.strip(e)[1])
                    starts.append(b[1])
                if not all(_tcp_header_offset(st) for st in starts):
                    return {"other:ports-not-at-tcp-header(%s)" % T.pp(T.strip(starts[0]))[:40]}
                return {"src_port"} if idx == [0, 1] else {"dst_port"}
        return {"other:be16"}
    if t[0] == "binop" and t[1] in ("BitXor", "BitOr", "BitAnd", "Add", "AddWithOverflow"):
        return roles(t[2], depth + 1) | roles(t[3], depth + 1)
    if t[0] == "call" and any(t[1].endswith(s) for s in ("::min", "::max", "::wrapping_add", "::bitxor")):
        out = set()
        for a in t[2]:
            out |= roles(a, depth + 1)
        return out
    if t[0] == "field":
        return roles(t[1], depth + 1)
    if t[0] == "agg" and t[1] in ("tuple", "array"):
        out = set()
        for a in t[4]:
            out |= roles(a, depth + 1)
        return out
    if t[0] == "param":
        return {"other:whole-packet"}
    if t[0] == "const":
        return set()
    return {"other:" + T.pp(t)[:40]}


def hash_inputs(P, body):
    """[(blk, term of the hashed value)] for every Hash::hash call and hash_bytes call in a body."""
    S = T.Slicer(body, P)
    out = []
    for blk, t in Q.calls(body):
        name = t.get("res") or t.get("decl") or ""
        if ("hash::Hash" in name and name.endswith("::hash")) or name.endswith("packet_hash::hash_bytes"):
            args = Q.call_args(body, S, blk, t)
            out.append((blk, args[0], name))
    return out
