"""Shared rule: same-typed arguments are not passed in each other's positions.

For every call from the analysed crates to a workspace function whose parameters are named, an argument whose origin is a
value *named like another parameter of the same type* while that other parameter receives the value named like this one is a swap
(`new(.., config.queue_size, self.max_connections)` for `fn new(.., max_connections, queue_size)`).  Only a true exchange of
two names is reported, so wrappers that rename values never trigger it."""
from ..engine import terms as T
from ..engine.facts import callee_of


def _leaf_names(t):
    t = T.strip(t)
    out = set()
    while t[0] in ("ref", "deref", "cast"):
        t = T.strip(t[2] if t[0] in ("ref", "cast") else t[1])
    if t[0] == "field" and isinstance(t[2], str):
        out.add(t[2])
    elif t[0] == "param" and t[2]:
        out.add(t[2])
    elif t[0] == "call" and T.is_identity_call(t[1]) and t[2]:
        out |= _leaf_names(t[2][0])
    elif t[0] == "call" and t[1].endswith(("NonZero::<T>::get", "::get", "::load")) and t[2]:
        out |= _leaf_names(t[2][0])
    return out


def swapped_arguments(ctx, P, rule, crates, only_params=None):
    n = 0
    found = []
    misnamed = []
    for b in P.bodies.values():
        if b.crate not in crates:
            continue
        S = None
        for blk, t in b.calls():
            callee = P.bodies.get(callee_of(t)) or P.bodies.get(t.get("decl") or "")
            if callee is None or callee.arg_count != len(t["args"]) or callee.arg_count < 2:
                continue
            pn = [callee.local_name(i + 1) for i in range(callee.arg_count)]
            pt = [callee.locals[i + 1]["ty"] for i in range(callee.arg_count)]
            if only_params and not (set(pn) & set(only_params)):
                continue
            if S is None:
                S = T.Slicer(b, P)
            nst = len(b.blocks[blk]["s"])
            leaves = [_leaf_names(S.operand(a, blk, nst)) for a in t["args"]]
            n += 1
            for i in range(len(pn)):
                for j in range(i + 1, len(pn)):
                    if not pn[i] or not pn[j] or pt[i] != pt[j]:
                        continue
                    if pn[j] in leaves[i] and pn[i] in leaves[j] and pn[i] not in leaves[i] and pn[j] not in leaves[j]:
                        found.append((b, blk, T.short(callee.path), pn[i], pn[j]))
            # one-sided: a parameter receives the value that is named exactly like ANOTHER same-typed parameter of the callee
            # (`new(.., queue_size: cfg.queue_size, .., max_connections: cfg.queue_size)`), and nothing named like itself
            # (not for operator / trait methods: `*other == X` is `eq(self: other, other: X)` and means nothing of the kind)
            for i in range(len(pn)):
                if not pn[i] or len(leaves[i]) != 1 or callee.impl_trait or pn[i] == "self" or callee.raw.get("trait_default_of"):
                    continue
                nm = next(iter(leaves[i]))
                if nm == pn[i]:
                    continue
                for j in range(len(pn)):
                    if j != i and pn[j] == nm and pt[i] == pt[j] and not any((b, blk, T.short(callee.path)) == f[:3] for f in found):
                        misnamed.append((b, blk, T.short(callee.path), pn[i], nm))
    for (b, blk, cn, a, c) in misnamed:
        ctx.fail(rule, "argument-name:%s<-%s:%s<=%s" % (cn, T.short(b.path), a, c),
                 "%s receives `%s` for its parameter `%s` although it has a parameter `%s` of the same type: the limit / size meant for one is used for the other"
                 % (cn, c, a, c), ctx.loc(b, blk))
    for (b, blk, cn, a, c) in found:
        ctx.fail(rule, "argument-order:%s<-%s:%s<->%s" % (cn, T.short(b.path), a, c),
                 "%s is called with `%s` and `%s` in each other's positions (both %s): every limit derived from them is the other one's" % (cn, a, c, "same type"),
                 ctx.loc(b, blk))
    if not found and not misnamed:
        ctx.ok(rule, "argument-order", "%d calls to named-parameter workspace functions, no exchanged same-typed arguments" % n)
    return n


def swapped_fields(ctx, P, rule, crates):
    """The same for struct literals: `S { a: x.b, b: x.a }` where a and b have one type and both names exist on the source - two
    same-typed fields crossed while copying a value over field by field.  Only a true exchange of two names is reported."""
    n = 0
    found = []
    for b in sorted(P.bodies.values(), key=lambda x: x.path):
        if b.crate not in crates:
            continue
        S = None
        for i, j, s in b.iter_stmts():
            r = s.get("r") or {}
            if s["k"] != "assign" or r.get("k") != "agg" or r.get("ak") != "adt" or not r.get("fields") or len(r["fields"]) < 2:
                continue
            adt = P.adts.get(r.get("path"))
            if adt is None or adt.get("kind") == "enum":
                continue
            ftys = {f["name"]: f["ty"] for v in adt["variants"] for f in v["fields"]}
            S = S or T.Slicer(b, P)
            leaves = [_leaf_names(S.operand(o, i, j)) for o in r["ops"]]
            n += 1
            fs = r["fields"]
            for x in range(len(fs)):
                for y in range(x + 1, len(fs)):
                    if ftys.get(fs[x]) is None or ftys.get(fs[x]) != ftys.get(fs[y]):
                        continue
                    if fs[y] in leaves[x] and fs[x] in leaves[y] and fs[x] not in leaves[x] and fs[y] not in leaves[y]:
                        found.append((b, i, r["path"].rsplit("::", 1)[-1], fs[x], fs[y]))
    for (b, i, ty, a, c) in found:
        ctx.fail(rule, "field-order:%s<-%s:%s<->%s" % (ty, T.short(b.path), a, c),
                 "%s is built with `%s` and `%s` taken from each other's source field (both of one type): what is reported under one name is the other quantity"
                 % (ty, a, c), ctx.loc(b, i))
    if not found:
        ctx.ok(rule, "field-order", "%d struct literals with named fields, no two same-typed fields exchanged" % n)
    return n
