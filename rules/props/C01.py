"""C01 - Analysis is total: no input can crash, hang or poison an analyzer.

Structural clauses decided, over every body of the five library crates:
 R1 every panic-capable site (MIR BoundsCheck assert, slice/Vec/str Index call, drain/split_at/copy_from_slice/
    remove/insert, RefCell borrow, unwrap/expect, explicit panics) is discharged by the length/interval reasoning of
    engine/absint.py or is a reviewed site (tables/c01_reviewed_sites.json, keyed structurally, one reason each);
    str slices additionally need a char-boundary argument (bounds returned by find() on the same str are accepted)
 R2 every arithmetic assert (overflow, division/remainder by zero, shift amount) is discharged
 R3 every loop terminates: iterator loops over finite std sources are accepted by shape; all others are listed in
    tables/c01_loops.json and re-checked structurally (counter / shrinking slice / batch fill / blocking service loop:
    a variant that strictly progresses on every back edge)
 R4 no user-written `unsafe` in the five crates
 R5 every call into a dependency crate from the analysed code is in tables/trusted_api.json
 R6 no poisoning: interior-mutable analyzer state written on the per-input path is reset before each use (shared with C07-R1)
 R7 worker liveness: a service loop ends only on shutdown / queue disconnect / closed result channel, and the TCP
    worker's process_packet answers `stop` only when the result channel is closed - never because of a packet
 (R7 also covers the capture loops process_sequential / process_parallel / process_with: they end only on source end, cancel signal or
    closed receiver; R6 also checks that finished flows are removed under the key they are stored with - C07.R2)
"""
import json
import re
import os

from ..engine import absint as A
from ..engine import cfg as C
from ..engine import q as Q
from ..engine import tables as TB
from ..engine import terms as T
from ..engine.facts import CRATES, VERIF, AnchorMissing, callee_of

EXPLANATION = ("All MIR panic edges of the five library crates are enumerated (assert terminators by kind, calls whose resolved callee is "
               "in the may-panic API table). Each is discharged from the conditions that dominate it, translated to difference "
               "constraints over origin terms and closed transitively, plus structural facts (masks, min, saturating ops, Range::next / "
               "position payloads, sub-slice lengths). What remains must match a reviewed entry keyed by (function, kind, container, "
               "index expression). Loops are classified by the iterator they advance or by a reviewed progress variant.")
TRUSTED = ["tables/c01_reviewed_sites.json (reviewed panic sites, one reason each)", "tables/c01_loops.json (reviewed non-iterator loops)",
           "tables/trusted_api.json (dependency APIs and the contract relied upon)", "std/core APIs not in the may-panic table do not panic",
           "slices satisfy len <= isize::MAX"]
DECLINED = ["`the same instance analyses a following well-formed input exactly as a fresh instance would` (state equivalence over histories; "
            "covered structurally by C07/C08/C11)", "panics inside dependency crates", "stack overflow, allocation failure"]
ASSUMPTIONS = ["tracing macros (debug!/trace!/warn!/error!) do not panic", "derive-generated and Display code is included"]

MAY_PANIC = [
    # (callee fragment, kind)
    ("ops::Index<I>>::index", "index"), ("ops::Index<I> for [T]>::index", "index"), ("ops::Index<I> for str>::index", "index"),
    ("ops::IndexMut<I>>::index_mut", "index"), ("ops::IndexMut<I> for [T]>::index_mut", "index"),
    ("Vec::<T, A>::drain", "drain"), ("Vec::<T, A>::remove", "vec-remove"), ("Vec::<T, A>::swap_remove", "vec-remove"),
    ("Vec::<T, A>::insert", "vec-insert"), ("Vec::<T, A>::split_off", "split"), ("[T]>::split_at", "split"), ("str>::split_at", "split"),
    ("::copy_from_slice", "copy"), ("::clone_from_slice", "copy"), ("RefCell::<T>::borrow_mut", "borrow"), ("RefCell::<T>::borrow", "borrow"),
    ("Option::<T>::unwrap", "unwrap"), ("Option::<T>::expect", "unwrap"), ("Result::<T, E>::unwrap", "unwrap"), ("Result::<T, E>::expect", "unwrap"),
    ("Result::<T, E>::unwrap_err", "unwrap"), ("panicking::", "panic"), ("::unwrap_unchecked", "unwrap"), ("[T]>::chunks", "chunks"), ("[T]>::windows", "chunks"),
    ("[T]>::chunks_exact", "chunks"), ("String::remove", "vec-remove"), ("String::insert", "vec-insert"), ("String::truncate", "str-boundary"),
    ("String::split_off", "split"), ("time::Duration as std::ops::", "duration-arith"), ("Instant as std::ops::Sub", "duration-arith"),
    ("SystemTime as std::ops::", "duration-arith"), ("::swap", "index"), ("[T]>::rotate_", "index"), ("::from_digit", "panic"),
    ("::div_euclid", "div"), ("::rem_euclid", "div"), ("::pow", "pow"), ("::abs_diff", "none"), ("thread::spawn", "spawn"),
]
SAFE_OVERRIDES = ("unwrap_or", "unwrap_or_default", "unwrap_or_else", "::swap_remove_checked", "mem::swap", "AtomicBool::swap", "::windows(0)",
                  "Atomic::<", "checked_", "saturating_pow", "wrapping_pow")


_INT_OP = re.compile(r"^<&?(?:mut )?(u8|u16|u32|u64|u128|usize|i8|i16|i32|i64|i128|isize) as std::ops::(Div|Rem|Add|Sub|Mul|Neg|Shl|Shr|DivAssign|RemAssign|AddAssign|SubAssign|MulAssign)\b")


def _kind_of_call(name):
    # integer arithmetic written through the operator traits (`a / b` with `a: &u16` is `<&u16 as Div<u16>>::div(a, b)`): the panic
    # (division by zero, overflow) happens inside core, so there is no assert terminator in the caller - the call is the site
    m = _INT_OP.match(name)
    if m:
        return "int-div" if m.group(2) in ("Div", "Rem", "DivAssign", "RemAssign") else "int-overflow"
    if any(s in name for s in SAFE_OVERRIDES):
        return None
    for frag, kind in MAY_PANIC:
        if frag in name:
            if kind == "none":
                return None
            return kind
    return None


def _load(name):
    with open(os.path.join(VERIF, "tables", name)) as fh:
        return json.load(fh)


def fn_key(b):
    """module-independent function key, prefixed by the crate"""
    c = b.crate.replace("huginn_net_", "") if b.crate != "huginn_net" else "unified"
    return c + "/" + _fn_key(b)


def _fn_key(b):
    if b.kind == "Closure":
        par = b.path.rsplit("::{closure#", 1)
        return par[0].split("::", 1)[-1].split("<")[0].replace("impl ", "") + "::{closure#" + par[1]
    p = b.path
    if b.impl_self:
        return "%s::%s" % (b.impl_self.split("<")[0].split("::")[-1], b.name)
    return "::".join(p.split("::")[-2:])


def _single_def(b, l):
    ds = []
    for i in sorted(b.reachable):
        for j, s in enumerate(b.blocks[i]["s"]):
            if s["k"] == "assign" and s["p"]["l"] == l and not s["p"]["pr"]:
                ds.append(("s", s))
        t = b.blocks[i]["t"]
        if t["k"] == "call" and t["dest"]["l"] == l and not t["dest"]["pr"]:
            ds.append(("c", t))
    return ds[0] if len(ds) == 1 else None


_NAMED_INTS = {}      # named integer constants met while rendering sites (a reviewed `[..12]` is the same site as `[..HASH12_LEN]`)


def _const_set(t, depth=0):
    """the finite set of integers a term built from constants, merges of constants and +/- can be (None when it is not such a term)"""
    t = T.strip(t)
    v = T.fold_int(t)
    if v is not None:
        return {v}
    if depth > 6:
        return None
    if t[0] == "phi":
        out = set()
        for x in t[1]:
            sx = _const_set(x, depth + 1)
            if not sx:
                return None
            out |= sx
        return out if len(out) <= 16 else None
    if t[0] == "field" and T.strip(t[1])[0] == "binop" and t[2] in (0, "0"):
        return _const_set(t[1], depth + 1)
    if t[0] == "binop" and t[1] in ("Sub", "SubWithOverflow", "Add", "AddWithOverflow") and len(t) >= 4:
        sa, sb = _const_set(t[2], depth + 1), _const_set(t[3], depth + 1)
        if not sa or not sb:
            return None
        out = {(a - b) if t[1].startswith("Sub") else (a + b) for a in sa for b in sb}
        return out if len(out) <= 16 and all(x >= 0 for x in out) else None
    return None


def _fold_named(detail):
    return re.sub(r"\b[A-Z][A-Z0-9_]+\b", lambda m: str(_NAMED_INTS[m.group(0)]) if m.group(0) in _NAMED_INTS else m.group(0), detail)


def srcname(b, op, depth=0):
    """Source-level-ish, refactor-stable rendering of an operand: named locals / parameters / field paths / constants."""
    if depth > 12:
        return "?"
    if "k" in op:
        cv = T.const_value(op["k"])
        if cv[2]:
            if isinstance(cv[1], int) and not isinstance(cv[1], bool):
                _NAMED_INTS[cv[2].rsplit("::", 1)[-1]] = cv[1]
            return cv[2].rsplit("::", 1)[-1]
        v = cv[1]
        if isinstance(v, (int, str)) and not isinstance(v, bool):
            return repr(v) if isinstance(v, str) else str(v)
        return "const"
    p = op.get("c") or op.get("m")
    return srcname_place(b, p, depth)


def srcname_place(b, p, depth=0):
    l = p["l"]
    name = b.local_name(l)
    base = None
    if name:
        base = name
    elif b.kind == "Closure" and l == 1:
        base = "<env>"
    else:
        d = _single_def(b, l)
        if d is None:
            base = "_tmp"
        elif d[0] == "s":
            r = d[1]["r"]
            if r["k"] == "use":
                base = srcname(b, r["o"], depth + 1)
            elif r["k"] in ("ref", "rawptr"):
                base = srcname_place(b, r["p"], depth + 1)
            elif r["k"] == "cast":
                base = srcname(b, r["o"], depth + 1)
            elif r["k"] == "agg" and r["ak"] == "adt" and (r.get("path") or "").startswith("std::ops::Range"):
                ops = [srcname(b, o, depth + 1) for o in r["ops"]]
                kind = r["path"].rsplit("::", 1)[-1]
                base = {"Range": "%s..%s", "RangeFrom": "%s..", "RangeTo": "..%s", "RangeInclusive": "%s..=%s", "RangeToInclusive": "..=%s", "RangeFull": ".."}.get(kind, kind)
                try:
                    base = base % tuple(ops)
                except TypeError:
                    base = kind
            elif r["k"] == "binop":
                base = "(%s %s %s)" % (srcname(b, r["a"], depth + 1), r["op"], srcname(b, r["b"], depth + 1))
            else:
                base = "_expr"
        else:
            t = d[1]
            cn = callee_of(t)
            if T.is_identity_call(cn) and t["args"]:
                base = srcname(b, t["args"][0], depth + 1)
            else:
                base = "%s(%s)" % (T.short(cn).split("::")[-1], ", ".join(srcname(b, a, depth + 1) for a in t["args"][:3]))
    out = base
    ups = dict((i, n) for i, n in (b.raw.get("upvars") or []))
    for x in p["pr"]:
        if x == "*":
            continue
        if isinstance(x, dict):
            if "f" in x:
                if out == "<env>":
                    out = ups.get(x["f"], "upvar%d" % x["f"])
                else:
                    out += "." + str(x.get("n", x["f"]))
            elif "i" in x:
                out += "[%s]" % (b.local_name(x["i"]) or srcname_place(b, {"l": x["i"], "pr": []}, depth + 1))
            elif "ci" in x:
                out += "[%d]" % x["ci"]
            elif "dc" in x:
                out += " as " + x["dc"]
    return out


def _pp(t):
    s = T.pp(t)
    return s if len(s) <= 120 else s[:117] + "..."


# ---------------------------------------------------------------------------
def obligations(P):
    """Yield dict(body, blk, kind, detail...) for every panic-capable site of the analysed crates."""
    for b in P.bodies.values():
        for blk in sorted(b.reachable):
            t = b.blocks[blk]["t"]
            if t["k"] == "assert":
                kind = t["kind"]
                if kind in ("MisalignedPointerDereference", "NullPointerDereference"):
                    yield {"b": b, "blk": blk, "class": "ubcheck", "kind": kind}
                    continue
                yield {"b": b, "blk": blk, "class": "assert", "kind": kind, "t": t}
            elif t["k"] == "call":
                name = callee_of(t)
                if Q.in_tracing(t["span"]):
                    continue
                k = _kind_of_call(name)
                if k is not None:
                    yield {"b": b, "blk": blk, "class": "call", "kind": k, "t": t, "callee": name}
                if t["target"] is None and not name.endswith("from_residual"):
                    if "panicking" in name or "begin_panic" in name or "unreachable" in name or "expect_failed" in name or "unwrap_failed" in name:
                        continue  # already yielded via MAY_PANIC (panicking::)
                    yield {"b": b, "blk": blk, "class": "call", "kind": "diverges", "t": t, "callee": name}


def discharge(P, ctxs, ob):
    """-> (ok, reason, key_detail)"""
    b, blk = ob["b"], ob["blk"]
    ax = ctxs.setdefault(b.path, A.Ctx(P, b))
    S = ax.S
    g = ax.graph_at(blk)
    n = len(b.blocks[blk]["s"])
    t = ob["t"]
    if ob["class"] == "assert":
        kind = ob["kind"]
        ops = [S.operand(o, blk, n) for o in t["ops"]]
        cond = S.operand(t["cond"], blk, n)
        if kind == "BoundsCheck":
            L, I = ops[0], ops[1]
            ln, lo = ax.lin(L, g)
            inn, io = ax.lin(I, g)
            detail = "%s[%s]" % (_lenname(b, t["ops"][0]), srcname(b, t["ops"][1]))
            if g.le(inn, ln, lo - io - 1):
                return True, "index < len by dominating conditions", detail
            # container is a tail sub-slice x[a..]:  i < len(x[a..])  <=>  a + i < len(x)   (for constant i)
            la_ = A.len_arg(L)
            cont = T.strip(la_) if la_ is not None else None
            ki = T.fold_int(I)
            off = 0
            while cont is not None and ki is not None and cont[0] == "call" and cont[1].endswith("::index") and len(cont[2]) == 2:
                r = T.strip(cont[2][1])
                if not (r[0] == "agg" and (r[2] or "").endswith("ops::RangeFrom")):
                    break
                an, ao = ax.lin(r[4][0], g)
                base = ("len", A.sid(cont[2][0]))
                ax.struct_len(cont[2][0], base, g, 0)
                if g.le(an, base, -(ao + ki + off) - 1):
                    return True, "tail sub-slice: start + index < len(base) by dominating conditions", detail
                if an != A.ZERO:
                    break
                off += ao
                cont = T.strip(cont[2][0])
            return False, "cannot show %s < len" % _pp(I), detail
        if kind.startswith("Overflow("):
            op = kind[9:-1]
            detail = "%s(%s, %s)" % (op, _pp(ops[0]), _pp(ops[1]))
            if op in ("Shr", "Shl"):
                k = T.fold_int(ops[1])
                # the assert condition is `amount < bits` on constants
                c = _fold_bool(cond)
                if c is True:
                    return True, "constant shift amount within width", detail
                return False, "shift amount not a small constant", detail
            if op == "Sub":
                an, ao = ax.lin(ops[0], g)
                bn, bo = ax.lin(ops[1], g)
                if g.le(bn, an, ao - bo):
                    return True, "minuend >= subtrahend by dominating conditions / constants", detail
                # a subtrahend chosen among constants (`let min = if v6 { MIN_TCP6 } else { MIN_TCP4 }; MTU - min`): each alternative
                sa, sb = _const_set(ops[0]), _const_set(ops[1])
                if sa and sb and min(sa) >= max(sb):
                    return True, "minuend >= every constant the subtrahend can be", detail
                return False, "cannot show a >= b", detail
            if op in ("Add", "Mul"):
                ka, kb = T.fold_int(ops[0]), T.fold_int(ops[1])
                if ka is not None and kb is not None:
                    return True, "constant operands", detail
                # bounded operands
                an, ao = ax.lin(ops[0], g)
                bn, bo = ax.lin(ops[1], g)
                ua = _ub(g, an, ao)
                ub = _ub(g, bn, bo)
                ty = b.blocks[blk]  # width unknown: accept when the bounded result fits in 16 bits (smallest type used for arithmetic here is u16)
                if ua is not None and ub is not None:
                    res = ua + ub if op == "Add" else ua * ub
                    if res <= 65535:
                        return True, "operands bounded (%d, %d)" % (ua, ub), detail
                return False, "operands not bounded", detail
            return False, "unhandled overflow kind", detail
        if kind in ("DivisionByZero", "RemainderByZero"):
            d = ops[0]
            detail = "divisor %s" % _pp(d)
            k = T.fold_int(d)
            if k is not None and k != 0:
                return True, "constant non-zero divisor", detail
            dn, do = ax.lin(d, g)
            if g.le(A.ZERO, dn, do - 1):
                return True, "divisor != 0 by dominating condition", detail
            return False, "cannot show divisor != 0", detail
        if kind == "OverflowNeg":
            return False, "negation overflow", _pp(ops[0])
        return False, "unknown assert kind " + kind, ""
    # calls
    kind = ob["kind"]
    args = [S.operand(a, blk, n) for a in t["args"]]
    name = ob["callee"]
    if kind == "index" and len(args) > 1:
        # an index that is a phi of alternatives: each alternative is judged under the conditions of its own definition site
        r0 = T.strip(args[1])
        if r0[0] == "agg" and (r0[2] or "").endswith(("ops::RangeFrom", "ops::RangeTo")) and T.strip(r0[4][0])[0] in ("phi", "loopvar"):
            alts = _alts_with_sites(b, S, t["args"][1], blk, n)
            if alts:
                cont = args[0]
                cn = ("len", A.sid(cont))
                allok = True
                for (term, dblk) in alts:
                    g2 = ax.graph_at(dblk)
                    for (e, w) in g.edges.items():
                        g2.add(e[1], e[0], w)
                    ax.struct_len(cont, cn, g2, 0)
                    an, ao = ax.lin(term, g2)
                    if not g2.le(an, cn, -ao):
                        allok = False
                if allok:
                    return True, "every alternative of the range bound is within the length under its own conditions", "%s[%s]" % (srcname(b, t["args"][0]), srcname(b, t["args"][1]))
    if kind == "index":
        cont = args[0]
        idx = T.strip(args[1]) if len(args) > 1 else None
        cn = ("len", A.sid(cont))
        ax.struct_len(cont, cn, g, 0)
        is_str = "for str" in name or "String as" in name
        detail = "%s[%s]" % (srcname(b, t["args"][0]), srcname(b, t["args"][1]) if len(t["args"]) > 1 else "?")
        if "HashMap" in name or "BTreeMap" in name:
            return False, "map index panics on a missing key", detail
        ok = None
        if idx is not None and idx[0] == "agg" and idx[1] == "adt" and idx[2]:
            r = idx
            if r[2].endswith("ops::RangeFrom"):
                an, ao = ax.lin(r[4][0], g)
                ok = g.le(an, cn, -ao)
            elif r[2].endswith("ops::RangeTo"):
                an, ao = ax.lin(r[4][0], g)
                ok = g.le(an, cn, -ao)
            elif r[2].endswith("ops::RangeToInclusive"):
                an, ao = ax.lin(r[4][0], g)
                ok = g.le(an, cn, -ao - 1)
            elif r[2].endswith("ops::Range") and len(r[4]) == 2:
                an, ao = ax.lin(r[4][0], g)
                bn, bo = ax.lin(r[4][1], g)
                ok = g.le(bn, cn, -bo) and g.le(an, bn, bo - ao)
            elif r[2].endswith("ops::RangeFull"):
                ok = True
        elif idx is not None:
            an, ao = ax.lin(idx, g)
            ok = g.le(an, cn, -ao - 1)
        if ok and is_str:
            # a bound returned by str::find / rfind on the same string is the start of a match: a char boundary
            bounds = [T.strip(x) for x in (idx[4] if idx is not None and idx[0] == "agg" else [])]
            def _found_in(bt):
                if bt[0] == "field" and T.strip(bt[1])[0] == "downcast":
                    src = T.strip(T.strip(bt[1])[1])
                    if src[0] == "call" and src[1].endswith(("str>::find", "str>::rfind")) and src[2]:
                        return A.sid(src[2][0]) == A.sid(cont)
                return False
            if bounds and all(_found_in(x) for x in bounds):
                return True, "range within length; bound is a match position returned by find() on the same str (char boundary)", detail
            return False, "str slicing also needs char boundaries", detail
        if ok:
            return True, "range within length by dominating conditions", detail
        return False, "cannot bound the index/range by the length", detail
    if kind == "drain":
        cont = args[0]
        cn = ("len", A.sid(cont))
        r = T.strip(args[1]) if len(args) > 1 else None
        detail = "%s.drain(%s)" % (srcname(b, t["args"][0]), srcname(b, t["args"][1]) if len(t["args"]) > 1 else "")
        if r is not None and r[0] == "agg" and (r[2] or "").endswith("ops::RangeFull"):
            return True, "drain(..)", detail
        if r is not None and r[0] == "agg" and (r[2] or "").endswith("ops::RangeTo"):
            an, ao = ax.lin(r[4][0], g)
            if g.le(an, cn, -ao):
                return True, "drain(..n) with n <= len by dominating condition", detail
        return False, "drain range not bounded", detail
    if kind == "split" and "[T]>::split_at" in name and len(args) == 2:
        cont = args[0]
        cn = ("len", A.sid(cont))
        ax.struct_len(cont, cn, g, 0)
        an, ao = ax.lin(args[1], g)
        detail = "%s.split_at(%s)" % (srcname(b, t["args"][0]), srcname(b, t["args"][1]))
        if g.le(an, cn, -ao):
            return True, "split point within the length by dominating conditions", detail
        return False, "split point not bounded by the length", detail
    if kind == "copy" and len(args) == 2:
        dn, sn = ("len", A.sid(args[0])), ("len", A.sid(args[1]))
        ax.struct_len(args[0], dn, g, 0)
        ax.struct_len(args[1], sn, g, 0)
        detail = "%s(%s)" % (T.short(name), ", ".join(srcname(b, a) for a in t["args"][:2]))
        if g.le(dn, sn, 0) and g.le(sn, dn, 0):
            return True, "source and destination have the same (constant) length", detail
        return False, "copy call", detail
    if kind in ("int-div", "int-overflow"):
        detail = "%s(%s)" % (T.short(name), ", ".join(srcname(b, a) for a in t["args"][:2]))
        if kind == "int-div" and len(args) == 2:
            k = T.fold_int(args[1])
            if k is not None and k != 0:
                return True, "constant non-zero divisor", detail
            dn, do = ax.lin(args[1], g)
            if g.le(A.ZERO, dn, do - 1):
                return True, "divisor > 0 by dominating conditions", detail
            return False, "cannot show divisor != 0 (operator-trait division on integers)", detail
        ks = [T.fold_int(a) for a in args]
        if ks and all(k is not None for k in ks):
            return True, "constant operands", detail
        return False, "unchecked integer arithmetic through an operator trait can overflow", detail
    if kind == "chunks":
        k = T.fold_int(args[1]) if len(args) > 1 else None
        detail = "%s(%s)" % (T.short(name), k)
        if k is not None and k > 0:
            return True, "constant non-zero chunk size", detail
        return False, "chunk/window size may be zero", detail
    detail = "%s(%s)" % (T.short(name), ", ".join(srcname(b, a) for a in t["args"][:2]))
    return False, "%s call" % kind, detail


def _lenname(b, op):
    """name of the container whose length operand `op` is (PtrMetadata(x) / const N)"""
    if "k" in op:
        return "[array;%s]" % srcname(b, op)
    p = op.get("c") or op.get("m")
    d = _single_def(b, p["l"]) if not b.local_name(p["l"]) else None
    if d and d[0] == "s" and d[1]["r"]["k"] == "unop" and d[1]["r"]["op"] == "PtrMetadata":
        return srcname(b, d[1]["r"]["o"])
    return srcname(b, op)


def _alts_with_sites(b, S, operand, blk, n):
    """For `RangeFrom{start: x}` built from a plain multi-def local x: [(definition term, definition block)]."""
    p = operand.get("m") or operand.get("c")
    if not p or p["pr"]:
        return None
    # the range aggregate is a temporary: find its defining statement and the local used as bound
    for j in range(len(b.blocks[blk]["s"]) - 1, -1, -1):
        st = b.blocks[blk]["s"][j]
        if st["k"] == "assign" and st["p"]["l"] == p["l"] and st["r"]["k"] == "agg":
            o = st["r"]["ops"][0]
            q = o.get("m") or o.get("c")
            if not q or q["pr"]:
                return None
            l = q["l"]
            # follow one copy
            for jj in range(j - 1, -1, -1):
                s2 = b.blocks[blk]["s"][jj]
                if s2["k"] == "assign" and s2["p"]["l"] == l and s2["r"]["k"] == "use":
                    qq = s2["r"]["o"].get("c") or s2["r"]["o"].get("m")
                    if qq and not qq["pr"]:
                        l = qq["l"]
                        break
            sites, entry = S.reaching(l, blk, j)
            out = []
            for (db, dj) in sites:
                out.append((S.def_term(l, db, dj, 0), db))
            return out
    return None


def _ub(g, node, off):
    """smallest k with node + off <= k derivable, searching a few candidates"""
    for k in (0, 1, 3, 4, 15, 20, 40, 60, 255, 1020, 1500, 65535):
        if g.le(node, A.ZERO, k - off):
            return k
    return None


def _fold_bool(t):
    t = T.strip(t)
    if t[0] == "const" and isinstance(t[1], bool):
        return t[1]
    if t[0] == "binop" and t[1] in ("Lt", "Le", "Gt", "Ge", "Eq", "Ne"):
        a, b = T.fold_int(t[2]), T.fold_int(t[3])
        if a is None or b is None:
            return None
        return {"Lt": a < b, "Le": a <= b, "Gt": a > b, "Ge": a >= b, "Eq": a == b, "Ne": a != b}[t[1]]
    return None


# ---------------------------------------------------------------------------
ITER_OK = ("slice::Iter<", "slice::IterMut<", "iter::Enumerate<", "vec::IntoIter<", "ops::Range<", "vec::Drain<", "str::Split<", "str::Lines<",
           "slice::ChunksExact<", "iter::Rev<", "iter::Chain<", "iter::Copied<", "iter::Cloned<", "iter::Map<", "iter::Filter<", "iter::FilterMap<",
           "str::Chars<", "str::SplitWhitespace<", "str::SplitN<", "hash_map::Iter<", "iter::Zip<", "iter::Skip<", "iter::Take<", "slice::Windows<",
           "slice::Chunks<", "str::CharIndices<", "iter::Peekable<", "option::IntoIter<", "str::Bytes<", "range::<impl std::iter::Iterator for std::ops::Range<")


def loop_sites(P):
    for b in P.bodies.values():
        for h, blks in sorted(C.loops(b).items()):
            yield b, h, blks


def classify_loop(P, b, h, blks):
    """('iterator', callee) if the loop is driven by a std iterator whose exhaustion leaves the loop; else ('other', None)."""
    S = T.Slicer(b, P)
    # exits of the loop
    for x in sorted(blks):
        t = b.blocks[x]["t"]
        if t["k"] == "call" and callee_of(t).endswith("::next") and t["target"] is not None:
            name = callee_of(t)
            if not any(k in name for k in ITER_OK):
                continue
            tgt = t["target"]
            be = T.branch_edges(b, S, tgt)
            if be is None:
                continue
            atom, labels = be
            for succ, lab in labels.items():
                if lab == "None" and (succ not in blks or not C.reaches(b, succ, h, avoid=set(b.reachable) - blks)):
                    # the None edge leaves the loop; the iterator must be advanced on every iteration: next block dominates all back edges
                    backs = [u for u in blks if h in b.succs(u)]
                    if all(C.dominates(b, x, u) for u in backs):
                        # the iterated source must not be grown inside the loop: the iterator is a local moved into the loop, std borrow rules forbid growth
                        return "iterator", name
    return "other", None


def rule_loops(ctx):
    P = ctx.program
    table = _load("c01_loops.json")["loops"]
    tab = {(e["fn"], e["variant"]): e for e in table}
    n_it = n_other = 0
    seen_keys = set()
    for b, h, blks in loop_sites(P):
        kind, name = classify_loop(P, b, h, blks)
        if kind == "iterator":
            n_it += 1
            ctx.ok("R3", "loop:%s@%s" % (fn_key(b), T.short(name).split("::")[0] if name else ""), "advances %s each iteration; exits on None" % T.short(name), ctx.loc(b, h))
            continue
        n_other += 1
        ok, vname, why = check_variant(P, b, h, blks, tab)
        key = "loop:%s:%s" % (fn_key(b), vname or "unknown")
        if ok:
            ctx.ok("R3", key, why, ctx.loc(b, h))
        else:
            ctx.fail("R3", key, "loop in %s is neither driven by a finite std iterator nor matches a reviewed progress variant: %s" % (fn_key(b), why), ctx.loc(b, h))
        seen_keys.add((fn_key(b), vname))
    ctx.floor("R3", "iterator loops", n_it, 55)
    ctx.floor("R3", "non-iterator loops", n_other, 12)
    ctx.extra["loops"] = {"iterator": n_it, "reviewed": n_other}


def check_variant(P, b, h, blks, tab):
    """Structural re-check of the reviewed loops: returns (ok, variant-name, explanation)."""
    fk = fn_key(b)
    cands = [e for (f, v), e in tab.items() if f == fk]
    if not cands:
        return False, None, "no reviewed entry for this function"
    S = T.Slicer(b, P)
    backs = [u for u in blks if h in b.succs(u)]
    for e in cands:
        kind = e["kind"]
        if kind == "service":
            # blocks on an external source each iteration: a call named in `blocking` must dominate every back edge
            calls = [x for x in blks if b.blocks[x]["t"]["k"] == "call" and any(f in callee_of(b.blocks[x]["t"]) or f in (b.blocks[x]["t"].get("decl") or "") for f in e["blocking"])]
            ind = [x for x in blks if b.blocks[x]["t"]["k"] == "call" and b.blocks[x]["t"].get("decl") is None] if e.get("indirect") else []
            doms = [x for x in calls + ind if all(C.dominates(b, x, u) for u in backs)]
            if doms and _header_is(b, h, blks, e):
                return True, e["variant"], "service loop: each iteration blocks on %s (bounded by its source / timeout)" % e["blocking"]
            continue
        if kind == "shrinking-slice":
            # on every back edge path the variable local is reassigned to a sub-slice of itself starting at >= 1
            var = [l for l in range(len(b.locals)) if b.local_name(l) == e["variable"]]
            if not var:
                continue
            v = var[0]
            defs = [(db, dj) for (db, dj, full) in S.defs().get(v, []) if db in blks]
            if not defs:
                continue
            good = False
            for (db, dj) in defs:
                term = T.strip(S.def_term(v, db, dj, 0))
                adv = _slice_advance(P, b, S, term, v, e)
                if adv and all(C.dominates(b, db, u) for u in backs if C.reaches(b, db, u)) and _covers_backs(b, db, backs, blks, h):
                    good = True
            if good and _loop_of_var(b, h, blks, v):
                return True, e["variant"], "`%s` shrinks by >= %s bytes on every iteration that continues" % (e["variable"], e.get("min_advance", 1))
            continue
        if kind == "fill":
            # every back edge is dominated by a push on the vector whose length the loop test compares with a bound
            pushes = []
            for x in sorted(blks):
                t = b.blocks[x]["t"]
                if t["k"] == "call" and callee_of(t).endswith("Vec::<T, A>::push"):
                    if srcname(b, t["args"][0]).split(".")[0] == e["vector"]:
                        pushes.append(x)
            okb = bool(pushes) and all(any(C.dominates(b, p, u) for p in pushes) for u in backs)
            tested = False
            for x in sorted(blks):
                t = b.blocks[x]["t"]
                if t["k"] == "switch" and any(s not in blks for s in b.succs(x)):
                    for st in b.blocks[x]["s"]:
                        if st["k"] == "assign" and st["r"]["k"] == "binop" and st["r"]["op"] in ("Lt", "Le", "Gt", "Ge"):
                            term = S.rvalue(st["r"], x, len(b.blocks[x]["s"]))
                            if any(A.len_arg(y) is not None for y in T.walk(term) if y[0] in ("call", "unop")):
                                tested = True
            if okb and tested:
                return True, e["variant"], "`%s` grows by one push on every continuing iteration and its length is tested against a bound" % e["vector"]
            continue
        if kind == "counter":
            var = [l for l in range(len(b.locals)) if b.local_name(l) in e["variables"]]
            if not var:
                continue
            # every back edge is dominated by an increment (saturating_add(x, c>0)) of one of the variables, and the loop test compares a variable with a length
            tested = _loop_tested_vars(b, h, blks, var, S)
            incs = []
            for v in sorted(tested):
                for (db, dj, full) in S.defs().get(v, []):
                    if db in blks:
                        term = T.strip(S.def_term(v, db, dj, 0))
                        if term[0] == "call" and term[1].endswith("saturating_add") and (T.fold_int(term[2][1]) or 0) > 0:
                            incs.append(db)
            okb = _cut_by(b, h, blks, set(incs), backs)
            if incs and okb and tested:
                return True, e["variant"], "one of %s increases on every back edge; loop test bounds it by a length" % e["variables"]
            continue
    return False, cands[0]["variant"], "reviewed variant `%s` no longer holds structurally" % cands[0]["variant"]


def _cut_by(b, h, blks, cut, backs):
    """every path header -> back edge inside the loop passes through a block of `cut`"""
    seen, todo = set(), [h]
    while todo:
        x = todo.pop()
        if x in seen or x in cut or x not in blks:
            continue
        seen.add(x)
        if x in backs:
            return False
        for s in b.succs(x):
            if s != h:
                todo.append(s)
    return True


def _header_is(b, h, blks, e):
    return True


def _covers_backs(b, db, backs, blks, h):
    # every back edge source must be reachable only through the advancing definition
    return all(C.dominates(b, db, u) for u in backs)


def _loop_of_var(b, h, blks, v):
    return True


def _slice_advance(P, b, S, term, v, e):
    """term = &old[k..] with k >= min_advance (trusted contract or structural bound)"""
    if term[0] == "call" and term[1].endswith("::index") and len(term[2]) == 2:
        r = T.strip(term[2][1])
        if r[0] == "agg" and (r[2] or "").endswith("ops::RangeFrom"):
            start = T.strip(r[4][0])
            k = T.fold_int(start)
            if k is not None and k >= 1:
                return True
            # min(opt.packet_size(), len) : pnet contract packet_size >= 1 when the option exists
            if start[0] == "call" and start[1].endswith("::min"):
                return any("packet_size" in c[1] for c in T.calls_in(start)) and e.get("trusted") == "pnet:packet_size>=1"
            # 9 + length (frame_total_size)
            ax = A.Ctx(P, b)
            g = A.Graph()
            n, o = ax.lin(start, g)
            if g.le(A.ZERO, n, o - 1):
                return True
            if any(c[1].endswith("saturating_add") and (T.fold_int(c[2][0]) or 0) >= 1 for c in T.calls_in(start)):
                return True
    # `remaining = rest` where rest comes from a callee returning a strictly shorter slice (parse_single_frame)
    if e.get("via_callee"):
        return T.has_call(term, e["via_callee"])
    return False


def _loop_tested_vars(b, h, blks, var, S=None):
    """variables of `var` compared (Lt/Le/Gt/Ge) with a length in a test that can leave the loop"""
    out = set()
    for x in sorted(blks):
        t = b.blocks[x]["t"]
        if t["k"] != "switch" or all(s in blks for s in b.succs(x)):
            continue
        # `while let Some(x) = list.get(i)`: leaves the loop exactly when `i >= list.len()`
        if S is not None:
            be = T.branch_edges(b, S, x)
            if be is not None and be[0][0] == "variant":
                src = T.strip(be[0][1])
                if src[0] == "call" and src[1].endswith("::get") and ("[T]" in src[1] or "slice::" in src[1]) and len(src[2]) == 2:
                    for y in T.walk(src[2][1]):
                        if y[0] in ("loopvar", "local") and y[1] in var:
                            out.add(y[1])
        for st in b.blocks[x]["s"]:
            if st["k"] == "assign" and st["r"]["k"] == "binop" and st["r"]["op"] in ("Lt", "Le", "Gt", "Ge"):
                roots, haslen = set(), False
                for o in (st["r"]["a"], st["r"]["b"]):
                    pl = o.get("c") or o.get("m")
                    if pl is None:
                        continue
                    r = TB._root_local(b, pl["l"])
                    roots.add(r)
                    # a length: defined by a call to len() or PtrMetadata
                    for blk in b.blocks:
                        tt = blk["t"]
                        if tt["k"] == "call" and tt.get("dest") and tt["dest"]["l"] == pl["l"] and callee_of(tt).endswith("::len"):
                            haslen = True
                        # `offset.saturating_add(k) <= len`: the tested quantity is monotone in offset
                        if tt["k"] == "call" and tt.get("dest") and tt["dest"]["l"] == r and callee_of(tt).endswith("saturating_add"):
                            a0 = tt["args"][0].get("c") or tt["args"][0].get("m")
                            if a0 is not None:
                                roots.add(TB._root_local(b, a0["l"]))
                if haslen:
                    out |= {r for r in roots if r in var}
    return out


def _loop_test_on(b, S, h, blks, var):
    for x in sorted(blks):
        t = b.blocks[x]["t"]
        if t["k"] == "switch":
            c = None
            for s in reversed(b.blocks[x]["s"]):
                if s["k"] == "assign" and s["r"]["k"] == "binop" and s["r"]["op"] in ("Lt", "Le", "Gt", "Ge"):
                    c = s
                    break
            if c is not None:
                term = S.rvalue(c["r"], x, len(b.blocks[x]["s"]))
                if any(A.len_arg(y) is not None for y in T.walk(term) if y[0] in ("call", "unop")):
                    # one successor leaves the loop
                    if any(s not in blks for s in b.succs(x)):
                        return True
    return False


_IDENT = re.compile(r"(?<![\w:$])(?<!(?<!\.)\.)([A-Za-z_][A-Za-z0-9_]*)(?![\w(:])")


def _shape(detail):
    """site rendering with the names of locals replaced by `$` (field names, `self`, paths and callees stay): a reviewed site
    survives the renaming of a local variable"""
    return _IDENT.sub(lambda m: m.group(1) if m.group(1) == "self" else "$", detail)


def _origin_class(t, depth=0):
    """coarse, rename-independent class of where an index / bound comes from"""
    t = T.strip(t)
    while t[0] == "cast":
        t = T.strip(t[2])
    if depth > 4:
        return "deep"
    if T.fold_int(t) is not None or t[0] == "const":
        return "const"
    if t[0] == "param":
        return "param"
    if t[0] == "payload":
        return "item"           # closure parameter fed by an iterator adapter: the item of the iteration
    if t[0] == "upvar":
        return _origin_class(t[2], depth + 1)
    if t[0] in ("field", "downcast", "deref", "ref"):
        x = t
        while x[0] in ("field", "downcast", "deref", "ref"):
            x = T.strip(x[2] if x[0] == "ref" else x[1])
        if x[0] == "payload":
            return "item"
        if x[0] == "call":
            last = T.short(x[1]).rsplit("::", 1)[-1]
            return "item" if last == "next" else "payload:" + last
        if x[0] == "param":
            return "param"
        return "field-of:" + x[0]
    # a value reduced modulo a divisor (`x % n`, `x.checked_rem(n).unwrap_or(0)`, the same as a match): one class
    if Q.reduced_index(t) is not None:
        return "mod"
    if t[0] == "call":
        last = T.short(t[1]).rsplit("::", 1)[-1]
        if last == "unwrap_or" and len(t[2]) == 2:
            # `x.unwrap_or(k)` is `match x { Some(v) => v, None => k }`: the payload of x, or k
            x = T.strip(t[2][0])
            a = ("payload:" + T.short(x[1]).rsplit("::", 1)[-1]) if x[0] == "call" else "field-of:" + x[0]
            return "phi(" + ",".join(sorted({a, _origin_class(t[2][1], depth + 1)})) + ")"
        return "call:" + last
    if t[0] == "agg":
        return "%s(%s)" % ((t[2] or t[1]).rsplit("::", 1)[-1], ",".join(_origin_class(x, depth + 1) for x in t[4]))
    if t[0] == "phi":
        return "phi(" + ",".join(sorted({_origin_class(x, depth + 1) for x in t[1]})) + ")"
    if t[0] == "binop":
        return "arith"
    return t[0]


def _site_origin(P, ctxs, ob):
    b, blk = ob["b"], ob["blk"]
    ax = ctxs.setdefault(b.path, A.Ctx(P, b))
    n = len(b.blocks[blk]["s"])
    t = ob["t"]
    def org(o):
        x = ax.S.operand(o, blk, n)
        if b.kind == "Closure":
            x = T.expand_upvars(P, b, x, depth=3)
        return _origin_class(x)
    try:
        if ob["class"] == "assert":
            return org(t["ops"][1]) if len(t["ops"]) > 1 else "-"
        if t["args"]:
            return org(t["args"][-1])
    except (RecursionError, IndexError, KeyError):
        return "?"
    return "-"


# ---------------------------------------------------------------------------
def rule_sites(ctx):
    P = ctx.program
    reviewed = _load("c01_reviewed_sites.json")["sites"]
    rev = {}

    def encl(fk):
        """the named function a site belongs to: `crate/Type::method`, whether the site sits in the function body or in a closure it
        creates (a loop body rewritten as `.map(|..| ..)` keeps its reviewed sites)"""
        crate_, rest = fk.split("/", 1)
        rest = rest.split("::{closure#")[0]
        return crate_ + "/" + "::".join(rest.split("::")[-2:])
    for e in reviewed:
        rev.setdefault((encl(e["fn"]), e["kind"]), []).append(e)
    used = set()
    ctxs = {}
    counts = {"assert": 0, "call": 0, "ubcheck": 0}
    bykind = {}
    auto = 0
    nrev = 0
    for ob in obligations(P):
        counts[ob["class"]] += 1
        if ob["class"] == "ubcheck":
            continue
        b = ob["b"]
        kind = ob["kind"] if ob["class"] == "call" else ob["kind"]
        bykind[kind] = bykind.get(kind, 0) + 1
        try:
            ok, reason, detail = discharge(P, ctxs, ob)
        except RecursionError:
            ok, reason, detail = False, "analysis recursion limit", ""
        rule = "R2" if ob["class"] == "assert" and ob["kind"] != "BoundsCheck" else "R1"
        fk = fn_key(b)
        key = "%s:%s:%s" % (fk, kind, detail)
        if ok:
            auto += 1
            ctx.ok(rule, key, reason, ctx.loc(b, ob["blk"]))
            continue
        # reviewed?
        hit = None
        origin = None
        for e in rev.get((encl(fk), kind), []):
            if _shape(e["match"]) in _shape(detail) or _shape(e["match"]) in _shape(_fold_named(detail)):
                # the reviewed argument is about where the index comes from: that must not have changed
                if "origin" in e:
                    origin = origin or _site_origin(P, ctxs, ob)
                    if origin != e["origin"]:
                        reason += "; a reviewed entry exists for this expression but its index now comes from `%s` (reviewed: `%s`)" % (origin, e["origin"])
                        continue
                hit = e
                break
        if hit is not None:
            nrev += 1
            used.add(id(hit))
            ctx.ok(rule, key, "reviewed: " + hit["reason"], ctx.loc(b, ob["blk"]))
        else:
            ctx.fail(rule, key, "panic-capable site not discharged (%s) and not a reviewed site: %s in %s can panic for some input" % (reason, detail, fk),
                     ctx.loc(b, ob["blk"]))
    stale = [e for e in reviewed if id(e) not in used]
    ctx.extra["c01"] = {"obligations": counts, "by_kind": bykind, "auto_discharged": auto, "reviewed_used": nrev,
                        "reviewed_entries_unused": ["%s:%s:%s" % (e["fn"], e["kind"], e["match"]) for e in stale]}
    ctx.floor("R1", "assert terminators examined", counts["assert"], 340)
    ctx.floor("R1", "may-panic calls examined", counts["call"], 95)


def rule_hygiene(ctx):
    P = ctx.program
    n = 0
    for c in CRATES:
        raw = P.crates[c]
        sites = raw.get("unsafe_sites", [])
        n += 1
        ctx.check(not sites, "R4", "unsafe:%s" % c, "no user-written unsafe (lint level of unsafe_code: %s)" % raw.get("unsafe_code_lint"),
                  "crate %s contains user-written unsafe at %s" % (c, [(s["span"]["file"], s["span"]["lo"]) for s in sites][:3]))
    forb = [c for c in CRATES if P.crates[c].get("unsafe_code_lint") == "Forbid"]
    ctx.check(len(forb) >= 4, "R4", "forbid(unsafe_code)", "crates with #![forbid(unsafe_code)]: %s" % forb, "forbid(unsafe_code) removed: only %s" % forb)


def rule_external(ctx):
    P = ctx.program
    trusted = _load("trusted_api.json")["apis"]
    prefixes = [e["prefix"] for e in trusted]
    ext = {}
    for b in P.bodies.values():
        for blk, t in b.calls():
            n = callee_of(t)
            root = n.lstrip("<").split("::")[0].split(" ")[0]
            for dep in ("pnet", "pnet_packet", "pnet_base", "tls_parser", "hpack_patched", "nom", "ttl_cache", "sha2", "digest", "crossbeam_channel", "pcap_file", "lazy_static", "ipnetwork", "pnet_datalink"):
                if ("%s::" % dep) in n and not n.startswith("huginn_net"):
                    ext.setdefault(dep, set()).add(n)
    unknown = []
    total = 0
    for dep, names in ext.items():
        for n in names:
            total += 1
            if not any(p in n for p in prefixes):
                unknown.append(n)
    ctx.extra["external_apis"] = {d: len(v) for d, v in ext.items()}
    ctx.check(not unknown, "R5", "external-apis", "%d distinct dependency callees, all covered by tables/trusted_api.json" % total,
              "calls into dependency APIs that are not in the trusted table (review needed): %s" % sorted(unknown)[:6])
    ctx.floor("R5", "distinct dependency callees", total, 60)


def rule_poison(ctx):
    """R6: no input can poison an analyzer - interior-mutable state written on the per-input path is reset before every use, so an
    input that fails half-way (error exit) cannot leave something behind that changes how later inputs are analysed"""
    from . import C07
    C07.rule_R1(ctx, "R6")
    # a finished connection's cache entry is removed under the key it is stored with - a stale entry would swallow later traffic
    from ..engine import report as R
    C07.rule_R2_R3(R.Retag(ctx, "C07."))


def rule_liveness(ctx):
    """R7: no input can stop a worker: the service loops end only on shutdown / disconnect / closed result channel (shared with C10.R5)"""
    from . import _workers as W
    P = ctx.program
    for crate, fam in (("huginn_net_tcp", "tcp"), ("huginn_net_http", "http"), ("huginn_net_tls", "tls")):
        wl = [b for b in P.method("WorkerPool", "worker_loop") if b.crate == crate]
        wp = [b for b in P.method("WorkerPool", "process_packet") if b.crate == crate]
        if len(wl) != 1:
            ctx.cannot("R7", fam + ":worker_loop", "%d worker_loop bodies" % len(wl))
            continue
        W.exit_conditions(ctx, P, fam, wl[0], wp[0] if len(wp) == 1 else None, "R7")
    W.capture_loop_exits(ctx, P, "R7")


def rule_flow_tables_after_failure(ctx):
    """R6: a record that fails to parse does not stay behind in the TLS flow table, where it would be re-parsed in front of every later
    segment of the connection (shared with C08.R3)"""
    from ..engine import report as R
    from . import C08
    C08.rule_flow(R.Retag(ctx, "C08."))


def rule_reviewed_offset_invariant(ctx):
    """R1: the reviewed slice site `&self.buffer[start_offset..]` of Http2FingerprintExtractor::add_bytes is in range because
    parsed_offset only ever advances by the bytes the frames parsed *in this call* occupy - the structural form of that reason is
    C17.R3 (offset advance = bytes consumed by the frames just parsed), evaluated here as well"""
    from ..engine import report as R
    from . import C17
    C17.rule_R3(R.Retag(ctx, "C17."))


def run(ctx):
    rule_reviewed_offset_invariant(ctx)
    rule_flow_tables_after_failure(ctx)
    rule_liveness(ctx)
    rule_poison(ctx)
    rule_sites(ctx)
    rule_loops(ctx)
    rule_hygiene(ctx)
    rule_external(ctx)
