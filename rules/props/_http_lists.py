"""Shared rule: request conversions use the request header lists, response conversions the response lists."""
from ..engine import q as Q
from ..engine import terms as T
from ..engine.facts import callee_of


def direction_flags(ctx, P, rule, module):
    """every call of a `(headers, is_request)` helper made from convert_*_request_to_observable passes is_request = true, from
    convert_*_response_to_observable false"""
    n = 0
    for b in P.bodies.values():
        if b.crate != "huginn_net_http" or ("::%s::" % module) not in b.path:
            continue
        if not (b.name.startswith("convert_") and b.name.endswith("_to_observable")):
            continue
        is_req = "request" in b.name
        S = T.Slicer(b, P)
        for blk, t in b.calls():
            callee = P.bodies.get(callee_of(t))
            if callee is None:
                continue
            names = [callee.local_name(i + 1) for i in range(callee.arg_count)]
            if "is_request" not in names:
                continue
            a = Q.call_args(b, S, blk, t)
            v = T.strip(a[names.index("is_request")])
            n += 1
            val = v[1] if v[0] == "const" else None
            ctx.check(val is is_req, rule, "%s:%s:is_request" % (b.name, callee.name), "%s(.., is_request = %s)" % (callee.name, str(is_req).lower()),
                      "%s calls %s with is_request = %s: a %s is classified with the %s optional / skip-value / common header lists, so its derived signature "
                      "differs from what the same headers define" % (b.name, callee.name, val, "request" if is_req else "response", "response" if is_req else "request"), ctx.loc(b, blk))
    ctx.floor(rule, "%s: helper calls carrying is_request" % module, n, 4)
