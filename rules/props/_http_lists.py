"""Shared rule: request conversions use the request header lists, response conversions the response lists."""
from ..engine import q as Q
from ..engine import terms as T
from ..engine.facts import callee_of


def direction_flags(ctx, P, rule, module):
    """every call of a `(headers, is_request)` helper made from convert_*_request_to_observable passes is_request = true, from
    convert_*_response_to_observable false"""
    n = 0
    for b in P.bodies.values():
        if b.crate != "huginn_net_http" or ("::%s::" % module) not in b.path:
            continue
        if not (b.name.startswith("convert_") and b.name.endswith("_to_observable")):
            continue
        is_req = "request" in b.name
        S = T.Slicer(b, P)
        for blk, t in b.calls():
            callee = P.bodies.get(callee_of(t))
            if callee is None:
                continue
            names = [callee.local_name(i + 1) for i in range(callee.arg_count)]
            if "is_request" not in names:
                continue
            a = Q.call_args(b, S, blk, t)
            v = T.strip(a[names.index("is_request")])
            n += 1
            val = v[1] if v[0] == "const" else None
            ctx.check(val is is_req, rule, "%s:%s:is_request" % (b.name, callee.name), "%s(.., is_request = %s)" % (callee.name, str(is_req).lower()),
                      "%s calls %s with is_request = %s: a %s is classified with the %s optional / skip-value / common header lists, so its derived signature "
                      "differs from what the same headers define" % (b.name, callee.name, val, "request" if is_req else "response", "response" if is_req else "request"), ctx.loc(b, blk))
    ctx.floor(rule, "%s: helper calls carrying is_request" % module, n, 4)


def exclusive_pushes(ctx, P, rule, path):
    """each header yields exactly one entry of the header order: the pushes of the per-header loop are mutually exclusive"""
    from ..engine import lists as L
    b = P.body(path)
    name = path.rsplit("::", 1)[-1]
    lb = L.list_build(P, b)
    if lb is None:
        ctx.cannot(rule, name + ":one-entry-per-header", "neither a push loop nor an iterator chain builds the returned header list", ctx.loc(b))
        return
    bad = None if lb.exclusive else (lb.witness or (0, 0))
    pushes = lb.elements
    ctx.check(bad is None and len(pushes) >= 3, rule, name + ":one-entry-per-header", "the %d alternatives of the per-header step are mutually exclusive" % len(pushes),
              "%s can push two entries for one header (a path leads from one push to another within the same iteration): a header on the optional list appears as `?name` "
              "and again as `name=[value]` in the derived signature" % name, ctx.loc(b, bad[0]) if bad else ctx.loc(b))


def split_literals(ctx, P, rule, b, label):
    """cookie and referer are split out of the header list under exactly these (lower-case) names"""
    S = T.Slicer(b, P)
    lits = set()
    for blk, t in b.calls():
        if not callee_of(t).endswith("Vec::<T, A>::push"):
            continue
        for c in Q.canon_conds(P, T.dom_conds(b, S, blk)):
            if c[0] == "cmp" and c[1] in ("Eq", "Ne"):
                for side in (c[2], c[3]):
                    ss = T.strip(side)
                    if ss[0] == "const" and isinstance(ss[1], str):
                        lits.add((ss[1], (c[1] == "Eq") == c[4]))
            if c[0] == "bool" and c[1][0] == "call" and c[1][1].endswith("::eq"):
                for a in c[1][2]:
                    ss = T.strip(a)
                    if ss[0] == "const" and isinstance(ss[1], str):
                        lits.add((ss[1], c[2]))
    # whether a header enters the ordered header list depends on its NAME only: no push into a list of headers is decided by the
    # header's value (an empty or absent value is still a header that was sent, in the position it was sent)
    by_value = None
    for blk, t in b.calls():
        if not callee_of(t).endswith("Vec::<T, A>::push"):
            continue
        a = Q.call_args(b, S, blk, t)
        if not any(x[0] == "call" and x[1].endswith("::clone") or x[0] in ("field", "downcast") for x in T.walk(a[1])):
            continue
        for c in Q.canon_conds(P, T.dom_conds(b, S, blk)):
            subj = c[1] if c[0] in ("variant", "variant_in", "bool") else None
            if subj is None and c[0] == "cmp":
                subj = ("tuple2", c[2], c[3])
            if subj is not None and any(x[0] == "field" and x[2] == "value" for x in T.walk(subj)) and any(x[0] == "call" and x[1].endswith("::next") for x in T.walk(subj)):
                by_value = (blk, T.pp(subj)[:50])
    ctx.check(by_value is None, rule, label + ":listed-whatever-the-value", "every header that is not split out is listed, with or without a value",
              "a header is added to the header list only when %s: a header sent with an empty value disappears from the header list and the header order, and is "
              "reported as absent" % (by_value[1] if by_value else ""), ctx.loc(b, by_value[0]) if by_value else ctx.loc(b))
    names = {l for l, _ in lits}
    ctx.check({"cookie", "referer"} <= names and names <= {"cookie", "referer"}, rule, label + ":cookie-referer-split",
              "cookie / referer split out under their own names", "the header names that are split out of the header list are %s (expected exactly `cookie` and `referer`): the field is "
              "reported in the wrong place (e.g. the referer stays in the header list and `referer` is None)" % sorted(names), ctx.loc(b))
