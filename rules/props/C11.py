"""C11 - Memory per connection and work per packet stay bounded for any traffic.

Structural clauses decided:
 R1 growth discipline: every growth site of per-connection state (HTTP flow segment lists, TLS reader buffer) reaches
    each function exit either through a clear/drain/reset of that container, under a length bound, on an error exit
    (the owner drops the flow) or in the same arm as the terminal flag; segments are stored only while the direction's parsed flag
    is clear; connection caches are constructed with the configured capacity; the configured limits reach the constructors
    under their own names (no exchanged same-typed arguments)
 R2 the per-packet path does not traverse (clone / sort / iterate) a container that accumulates per-flow data
 R3 the size caps are still in front of the allocation they protect (64 KiB TLS record, HTTP/2 frame size,
    HTTP/1 header count and line lengths)
 C05.R1 / C08.R3 / C10.R3 / W.R2 bounds that rest on rules of other properties (head-only decode, TLS flow lifecycle,
    batch drained, per-worker capacity)
 R3 (also) explicit allocation sizes are constants, configured limits or stored lengths - never packet fields
 C18.R2 both directions of a connection reach one worker; TW IPv4/IPv6 twins agree
"""
from ..engine import cfg as C
from ..engine import q as Q
from ..engine import tables as TB
from ..engine import terms as T
from ..engine.facts import AnchorMissing, callee_of

EXPLANATION = ("For every growth call on retained per-connection state the return blocks reachable from it are classified by dominating "
               "conditions (length bound), dominating clear/drain/reset calls, error returns and terminal-flag stores; TtlCache::new "
               "argument origins; callee scan of the per-packet reassembly path; dominating conditions of the capped allocations.")
TRUSTED = ["TtlCache::new(capacity) evicts beyond capacity", "the caller drops a TLS flow when add_bytes returns Err (decided by C08-R3)"]
DECLINED = ["byte-exact memory bounds, allocator behaviour", "CPU cost of the parsers as a function of input size"]
ASSUMPTIONS = ["Http2FingerprintExtractor is a caller-owned API object, not analyzer state (outside this property's anchors)"]

GROW = ("Vec::<T, A>::push", "::extend_from_slice", "Vec::<T, A>::extend", "Vec::<T, A>::append", "Vec::<T, A>::insert", "String::push_str")
CLEAR = ("::clear", "::drain", "::truncate", "TlsClientHelloReader::reset", "::remove")
STATE = [
    # (owner type suffix, field, bodies (type, method) whose exits are examined)
    ("TcpFlow", "client_data", ("huginn_net_http::http_process::process_tcp_packet",)),
    ("TcpFlow", "server_data", ("huginn_net_http::http_process::process_tcp_packet",)),
    ("TlsClientHelloReader", "buffer", ("huginn_net_tls::tls_client_hello_reader::TlsClientHelloReader::add_bytes",)),
]


def _field_in(t, f):
    return any(x[0] == "field" and x[2] == f for x in T.walk(t))


def _bounded_by_u16(t):
    return any(x[0] == "call" and x[1].endswith("u16>::from_be_bytes") for x in T.walk(t))


def _cond_summary(conds, field):
    out = []
    for c in conds:
        if c[0] == "cmp":
            a, b = c[2], c[3]
            ka, kb = T.fold_int(a), T.fold_int(b)
            op = c[1] if c[4] else {"Lt": "Ge", "Ge": "Lt", "Gt": "Le", "Le": "Gt", "Eq": "Ne", "Ne": "Eq"}[c[1]]
            # `needed > buffer.len()` is `buffer.len() < needed`: the length of the container goes on the left
            if not (T.has_call(a, "::len") and _field_in(a, field)) and T.has_call(b, "::len") and _field_in(b, field):
                a, b, ka, kb = b, a, kb, ka
                op = {"Lt": "Gt", "Gt": "Lt", "Le": "Ge", "Ge": "Le"}.get(op, op)
            sym = {"Lt": "<", "Le": "<=", "Gt": ">", "Ge": ">=", "Eq": "==", "Ne": "!="}[op]
            if T.has_call(a, "::len") and _field_in(a, field):
                rhs = str(kb) if kb is not None else ("needed" if _bounded_by_u16(b) else "?")
                out.append("len%s%s" % (sym, rhs))
            elif kb is not None and _bounded_by_u16(a):
                out.append("needed%s%d" % (sym, kb))
            elif kb is not None and _field_in(a, field) and not T.has_call(a, "::len"):
                out.append("byte%s%d" % (sym, kb))
        elif c[0] == "variant" and c[3]:
            if T.has_call(c[1], "parse_") or T.has_call(c[1], "add_bytes"):
                out.append("parse:" + str(c[2]))
        elif c[0] == "bool" and c[1][0] == "call" and c[1][1].endswith("has_complete_http_data"):
            out.append("complete" if c[2] else "!complete")
        elif c[0] == "bool":
            fl = [x[2] for x in T.walk(c[1]) if x[0] == "field" and isinstance(x[2], str) and x[2].endswith("_parsed")]
            if fl and T.strip(c[1])[0] in ("field", "deref"):
                out.append(("" if c[2] else "!") + fl[0])
    return out


def rule_R1(ctx, only=None):
    P = ctx.program
    ngrow = 0
    for owner, field, paths in STATE:
        if only and owner not in only:
            continue
        for path in paths:
            try:
                b = P.body(path)
            except AnchorMissing as e:
                ctx.cannot("R1", "%s.%s" % (owner, field), str(e))
                continue
            S = T.Slicer(b, P)
            grows = []
            for blk, t in Q.calls(b, list(GROW)):
                a = Q.call_args(b, S, blk, t)
                if _field_in(a[0], field):
                    grows.append(blk)
            if not grows:
                ctx.cannot("R1", "%s.%s" % (owner, field), "no growth site found in %s" % T.short(path), ctx.loc(b))
                continue
            clears = []
            for blk, t in Q.calls(b, list(CLEAR)):
                a = Q.call_args(b, S, blk, t)
                n = callee_of(t)
                if n.endswith("::reset") or _field_in(a[0], field) or (n.endswith("::remove") and "TtlCache" in n):
                    # only a drain of everything / a truncation to nothing empties the container (`drain(..k)` keeps the rest)
                    if n.endswith("::drain") and len(a) > 1 and not (T.strip(a[1])[0] == "agg" and "RangeFull" in (T.strip(a[1])[2] or "")) and \
                            not (T.strip(a[1])[0] == "const" and "RangeFull" in str(T.strip(a[1])[3] or "")):
                        continue
                    if n.endswith("::truncate") and len(a) > 1 and not (T.strip(a[1])[0] == "const" and T.strip(a[1])[1] == 0):
                        continue
                    clears.append(blk)
            flag_blocks = []
            for i, j, s in b.iter_stmts():
                if s["k"] == "assign" and s["p"]["pr"]:
                    names = [x.get("n") for x in s["p"]["pr"] if isinstance(x, dict)]
                    flagname = {"client_data": "client_http_parsed", "server_data": "server_http_parsed", "buffer": "signature"}[field]
                    if flagname in names:
                        flag_blocks.append(i)
            for gk, g in enumerate(grows):
                # nothing is stored once the terminal state of that direction is reached
                flagname = {"client_data": "client_http_parsed", "server_data": "server_http_parsed", "buffer": None}[field]
                if flagname:
                    gc = Q.canon_conds(P, T.dom_conds(b, S, g))
                    gated = any(c[0] == "bool" and c[2] is False and any(x[0] == "field" and x[2] == flagname for x in T.walk(c[1])) for c in gc)
                    ctx.check(gated, "R1", "%s.%s:%s:growth-gated@%d" % (owner, field, T.short(path).split("::")[-1], gk),
                              "segments are stored only while %s is clear" % flagname,
                              "payload is appended to %s.%s without testing %s: after the message of that direction has been reported every further segment of the "
                              "connection (upload body, tunnel, pipelined data) is still retained" % (owner, field, flagname), ctx.loc(b, g))
            for g in grows:
                ngrow += 1
                reach = C.reachable_from(b, g) | {g}
                sites = [(rb, term) for (rb, j, term, _c) in TB.return_sites(b, P) if rb in reach]
                for (r, ret_term) in sites:
                    conds = Q.canon_conds(P, T.dom_conds(b, S, r))
                    summ = _cond_summary(conds, field)
                    bounded_len = any(s_.startswith("len<") for s_ in summ)
                    cleared = any(C.dominates(b, c_, r) and c_ in reach for c_ in clears)
                    flagged = any((C.dominates(b, f_, r) or f_ == r) and f_ in reach for f_ in flag_blocks)
                    is_err = (ret_term[0] == "agg" and ret_term[3] == "Err") or (ret_term[0] == "call" and ret_term[1].endswith("from_residual")) or \
                        (ret_term[0] == "agg" and ret_term[3] == "Err")
                    if ret_term[0] not in ("agg", "call"):
                        inner = T.strip(ret_term)
                        is_err = is_err or (inner[0] == "agg" and inner[3] == "Err")
                    # `Err(e)` re-wrapped from a matched error value
                    if ret_term[0] == "agg" and ret_term[3] == "Err":
                        is_err = True
                    key = "%s.%s:%s:exit[%s]" % (owner, field, T.short(path).split("::")[-1], ",".join(summ) or "end")
                    reasons = [n for n, v in (("length bound", bounded_len), ("container cleared / flow removed", cleared), ("terminal flag set", flagged), ("error exit (owner drops the flow)", is_err)) if v]
                    if reasons:
                        ctx.ok("R1", key, "bounded: " + ", ".join(reasons), ctx.loc(b, r))
                    else:
                        ctx.fail("R1", key,
                                 "after appending to %s.%s the function can return under [%s] without a length bound, without clearing the container and without "
                                 "reaching a terminal state: retained bytes grow with every further segment of the connection" % (owner, field, ", ".join(summ) or "no condition"),
                                 ctx.loc(b, r))
    ctx.floor("R1", "growth sites on per-connection state", ngrow, 3 if not only else 1)
    if only:
        return
    # caches constructed with the configured capacity
    n = 0
    for b in P.bodies.values():
        if b.crate not in ("huginn_net_tcp", "huginn_net_http", "huginn_net_tls", "huginn_net"):
            continue
        S = None
        for blk, t in b.calls():
            if not (callee_of(t).endswith("TtlCache::<K, V>::new") or callee_of(t).endswith("TtlCache::new")):
                continue
            if S is None:
                S = T.Slicer(b, P)
            a = Q.call_args(b, S, blk, t)
            leaves = []
            okc = True
            for x in T.walk(a[0]):
                if x[0] == "param":
                    leaves.append(x[2] or "")
                elif x[0] == "field" and isinstance(x[2], str):
                    leaves.append(x[2])
                elif x[0] == "const" and isinstance(x[1], int) and not isinstance(x[1], bool) and x[1] != 0:
                    okc = False
            named = any("max_connections" in l for l in leaves)
            n += 1
            ctx.check(okc and named, "R1", "cache-capacity:%s@%d" % (T.short(b.path), n), "TtlCache::new(<max_connections>)",
                      "connection cache is not sized by the configured capacity: %s" % T.pp(a[0])[:80], ctx.loc(b, blk))
    ctx.floor("R1", "TtlCache constructions", n, 10)


def rule_R2(ctx):
    P = ctx.program
    root = P.body("huginn_net_http::http_process::process_tcp_packet")
    bodies = Q.callgraph_closure(P, root, depth=3)
    bad = []
    for b in bodies:
        S = T.Slicer(b, P)
        for blk, t in b.calls():
            n = callee_of(t)
            if not any(n.endswith(k) or k in n for k in ("::clone", "sort_by_key", "sort_by", "::sort", "::into_iter", "::iter", "::concat", "::to_vec")):
                continue
            a = Q.call_args(b, S, blk, t)
            if not a:
                continue
            if _field_in(a[0], "client_data") or _field_in(a[0], "server_data"):
                bad.append((b, blk, T.short(n)))
    fns = sorted({T.short(b.path) for b, _, _ in bad})
    if bad:
        ctx.fail("R2", "http:per-packet-traversal:" + ",".join(fns),
                 "%s %s the whole list of stored segments of the flow for every packet (%s): work per packet grows with the bytes the connection has already "
                 "carried (quadratic per connection)" % (fns, "clones/sorts/iterates", sorted({c for _, _, c in bad})), ctx.loc(bad[0][0], bad[0][1]))
    else:
        ctx.ok("R2", "http:per-packet-traversal", "no traversal of accumulated per-flow containers on the per-packet path")
    # TLS: parse is attempted only once per record (when complete), not per segment
    b = P.body("huginn_net_tls::tls_client_hello_reader::TlsClientHelloReader::add_bytes")
    S = T.Slicer(b, P)
    ps = Q.calls(b, "parse_tls_client_hello")
    okp = False
    for blk, t in ps:
        conds = Q.canon_conds(P, T.dom_conds(b, S, blk))
        okp = any(s_.startswith("len>=needed") for s_ in _cond_summary(conds, "buffer"))
    ctx.check(okp, "R2", "tls:parse-once-complete", "buffered record parsed only when complete", "the buffered record is re-parsed before it is complete", ctx.loc(b))


def rule_frame_cap_default(ctx, rule="R3"):
    """the default frame cap is the protocol's initial SETTINGS_MAX_FRAME_SIZE (RFC 7540 6.5.2: 2^14): a frame of exactly that size is
    legal before any SETTINGS exchange and has to be accepted (shared with C16 / C17)"""
    P = ctx.program
    dflt = [b2 for b2 in P.bodies.values() if b2.kind == "AssocFn" and b2.name == "default" and (b2.impl_self or "").endswith("Http2Config")]
    if dflt:
        vals = [x[1] for (_, _, term, _c) in TB.return_sites(dflt[0], P) for x in T.consts_in(term) if isinstance(x[1], int) and not isinstance(x[1], bool)]
        # the value of the field itself, however it is written (`16384`, `1 << 14`, a named constant)
        fld = []
        adt = [a for a in P.adts.values() if a["path"].endswith("::Http2Config")]
        if adt:
            names = [f_["name"] for f_ in adt[0]["variants"][0]["fields"]]
            for (_, _, term, _c) in TB.return_sites(dflt[0], P):
                tt = T.strip(term)
                if tt[0] == "agg" and "max_frame_size" in names and names.index("max_frame_size") < len(tt[4]):
                    fld.append(T.fold_int(tt[4][names.index("max_frame_size")]))
        if fld and all(v is not None for v in fld):
            vals = fld
        ctx.check(16384 in vals, rule, "http2:frame-cap-default", "default max_frame_size = 16384", "default max_frame_size changed: %s" % vals, ctx.loc(dflt[0]))


def rule_R3(ctx):
    P = ctx.program
    # TLS 64 KiB cap (shared with C08-R4)
    b = P.body("huginn_net_tls::tls_client_hello_reader::TlsClientHelloReader::add_bytes")
    S = T.Slicer(b, P)
    okcap = False
    for blk, t in Q.calls(b, "parse_tls_client_hello"):
        for s_ in _cond_summary(Q.canon_conds(P, T.dom_conds(b, S, blk)), "buffer"):
            if s_.startswith("needed<=") and int(s_.split("<=")[1]) <= 65541:
                okcap = True
    ctx.check(okcap, "R3", "tls:record-cap", "records above 64 KiB refused before parsing", "64 KiB record cap no longer dominates the parse", ctx.loc(b))
    # HTTP/2 frame cap before the payload copy
    f = P.method1("Http2Parser", "parse_single_frame")
    SF = T.Slicer(f, P)
    okf = False
    for blk, t in Q.calls(f, ["::to_vec", "Vec::<T>::from", "::to_owned"]):
        for c in Q.canon_conds(P, T.dom_conds(f, SF, blk)):
            o = Q.oriented(c, lambda z: _field_in(z, "max_frame_size"))
            if o and any(x[0] == "call" and x[1].endswith("from_be_bytes") for x in T.walk(o[2])):
                okf = o[0] == "Ge"
    ctx.check(okf, "R3", "http2:frame-cap", "frame length <= config.max_frame_size before the payload is copied", "HTTP/2 frame size cap no longer dominates the payload copy", ctx.loc(f))
    rule_frame_cap_default(ctx)
    # HTTP/1 caps
    h = P.method1("Http1Parser", "parse_headers")
    SH = T.Slicer(h, P)
    caps = {"max_headers": False, "max_header_length": False}
    for (rb, j, term, _c) in TB.return_sites(h, P):
        if term[0] == "agg" and term[3] == "Err":
            for c in Q.canon_conds(P, T.dom_conds(h, SH, rb)):
                for k in caps:
                    o = Q.oriented(c, lambda z, k=k: _field_in(z, k))
                    # the limited quantity is a length itself (`line.len()`, `headers.len()`), not a running total that contains one
                    q_ = T.strip(o[2]) if o else None
                    while q_ is not None and q_[0] == "cast":
                        q_ = T.strip(q_[2])
                    if o and o[0] == "Lt" and q_[0] == "call" and q_[1].endswith("::len"):
                        caps[k] = True
    for k, v in caps.items():
        ctx.check(v, "R3", "http1:" + k, "Err when count/length exceeds config.%s" % k, "HTTP/1 cap %s no longer enforced" % k, ctx.loc(h))
    # the header-count cap precedes the per-header loop (allocation of the header vector)
    rl = P.method1("Http1Parser", "parse_request_line")
    SR = T.Slicer(rl, P)
    okrl = False
    for (rb, j, term, _c) in TB.return_sites(rl, P):
        if term[0] == "agg" and term[3] == "Err":
            for c in Q.canon_conds(P, T.dom_conds(rl, SR, rb)):
                o = Q.oriented(c, lambda z: _field_in(z, "max_request_line_length"))
                if o and o[0] == "Lt":
                    okrl = True
    ctx.check(okrl, "R3", "http1:max_request_line_length", "Err when the request line exceeds the cap", "request line length cap no longer enforced", ctx.loc(rl))


def rule_alloc_sizes(ctx):
    """R3: explicit allocation sizes (with_capacity / reserve / resize / vec![x; n]) are constants, configured limits or lengths of data
    that is already stored - never values taken from packet fields (sequence numbers, length fields), which a peer controls"""
    P = ctx.program
    n = 0
    bad = []
    for b in P.bodies.values():
        if b.crate not in ("huginn_net_tcp", "huginn_net_http", "huginn_net_tls", "huginn_net", "huginn_net_db"):
            continue
        S = None
        for blk, t in b.calls():
            nm = callee_of(t)
            if not nm.endswith(("::with_capacity", "::reserve", "::resize", "::from_elem", "::reserve_exact", "::resize_with")) or Q.in_tracing(t["span"]):
                continue
            S = S or T.Slicer(b, P)
            a = Q.call_args(b, S, blk, t)
            arg = a[1] if nm.endswith(("from_elem", "::reserve", "::resize", "::reserve_exact", "::resize_with")) and len(a) > 1 else a[-1]
            n += 1
            wire = []
            for x in T.walk(T.strip(arg)):
                if x[0] == "call":
                    last = x[1].rsplit("::", 1)[-1]
                    if last.startswith(("get_", "from_be_bytes", "from_le_bytes")) and last not in ("get",):
                        wire.append(last)
                if x[0] == "field" and isinstance(x[2], str) and x[2] in ("sequence", "length", "ack", "window", "stream_id", "value"):
                    wire.append("." + x[2])
            if wire:
                bad.append((b, blk, sorted(set(wire))))
    ctx.check(not bad, "R3", "allocation-sizes", "%d explicit allocation sizes: constants, configured limits, stored lengths" % n,
              "%s sizes an allocation from %s: one segment with a far-ahead sequence number / a large declared length makes the analyzer request that much memory "
              "although the connection holds a few bytes" % (T.short(bad[0][0].path) if bad else "", bad[0][2] if bad else ""), ctx.loc(bad[0][0], bad[0][1]) if bad else None)
    ctx.floor("R3", "explicit allocation sizes", n, 6)


def rule_args(ctx):
    """R1 (capacity routing): the configured limits reach the constructors under their own names"""
    from . import _argswap as AS
    n = AS.swapped_arguments(ctx, ctx.program, "R1", ("huginn_net_tcp", "huginn_net_http", "huginn_net_tls", "huginn_net"),
                             only_params=("max_connections", "queue_size", "batch_size", "timeout_ms", "num_workers"))
    ctx.floor("R1", "call sites passing connection / queue limits", n, 6)


def rule_tls_lifecycle(ctx):
    """the bound on the TLS reader relies on the flow being dropped after a result and after an error (shared with C08.R3)"""
    from ..engine import report as R
    from . import C08
    C08.rule_flow(R.Retag(ctx, "C08."))


def rule_shared(ctx):
    """bounds that rest on rules of other properties: the HTTP gate closes because the head is decoded independently of the body
    (C05.R1); a worker's batch is emptied by every round (C10.R3), per-worker capacity is the configured one (W.R2)"""
    from ..engine import report as R
    from . import C05, C10
    from . import _workers as W
    C05.rule_R1(R.Retag(ctx, "C05."))
    # both directions of a connection reach the worker that holds its flow (otherwise the other worker accumulates an unparsable mirror flow)
    from . import C18
    C18.rule_R2(R.Retag(ctx, "C18."))
    P = ctx.program
    for crate, fam in (("huginn_net_http", "http"), ("huginn_net_tls", "tls")):
        wl = [b for b in P.method("WorkerPool", "worker_loop") if b.crate == crate]
        if len(wl) == 1:
            S = T.Slicer(wl[0], P)
            drains = Q.calls(wl[0], "::drain")
            okd = False
            for blk, t in drains:
                a = Q.call_args(wl[0], S, blk, t)
                r = T.strip(a[1]) if len(a) > 1 else None
                if r and r[0] in ("agg", "const"):
                    okd = True
            ctx.check(okd, "C10.R3", fam + ":worker_loop:batch-drained", "the batch is emptied (drain(..)) by every round",
                      "the batch is not drained: every packet a worker has received stays in memory and is processed again in each round", ctx.loc(wl[0]))
        W.uniform_workers(ctx, P, crate, fam, "W.R2")


def rule_twins(ctx):
    """the IPv4 and IPv6 copies of the per-packet functions route sides, roles and lookups identically (shared rule TW)"""
    from . import _twins as TW
    TW.twin_agreement(ctx, ctx.program, "TW", ("huginn_net_http", "huginn_net_tls"), floor=6)


def rule_shared_decoder(ctx):
    """state shared by all connections (the HPACK decoder of the HTTP/2 parser) is re-created per message on every path: otherwise its
    dynamic table grows with the traffic of connections that are long gone (shared with C07.R1)"""
    from ..engine import report as R
    from . import C07
    C07.rule_R1(R.Retag(ctx, "C07."), "R1")


def rule_tracker_bounded(ctx):
    """the TCP timestamp tracker is filled through the capacity-checking insert of the cache only (shared with C19.R1/R2)"""
    from ..engine import report as R
    from . import C19
    C19.rule_R1_R2(R.Retag(ctx, "C19."))


def rule_loops_progress(ctx):
    """the work done for one packet is proportional to its size: every loop over packet bytes is driven by a finite std iterator or makes
    the reviewed progress on each iteration (shared with C01.R3)"""
    from ..engine import report as R
    from . import C01
    C01.rule_loops(R.Retag(ctx, "C01."))


def run(ctx):
    rule_loops_progress(ctx)
    rule_tracker_bounded(ctx)
    rule_shared_decoder(ctx)
    rule_alloc_sizes(ctx)
    rule_twins(ctx)
    rule_shared(ctx)
    rule_tls_lifecycle(ctx)
    rule_args(ctx)
    rule_R1(ctx)
    rule_R2(ctx)
    rule_R3(ctx)
