"""C19 - Uptime estimates are sound for steady clocks and withheld otherwise.

Structural clauses decided:
 R1 bad-frequency marker: both failure arms store the marker under the packet's key; both frequency computations are
    skipped when the stored entry carries the marker (no re-evaluation while the entry lives)
 R2 every cache operation of check_ts_tcp uses one key built from the connection and the direction flag
 R3 interval / frequency guards: constants (25 ms, 600 000 ms, 1 Hz, 1500 Hz) and orientation of each comparison;
    differences are taken current - reference, modularly
 R4 role rule: decision tables of from_client / from_server / is_packet_from_client; client result only on the
    client branch, server result only on the server branch; labelled Client / Server in the result builders
 R5 a single clock source (SystemTime::now only in get_unix_time_ms)
 R6 uptime decomposition: days / hours / minutes are floor(t/86400), floor((t mod 86400)/3600), floor((t mod 3600)/60) of
    t = tsval / frequency; wrap period = u32::MAX / (frequency * 86400)
 R7 grid snap uses the nearest multiple (round) and the tolerance test
 R8 the frequency grid: every integer rate 0..=2000 maps to the documented grid value (arms of round_frequency_p0f_style extracted
    as an interval table and evaluated exhaustively)
 TW IPv4/IPv6 twins label roles identically
"""
from ..engine import cfg as C
from ..engine import decision as D
from ..engine import q as Q
from ..engine import tables as TB
from ..engine import terms as T
from ..engine.facts import AnchorMissing, callee_of

EXPLANATION = ("Dominating conditions and post-dominance in check_ts_tcp (marker pairing), origin slices of every TtlCache key, "
               "return table of calculate_frequency_p0f_style with evaluated constants, exhaustive decision tables of the role "
               "functions over flag-bit atoms, who-may-call for the clock.")
TRUSTED = ["ttl_cache::TtlCache get/insert semantics", "pnet TcpFlags constants (SYN=0x02, ACK=0x10)", "RangeInclusive::contains"]
DECLINED = ["rounding grid of the reported frequency", "uptime decomposition into days/hours/minutes", "wrap period (numeric, f64)"]
ASSUMPTIONS = []
EXHAUSTIVE = True

UPT = "huginn_net_tcp::uptime::"


def _consts_named(t):
    return {x[2].rsplit("::", 1)[-1]: x[1] for x in T.consts_in(t) if x[2]}


def rule_R1_R2(ctx):
    P = ctx.program
    b = P.body(UPT + "check_ts_tcp")
    S = T.Slicer(b, P)
    calcs = Q.calls(b, "calculate_frequency_p0f_style")
    ctx.floor("R1", "frequency computations in check_ts_tcp", len(calcs), 2)
    for blk, t in calcs:
        conds = Q.canon_conds(P, T.dom_conds(b, S, blk))
        side = None
        bad_guard = None
        for c in conds:
            if c[0] == "bool":
                tt = T.strip(c[1])
                if tt[0] == "param" and tt[2] == "from_client":
                    side = "client" if c[2] else "server"
                if any(x[0] == "field" and x[2] == "is_bad_frequency" for x in T.walk(c[1])) and T.has_call(c[1], "TtlCache"):
                    bad_guard = c[2]
        inst = "check_ts_tcp:%s" % (side or "?")
        ctx.check(bad_guard is False, "R1", inst + ":skip-when-bad", "frequency computed only when the stored entry is not the bad marker",
                  "an endpoint already marked bad is re-evaluated (no `is_bad_frequency` early return dominates the computation)", ctx.loc(b, blk))
        # arguments: (current, reference from the cache under the same key)
        args = Q.call_args(b, S, blk, t)
        ref_ok = T.has_call(args[1], "TtlCache") and (T.has_call(args[1], "::get"))
        cur_ok = T.has_call(args[0], "TcpTimestamp::now")
        ctx.check(ref_ok and cur_ok, "R1", inst + ":operands", "calculate_frequency(current = now(ts_val), reference = cache.get(key))",
                  "frequency is not computed between the current segment and the stored reference", ctx.loc(b, blk))
        # Err arm passes through insert(key, bad marker)
        tgt = t["target"]
        be = T.branch_edges(b, S, tgt)
        err_succ = None
        if be:
            atom, labels = be
            for succ, lab in labels.items():
                if lab == "Err" or (isinstance(lab, tuple) and lab[0] == "else" and "Err" in lab[1]):
                    err_succ = succ
        if err_succ is None:
            ctx.cannot("R1", inst + ":err-arm", "Err arm not found", ctx.loc(b, blk))
            continue
        marked = False
        for iblk, it in Q.calls(b, "TtlCache::<K, V>::insert") + Q.calls(b, "TtlCache::<K, V, S>::insert"):
            ia = Q.call_args(b, S, iblk, it)
            if T.has_call(ia[2], "bad_frequency_marker") and C.postdominates(b, iblk, err_succ) and C.dominates(b, err_succ, iblk):
                key = T.strip(ia[1])
                marked = _is_tracking_key(key)
        ctx.check(marked, "R1", inst + ":mark-bad", "failure arm stores bad_frequency_marker under the tracking key on every path",
                  "a failed frequency estimate does not (always) store the bad marker: the endpoint would be re-evaluated", ctx.loc(b, err_succ))
    # marker really carries the flag
    mk = P.method1("TcpTimestamp", "bad_frequency_marker")
    sites = TB.return_sites(mk, P)
    okm = False
    for (_, _, term, _) in sites:
        if term[0] == "agg" and term[1] == "adt":
            adt = P.adt("huginn_net_tcp::uptime::TcpTimestamp")
            names = [f["name"] for f in adt["variants"][0]["fields"]]
            v = term[4][names.index("is_bad_frequency")]
            okm = v[0] == "const" and v[1] is True
    ctx.check(okm, "R1", "bad_frequency_marker", "marker has is_bad_frequency = true", "bad_frequency_marker() does not set is_bad_frequency", ctx.loc(mk))
    # R2 keys
    n = 0
    for blk, t in Q.calls(b, "TtlCache"):
        nm = callee_of(t).rsplit("::", 1)[-1]
        if nm not in ("get", "get_mut", "insert", "remove", "contains_key"):
            continue
        a = Q.call_args(b, S, blk, t)
        n += 1
        ctx.check(_is_tracking_key(T.strip(a[1])), "R2", "check_ts_tcp:%s@%s" % (nm, _side_of(P, b, S, blk)),
                  "keyed by ConnectionKey{connection, is_client: from_client}",
                  "cache operation `%s` is keyed by %s, not by (connection, direction)" % (nm, T.pp(a[1])[:80]), ctx.loc(b, blk))
    ctx.floor("R2", "cache operations in check_ts_tcp", n, 6)
    # inserts of the first timestamp: on the None arm of get, value = current_ts, with the cache TTL constant
    firsts = 0
    for iblk, it in Q.calls(b, "::insert"):
        ia = Q.call_args(b, S, iblk, it)
        if T.has_call(ia[2], "TcpTimestamp::now"):
            firsts += 1
            conds = Q.canon_conds(P, T.dom_conds(b, S, iblk))
            none_arm = any(c[0] == "variant" and T.has_call(c[1], "::get") and ((c[2] == "None" and c[3]) or (c[2] == "Some" and not c[3])) for c in conds)
            ttl = _consts_named(ia[3])
            ctx.check(none_arm and ttl.get("CONNECTION_CACHE_TTL_SECS") is not None, "R2", "check_ts_tcp:first-insert@%s" % _side_of(P, b, S, iblk),
                      "first timestamp stored only when no entry exists, TTL %s s" % ttl.get("CONNECTION_CACHE_TTL_SECS"),
                      "reference timestamp is overwritten although an entry exists, or TTL constant missing", ctx.loc(b, iblk))
    ctx.floor("R2", "first-timestamp inserts", firsts, 2)


def _side_of(P, b, S, blk):
    for c in Q.canon_conds(P, T.dom_conds(b, S, blk)):
        if c[0] == "bool":
            tt = T.strip(c[1])
            if tt[0] == "param" and tt[2] == "from_client":
                return "client" if c[2] else "server"
    return "?"


def _is_tracking_key(key):
    for alt in (key[1] if key[0] == "phi" else [key]):
        k = T.strip(alt)
        if k[0] == "call" and k[1].endswith("clone") and k[2]:
            k = T.strip(k[2][0])
        if not (k[0] == "agg" and k[1] == "adt" and (k[2] or "").endswith("ConnectionKey")):
            return False
        conn, isc = k[4][0], k[4][1]
        c0 = T.strip(conn)
        conn_ok = any(x[0] == "param" and x[2] == "connection" for x in T.walk(conn))
        i0 = T.strip(isc)
        if not (conn_ok and i0[0] == "param" and i0[2] == "from_client"):
            return False
    return True


# ---------------------------------------------------------------------------
def rule_R3(ctx):
    P = ctx.program
    want = {"MIN_TWAIT": 25, "MAX_TWAIT": 600000}
    for name, v in want.items():
        c = P.const(UPT + name)
        got = (c["val"] or {}).get("int")
        ctx.check(got == v, "R3", "const:" + name, "%s = %s" % (name, v), "%s is %s, the documented bound is %s" % (name, got, v))
    for name, v in (("MIN_FINAL_HZ", 1.0), ("MAX_FINAL_HZ", 1500.0)):
        c = P.const(UPT + name)
        val = c["val"] or {}
        got = T.float_of(("f", val.get("fbits"), val.get("fsize"))) if "fbits" in val else None
        ctx.check(got == v, "R3", "const:" + name, "%s = %s" % (name, v), "%s is %s, the documented bound is %s" % (name, got, v))
    b = P.body(UPT + "calculate_frequency_p0f_style")
    S = T.Slicer(b, P)
    sites = TB.return_sites(b, P)
    # ms_diff / ts_diff orientation
    orient = {}
    for i, j, s in b.iter_stmts():
        pass
    for blk, t in Q.calls(b, ["saturating_sub", "wrapping_sub"]):
        a = Q.call_args(b, S, blk, t)
        p0 = {x[1] for x in T.params_in(a[0])}
        p1 = {x[1] for x in T.params_in(a[1])}
        f0 = [x[2] for x in T.walk(a[0]) if x[0] == "field"]
        f1 = [x[2] for x in T.walk(a[1]) if x[0] == "field"]
        if f0 and f1 and f0[0] == f1[0] and f0[0] in ("recv_time_ms", "ts_val"):
            orient[f0[0]] = (p0 == {0} and p1 == {1}, callee_of(t).rsplit("::", 1)[-1])
    ctx.check(orient.get("recv_time_ms", (False,))[0] and orient.get("ts_val", (False,))[0], "R3", "differences:orientation",
              "ms_diff = current.recv_time_ms - reference.recv_time_ms (saturating); ts_diff = current.ts_val - reference.ts_val (wrapping)",
              "time/tick differences are not taken as current minus reference: %s" % orient, ctx.loc(b))
    ctx.check(orient.get("ts_val", (0, ""))[1] == "wrapping_sub", "R3", "differences:wrapping", "tick difference is modular (wrapping_sub)",
              "tick difference does not use modular subtraction", ctx.loc(b))
    # Err guards
    guards = {"too-short": False, "too-long": False, "range": False}
    ok_site = None
    from ..engine import paths as PA
    per_site = []
    for (blk, j, term, _c) in sites:
        conds = Q.canon_conds(P, T.dom_conds(b, S, blk))
        is_err = (term[0] == "agg" and term[3] == "Err") or (term[0] == "call" and term[1].endswith("::from_residual"))
        is_ok = term[0] == "agg" and term[3] == "Ok"
        # a guard may sit in a helper that returns Result and is applied with `?` (inlined here): the exit is then shared by the
        # helper's error returns, and what decided each is on the path - every feasible path to the site is read on its own
        trails, trunc = PA.enumerate_paths(b, 0, 3000, stop={blk})
        trails = [tr for tr in trails if tr[-1] == blk]
        pcs = [[Q._norm_cmp(c) for c in PA.path_conds(P, b, S, tr)] for tr in trails] if trails and not trunc and len(trails) <= 200 else []
        if is_ok:
            common = conds
            if pcs:
                strip_blk = lambda c: c[:-1]
                keys = set(map(strip_blk, pcs[0]))
                for pc in pcs[1:]:
                    keys &= set(map(strip_blk, pc))
                common = list(conds) + [c for c in pcs[0] if strip_blk(c) in keys and c not in conds]
            ok_site = (blk, common)
        if not is_err:
            continue
        for pc in (pcs or [conds]):
            if pc:
                per_site.append(pc)
    for conds in per_site:
        # the deciding test: the last comparison on the way (a `?` on an already built Err value decides nothing)
        decisive = [c for c in conds if not (c[0] == "variant" and T.strip(c[1])[0] == "agg")]
        if not decisive:
            continue
        last = decisive[-1]
        if last[0] == "cmp":
            names = {**_consts_named(last[2]), **_consts_named(last[3])}
            rel = last[1] if last[4] else {"Lt": "Ge", "Gt": "Le", "Le": "Gt", "Ge": "Lt"}.get(last[1], last[1])
            lhs_is_const = bool(_consts_named(last[2]))
            if lhs_is_const:
                rel = {"Lt": "Gt", "Gt": "Lt", "Le": "Ge", "Ge": "Le"}.get(rel, rel)
            ms = any(x[0] == "call" and "saturating_sub" in x[1] for x in T.walk(last[3] if lhs_is_const else last[2]))
            if "MIN_TWAIT" in names and rel == "Lt" and ms:
                guards["too-short"] = True
            if "MAX_TWAIT" in names and rel == "Gt" and ms:
                guards["too-long"] = True
        if last[0] == "bool" and last[1][0] == "call" and last[1][1].endswith("::contains") and last[2] is False:
            # the rate is judged as computed: 0.6 Hz rounds to 1 and 1500.4 Hz to 1500, neither is a rate in 1..=1500
            if len(last[1][2]) == 2 and any(x[0] == "call" and x[1].rsplit("::", 1)[-1] in ("round", "floor", "ceil", "trunc", "round_ties_even")
                                             for x in T.walk(last[1][2][1])):
                guards["range"] = False
                continue
            rc = T.strip(last[1][2][0])
            if rc[0] == "const" and isinstance(rc[1], (bytes, bytearray)) and len(rc[1]) >= 16 and "RangeInclusive<f64>" in (rc[3] or ""):
                import struct
                lo, hi = struct.unpack("<dd", bytes(rc[1][:16]))
                guards["range"] = (lo == 1.0 and hi == 1500.0)
                continue
            names = _consts_named(last[1])
            if "MIN_FINAL_HZ" in names and "MAX_FINAL_HZ" in names:
                rng = T.strip(last[1][2][0])
                lo_first = False
                if rng[0] == "call" and "RangeInclusive" in rng[1] and len(rng[2]) == 2:
                    lo_first = "MIN_FINAL_HZ" in _consts_named(rng[2][0]) and "MAX_FINAL_HZ" in _consts_named(rng[2][1])
                guards["range"] = lo_first
    for k, v in guards.items():
        ctx.check(v, "R3", "guard:" + k, {"too-short": "Err when ms_diff < MIN_TWAIT", "too-long": "Err when ms_diff > MAX_TWAIT",
                                           "range": "Err when raw_freq outside MIN_FINAL_HZ..=MAX_FINAL_HZ"}[k],
                  "guard `%s` missing or mis-oriented in calculate_frequency_p0f_style" % k, ctx.loc(b))
    if ok_site:
        blk, conds = ok_site
        need = 0
        for c in conds:
            if c[0] == "cmp":
                names = {**_consts_named(c[2]), **_consts_named(c[3])}
                if "MIN_TWAIT" in names or "MAX_TWAIT" in names:
                    need += 1
            if c[0] == "bool" and c[1][0] == "call" and c[1][1].endswith("::contains") and c[2] is True:
                need += 1
        ctx.check(need >= 3, "R3", "ok-dominated", "Ok(freq) is dominated by all three guards",
                  "Ok(freq) can be reached without passing all interval/frequency guards (%d of 3)" % need, ctx.loc(b, blk))
    else:
        ctx.cannot("R3", "ok-dominated", "no Ok return", ctx.loc(b))


# ---------------------------------------------------------------------------
SYN, ACK = 0x02, 0x10


def _flag_table(ctx, P, name, spec):
    b = P.body("huginn_net_tcp::tcp_process::" + name)
    rows = D.decision_rows(P, b)

    def key_of_cmp(c):
        # (flags & MASK) ==/!= 0|MASK
        op, a, bb, pol = c[1], c[2], c[3], c[4]
        for x, y in ((a, bb), (bb, a)):
            x = T.strip(x)
            y = T.strip(y)
            if x[0] == "binop" and x[1] == "BitAnd" and y[0] == "const":
                m = T.strip(x[3])
                if m[0] == "const" and isinstance(m[1], int):
                    mask = m[1]
                    if y[1] == 0:
                        set_ = (op == "Ne") == pol
                    elif y[1] == mask:
                        set_ = (op == "Eq") == pol
                    else:
                        return "unknown"
                    if op not in ("Eq", "Ne"):
                        return "unknown"
                    return (("bit", mask), set_)
        return "unknown"

    def cond_key(c):
        if c[0] == "cmp":
            return key_of_cmp(c)
        if c[0] == "bool" and c[1][0] == "const":
            return None if c[1][1] == c[2] else "infeasible"
        return "unknown"

    def term_key(t):
        return None

    def ev(r_term, assign):
        return None

    # returns may be comparisons themselves: convert `_0 = Eq(BitAnd(..), 0)` rows by evaluating
    def spec2(a):
        return spec(a.get(("bit", SYN), False), a.get(("bit", ACK), False))

    # wrap rows so that comparison-valued returns become conditions
    rows2 = []
    for r in rows or []:
        rt = T.strip(r.ret)
        neg = False
        while rt[0] == "unop" and rt[1] == "Not":
            rt, neg = T.strip(rt[2]), not neg
        if rt[0] == "binop" and rt[1] in ("Eq", "Ne"):
            for pol in (True, False):
                k = key_of_cmp(("cmp", rt[1], rt[2], rt[3], pol))
                if k == "unknown":
                    rows2 = None
                    break
                rr = D.Row(r.conds + [("cmp", rt[1], rt[2], rt[3], pol, None)], ("const", pol != neg, None, "bool"), r.trail)
                rows2.append(rr)
            if rows2 is None:
                break
        else:
            rows2.append(r)
    if rows2 is None:
        ctx.cannot("R4", name, "return expression not understood", ctx.loc(b))
        return
    problems, stats = D.truth_check(rows2, cond_key, term_key, spec2)
    atoms = set(stats.get("atoms", []))
    if problems:
        ctx.fail("R4", name, "role predicate differs from the documented rule: %s" % (problems[0][2],), ctx.loc(b))
    elif atoms != {("bit", SYN), ("bit", ACK)}:
        ctx.fail("R4", name + ":atoms", "predicate tests bits %s, expected SYN(0x02) and ACK(0x10)" % sorted(atoms), ctx.loc(b))
    else:
        ctx.ok("R4", name, "4 valuations of (SYN, ACK) agree", ctx.loc(b))


def rule_R4(ctx):
    P = ctx.program
    _flag_table(ctx, P, "from_client", lambda syn, ack: syn and not ack)
    _flag_table(ctx, P, "from_server", lambda syn, ack: syn and ack)
    # the role rule is read with the two flag predicates written out at their calls, in terms of the SYN and ACK bits themselves (the
    # same table whether the predicates are called or their tests stand in is_packet_from_client)
    b = P.inlined_view("huginn_net_tcp::tcp_process::is_packet_from_client", ("tcp_process::from_client", "tcp_process::from_server"))
    rows = D.decision_rows(P, b)
    SYN, ACK = 0x02, 0x10

    def _bit_key(c):
        op, a, bb, pol = c[1], c[2], c[3], c[4]
        for x, y in ((a, bb), (bb, a)):
            x, y = T.strip(x), T.strip(y)
            if x[0] == "binop" and x[1] == "BitAnd" and y[0] == "const" and op in ("Eq", "Ne"):
                m = T.strip(x[3])
                if m[0] == "const" and isinstance(m[1], int) and m[1] in (SYN, ACK):
                    if y[1] == 0:
                        return (("bit", m[1]), (op == "Ne") == pol)
                    if y[1] == m[1]:
                        return (("bit", m[1]), (op == "Eq") == pol)
        return None

    def cond_key(c):
        if c[0] == "bool":
            t = c[1]
            if t[0] == "const":
                return None if t[1] == c[2] else "infeasible"
            neg = False
            while t[0] == "unop" and t[1] == "Not":
                t, neg = t[2], not neg
            if t[0] == "binop" and t[1] in ("Eq", "Ne"):
                k = _bit_key(("cmp", t[1], t[2], t[3], c[2] != neg))
                if k is not None:
                    return k
        if c[0] == "cmp":
            k = _bit_key(c)
            if k is not None:
                return k
            return _port_key(c)
        return "unknown"

    def _port_key(c):
        op, a, bb, pol = c[1], T.strip(c[2]), T.strip(c[3]), c[4]
        if a[0] == "param" and bb[0] == "const" and bb[1] == 1024:
            rel = op if pol else {"Gt": "Le", "Le": "Gt", "Lt": "Ge", "Ge": "Lt"}.get(op, op)
            if rel in ("Gt", "Le"):
                return (("high", a[2]), rel == "Gt")
        return "unknown"

    rows2 = []
    for r in rows or []:
        rt = T.strip(r.ret)
        if rt[0] == "binop" and rt[1] in ("Gt", "Le", "Lt", "Ge"):
            for pol in (True, False):
                rows2.append(D.Row(r.conds + [("cmp", rt[1], rt[2], rt[3], pol, None)], ("const", pol, None, "bool"), r.trail))
        else:
            rows2.append(r)

    def spec(a):
        syn, ack = a.get(("bit", SYN), False), a.get(("bit", ACK), False)
        if syn and not ack:
            return True          # SYN: from the client
        if syn and ack:
            return False         # SYN+ACK: from the server
        return a.get(("high", "src_port"), False) and not a.get(("high", "dst_port"), True)

    problems, stats = D.truth_check(rows2, cond_key, lambda t: None, spec)
    atoms = set(stats.get("atoms", []))
    if problems:
        ctx.fail("R4", "is_packet_from_client", "role rule differs: %s under %s" % (problems[0][2], problems[0][1]), ctx.loc(b))
    elif atoms != {("bit", SYN), ("bit", ACK), ("high", "src_port"), ("high", "dst_port")}:
        ctx.fail("R4", "is_packet_from_client:atoms", "atoms %s" % sorted(map(str, atoms)), ctx.loc(b))
    else:
        ctx.ok("R4", "is_packet_from_client", "%d valuations agree: handshake flags first, else src>1024 && dst<=1024" % stats["valuations"], ctx.loc(b))
    # check_ts_tcp results: client slot only on the client branch
    c = P.body(UPT + "check_ts_tcp")
    S = T.Slicer(c, P)
    n = 0
    seen_sites = set()
    for (blk, j, term, _x, _sp) in TB.return_alternatives(c, P):
        if not (term[0] == "agg" and term[1] == "tuple"):
            continue
        side = _side_of(P, c, S, blk)
        cli, srv = T.strip(term[4][0]), T.strip(term[4][1])
        some_cli = cli[0] == "agg" and cli[3] == "Some"
        some_srv = srv[0] == "agg" and srv[3] == "Some"
        # (an estimate carried in a local and returned after the match - `let up = match f {Ok(u) => Some(u), Err(_) => None};
        # return (up, None)` - is one site with two alternatives)
        if (blk, some_cli, some_srv) in seen_sites:
            continue
        seen_sites.add((blk, some_cli, some_srv))
        if some_cli or some_srv:
            n += 1
            ctx.check((some_cli and side == "client" and not some_srv) or (some_srv and side == "server" and not some_cli), "R4",
                      "check_ts_tcp:result@%s" % side, "estimate placed in the %s slot on the %s branch" % ("client" if some_cli else "server", side),
                      "an estimate computed on the %s branch is returned in the %s slot" % (side, "client" if some_cli else "server"), ctx.loc(c, blk))
    ctx.floor("R4", "estimate-returning sites of check_ts_tcp", n, 2)
    # visit_tcp wiring
    v = P.body("huginn_net_tcp::tcp_process::visit_tcp")
    SV = T.Slicer(v, P)
    cs = Q.calls(v, "check_ts_tcp")
    if len(cs) != 1:
        ctx.cannot("R4", "visit_tcp:wiring", "expected one check_ts_tcp call", ctx.loc(v))
    else:
        blk, t = cs[0]
        a = Q.call_args(v, SV, blk, t)
        role = T.strip(a[2])
        okr = role[0] == "call" and role[1].endswith("is_packet_from_client")
        if okr:
            ra = role[2]
            okr = T.has_call(ra[0], "get_flags") and T.has_call(ra[1], "get_source") and T.has_call(ra[2], "get_destination")
        conn = T.strip(a[1])
        okc = False
        if conn[0] == "agg" and (conn[2] or "").endswith("uptime::Connection"):
            names = [f["name"] for f in P.adt("huginn_net_tcp::uptime::Connection")["variants"][0]["fields"]]
            m = dict(zip(names, conn[4]))
            okc = (T.strip(m["src_ip"])[0] == "param" and T.strip(m["src_ip"])[2] == "source_ip" and T.strip(m["dst_ip"])[2] == "destination_ip"
                   and T.has_call(m["src_port"], "get_source") and T.has_call(m["dst_port"], "get_destination"))
        ctx.check(okr and okc, "R4", "visit_tcp:wiring", "check_ts_tcp(tracker, Connection{src,dst of this segment}, is_packet_from_client(flags, sport, dport), tsval)",
                  "uptime tracking is not keyed/labelled by this segment's endpoints and role (role ok=%s, connection ok=%s)" % (okr, okc), ctx.loc(v, blk))
        # ts_val = first four option bytes big endian
        tsv = a[3]
        ctx.check(T.has_call(tsv, "from_be_bytes"), "R4", "visit_tcp:tsval", "TSval decoded big-endian", "TSval not decoded with from_be_bytes", ctx.loc(v, blk))
    # labels in the result builders
    n = 0
    for bname in ("create_observable_package_ipv4", "create_observable_package_ipv6"):
        pb = P.body("huginn_net_tcp::process::" + bname)
        SP = T.Slicer(pb, P)
        for (i, j, s) in Q.aggregates(pb, "UptimeOutput"):
            f = dict(zip(s["r"]["fields"], s["r"]["ops"]))
            role = SP.operand(f["role"], i, j)
            conds = Q.canon_conds(P, T.dom_conds(pb, SP, i))
            src = [x[2] for c in conds if c[0] == "variant" for x in T.walk(c[1]) if x[0] == "field" and x[2] in ("client_uptime", "server_uptime")]
            rv = role[3] if role[0] == "agg" else None
            n += 1
            good = (rv == "Client" and src == ["client_uptime"]) or (rv == "Server" and src == ["server_uptime"])
            ctx.check(good, "R4", "%s:role:%s" % (bname, rv), "%s estimate labelled %s" % (src, rv),
                      "estimate taken from %s is labelled %s" % (src, rv), ctx.loc(pb, i))
    ctx.floor("R4", "UptimeOutput constructions in tcp process.rs", n, 4)


def rule_R5(ctx):
    P = ctx.program
    sites = []
    for b in P.bodies.values():
        if b.crate != "huginn_net_tcp":
            continue
        for blk, t in b.calls():
            n = callee_of(t)
            if n.endswith("SystemTime::now") or n.endswith("Instant::now"):
                sites.append((b, blk))
    bad = [(b, blk) for b, blk in sites if not b.path.endswith("uptime::get_unix_time_ms")]
    ctx.check(len(sites) >= 1 and not bad, "R5", "clock", "%d clock read(s), all in get_unix_time_ms" % len(sites),
              "clock is read outside get_unix_time_ms: %s" % [T.short(b.path) for b, _ in bad], ctx.loc(bad[0][0], bad[0][1]) if bad else None)
    nb = P.method1("TcpTimestamp", "now")
    ctx.check(any(callee_of(t).endswith("get_unix_time_ms") for _, t in nb.calls()), "R5", "TcpTimestamp::now", "arrival time from get_unix_time_ms",
              "TcpTimestamp::now does not use get_unix_time_ms", ctx.loc(nb))


def _fnum(t):
    """numeric value of a (float or integer) constant expression, None otherwise"""
    import struct as _st
    t = T.strip(t)
    if t[0] == "const":
        v = t[1]
        if isinstance(v, tuple) and v and v[0] == "f":
            return _st.unpack("<d", _st.pack("<Q", v[1]))[0] if v[2] == 8 else _st.unpack("<f", _st.pack("<I", v[1]))[0]
        if isinstance(v, int) and not isinstance(v, bool):
            return float(v)
        return None
    if t[0] == "cast":
        return _fnum(t[2])
    if t[0] == "binop" and t[1] in ("Mul", "Div", "Add", "Sub"):
        a, c = _fnum(t[2]), _fnum(t[3])
        if a is None or c is None:
            return None
        return {"Mul": a * c, "Div": a / c if c else None, "Add": a + c, "Sub": a - c}[t[1]]
    return None


def _unf(t):
    """normal form of the uptime arithmetic: names, folded constants, div / rem / mul structure"""
    t = T.strip(t)
    k = _fnum(t)
    if k is not None:
        return ("%g" % k)
    if t[0] == "cast":
        return _unf(t[2])
    if t[0] == "param":
        return t[2]
    if t[0] == "binop" and t[1] in ("Div", "Rem", "Mul", "Add", "Sub"):
        a, c = _unf(t[2]), _unf(t[3])
        if t[1] in ("Mul", "Add"):
            a, c = sorted((a, c))
        return "%s(%s,%s)" % (t[1].lower(), a, c)
    if t[0] == "call":
        return "%s(%s)" % (t[1].rsplit("::", 1)[-1], ",".join(_unf(a) for a in t[2]))
    return "?" + T.pp(t)[:30]


def rule_R6(ctx):
    """R6: an uptime is split into days / hours / minutes of one and the same duration: days = floor(t/86400), hours = floor((t mod 86400)/3600),
    minutes = floor((t mod 3600)/60) with t = tsval / frequency, wrap period = 2^32-1 ticks in days"""
    P = ctx.program
    b = P.body("huginn_net_tcp::uptime::calculate_uptime_from_frequency")
    S = T.Slicer(b, P)
    ag = Q.aggregates(b, "ObservableUptime")
    if len(ag) != 1:
        ctx.cannot("R6", "uptime:decomposition", "expected one ObservableUptime construction", ctx.loc(b))
        return
    i, j, s = ag[0]
    t = S.rvalue(s["r"], i, j)
    got = {n: _unf(o) for n, o in zip(s["r"]["fields"], t[4])}
    secs = "div(ts_val,freq_hz)"
    want = {"days": "div(%s,86400)" % secs, "hours": "div(rem(%s,86400),3600)" % secs, "min": "div(rem(%s,3600),60)" % secs,
            "freq": "freq_hz"}
    for f, w in want.items():
        alts = {w}
        if f == "min":
            alts.add("div(rem(rem(%s,86400),3600),60)" % secs)
        ctx.check(got.get(f) in alts, "R6", "uptime:" + f, "%s = %s" % (f, w),
                  "the %s component is computed as %s, expected %s: the reported days / hours / minutes are not a decomposition of one duration (e.g. hours >= 24)" % (f, got.get(f), w),
                  ctx.loc(b, i))
    wrap = got.get("up_mod_days") or ""
    ctx.check(wrap.startswith("div(4.29497e+09,") and "freq_hz" in wrap and _secs_per_day(t[4][s["r"]["fields"].index("up_mod_days")]), "R6", "uptime:wrap-period",
              "wrap period = u32::MAX / (freq * 86400) days", "the wrap period is computed as %s" % wrap, ctx.loc(b, i))


def _secs_per_day(t):
    """the divisor multiplies the frequency by 86400 in total"""
    t = T.strip(t)
    while t[0] == "cast":
        t = T.strip(t[2])
    if not (t[0] == "binop" and t[1] == "Div"):
        return False
    prod = 1.0
    stack = [T.strip(t[3])]
    seen_freq = False
    while stack:
        x = stack.pop()
        if x[0] == "binop" and x[1] == "Mul":
            stack += [T.strip(x[2]), T.strip(x[3])]
        elif x[0] == "param":
            seen_freq = seen_freq or x[2] == "freq_hz"
        else:
            k = _fnum(x)
            if k is None:
                return False
            prod *= k
    return seen_freq and abs(prod - 86400.0) < 1e-6


def _ieval(t, env):
    """evaluate an integer term of the rounding function for one input (u32 semantics); None if not understood"""
    t = T.strip(t)
    k = T.fold_int(t)
    if k is not None:
        return k
    while t[0] == "cast":
        t = T.strip(t[2])
    if t[0] == "param" or t[0] == "loopvar":
        return env.get(t[2])
    if t[0] == "call" and len(t[2]) == 2:
        a, c = _ieval(t[2][0], env), _ieval(t[2][1], env)
        if a is None or c is None:
            return None
        last = t[1].rsplit("::", 1)[-1]
        M = 0xFFFFFFFF
        if last == "saturating_add":
            return min(a + c, M)
        if last == "saturating_sub":
            return max(a - c, 0)
        if last == "saturating_mul":
            return min(a * c, M)
        if last in ("saturating_div", "wrapping_div"):
            return a // c if c else None
        if last == "wrapping_add":
            return (a + c) & M
        return None
    if t[0] == "binop":
        a, c = _ieval(t[2], env), _ieval(t[3], env)
        if a is None or c is None:
            return None
        op = t[1].replace("WithOverflow", "")
        return {"Add": a + c, "Sub": a - c, "Mul": a * c, "Div": a // c if c else None, "Rem": a % c if c else None}.get(op)
    if t[0] == "field" and T.strip(t[1])[0] == "binop":
        return _ieval(t[1], env)
    return None


def rule_R8(ctx):
    """R8: the frequency grid: round_frequency_p0f_style maps every integer rate 0..=2000 to the value of the documented grid.  The
    arms of its match are extracted as an interval table and each arm's expression is evaluated for every rate of its band (a finite
    domain, covered exhaustively - no execution of the program)"""
    P = ctx.program
    spec = _spec_tables()["frequency_grid"]["bands"]
    b = P.body("huginn_net_tcp::uptime::round_frequency_p0f_style")
    # the integer rate: the u32 local holding `freq as u32` (whatever it is called)
    var = []
    for i_, j_, s_ in b.iter_stmts():
        if s_["k"] == "assign" and not s_["p"]["pr"] and s_["r"]["k"] == "cast" and s_["r"].get("ty") == "u32":
            o_ = s_["r"]["o"].get("c") or s_["r"]["o"].get("m")
            if o_ is not None and TB._root_local(b, o_["l"]) == 1:
                var.append(s_["p"]["l"])
    named = [i for i, l in enumerate(b.locals) if l.get("name") and b.locals[i]["ty"] == "u32" and i > b.arg_count and TB._root_local(b, i) in var]
    var = named or var
    start = None
    for blk in sorted(b.reachable):
        if b.blocks[blk]["t"]["k"] == "switch":
            start = blk
            break
    if not var or start is None:
        ctx.cannot("R8", "frequency-grid", "match on the integer rate not found", ctx.loc(b))
        return
    rows, imp = TB.interval_table(b, var[0], start, TB.U32, P)
    if imp:
        ctx.cannot("R8", "frequency-grid", "interval table not exact: %s" % imp[:2], ctx.loc(b))
        return

    def want(f):
        for lo, hi, add, div, mul, kind in spec:
            if lo <= f <= hi:
                return 1 if kind == "const1" else f if kind == "id" else (f + add) // div * mul
        return None
    bad = []
    undecided = 0
    for f in range(0, 2001):
        term = None
        for (ivs, res, blk) in rows:
            if any(lo <= f <= hi for (lo, hi) in ivs):
                term = res
        got = _ieval(term, {"freq": f}) if term is not None else None
        if got is None:
            undecided += 1
        elif got != want(f):
            bad.append((f, got, want(f)))
    ctx.check(not bad and not undecided, "R8", "frequency-grid", "all 2001 integer rates 0..=2000 map to the documented grid value",
              "the rounding grid differs from the documented one for %d rates (first: %s as (rate, code, grid))%s: a steady clock at such a rate is reported at another frequency and its "
              "uptime / wrap period are scaled accordingly" % (len(bad), bad[:4], "; %d rates could not be evaluated" % undecided if undecided else ""), ctx.loc(b))


def _spec_tables():
    import json
    import os
    from ..engine.facts import VERIF
    with open(os.path.join(VERIF, "tables", "spec_tables.json")) as fh:
        return json.load(fh)


def rule_snap_priority(ctx):
    """R7: the documented rates are tried from the coarsest grid down: every multiple of 1000 Hz is also a multiple of 100 Hz, so the
    100 Hz attempt is made only after the 1000 Hz attempt found nothing - in every copy of the snapping sequence (client and server
    branch alike)"""
    import struct
    P = ctx.program

    def fval(t):
        t = T.strip(t)
        if t[0] == "const" and isinstance(t[1], tuple) and t[1] and t[1][0] == "f":
            return struct.unpack("<f", struct.pack("<I", t[1][1]))[0] if t[1][2] == 4 else struct.unpack("<d", struct.pack("<Q", t[1][1]))[0]
        return None
    n = 0
    for b in sorted(P.bodies.values(), key=lambda x: x.path):
        if b.crate != "huginn_net_tcp" or "::uptime::" not in b.path:
            continue
        S = None
        for blk, t in b.calls():
            if not callee_of(t).endswith("uptime::guess_frequency"):
                continue
            S = S or T.Slicer(b, P)
            a = Q.call_args(b, S, blk, t)
            base = fval(a[1]) if len(a) > 1 else None
            for c in Q.canon_conds(P, T.dom_conds(b, S, blk)):
                if c[0] == "variant" and ((c[2] == "None" and c[3]) or (c[2] == "Some" and not c[3])):
                    g = T.strip(c[1])
                    if g[0] == "call" and g[1].endswith("uptime::guess_frequency") and len(g[2]) > 1:
                        first = fval(g[2][1])
                        n += 1
                        ok = base is not None and first is not None and first > base and first % base == 0
                        ctx.check(ok, "R7", "snap-priority:%s@%d" % (T.short(b.path).split("::")[-1], n), "%s Hz is tried only after %s Hz found nothing" % (base, first),
                                  "in %s the %s Hz grid is tried after the %s Hz grid failed: every rate the coarser grid would accept is already taken by the finer one "
                                  "(a 1000 Hz clock is reported as 100 Hz and the uptime comes out ten times too large)" % (T.short(b.path), base, first), ctx.loc(b, blk))
    ctx.floor("R7", "fallback snapping attempts", n, 2)


def rule_R7(ctx):
    """R7: snapping a measured rate to the documented grid uses the NEAREST multiple of the base rate (round), and accepts it iff the
    per-multiple rate is within the tolerance of the base"""
    P = ctx.program
    b = P.body("huginn_net_tcp::uptime::guess_frequency")
    S = T.Slicer(b, P)
    mult = [l for l in range(len(b.locals)) if b.local_name(l) == "multiplier"]
    got = None
    for l in mult:
        for (db_, dj_, full) in S.defs().get(l, []):
            got = _unf(S.def_term(l, db_, dj_, 0))
    ctx.check(got == "round(div(raw_freq,base_guess))", "R7", "guess_frequency:nearest-multiple", "multiplier = round(raw / base)",
              "the multiple of the base rate is computed as %s instead of round(raw / base): a steady clock slightly below a grid value (950 Hz, 92 Hz) is snapped to the "
              "next lower decade and its uptime is off by that factor" % got, ctx.loc(b))
    oks = []
    for (rb, j, term, pconds, split) in TB.return_alternatives(b, P):
        tt = T.strip(term)
        if tt[0] == "agg" and tt[3] == "Some":
            # `cond.then_some(base)` yields Some under cond: the split entry carries that condition
            conds = Q.canon_conds(P, T.dom_conds(b, S, rb)) + (list(pconds) if split else [])
            tol = [c for c in conds if c[0] == "cmp" and c[1] in ("Le", "Lt", "Gt", "Ge") and "abs(" in _unf(c[2]) + _unf(c[3])]
            inner = _unf(tt[4][0])
            oks.append((inner, [(c[1], _unf(c[2]), _unf(c[3]), c[4]) for c in tol]))
    okt = len(oks) == 1 and oks[0][0] == "base_guess" and oks[0][1] == [("Le", "abs(sub(div(raw_freq,%s),base_guess))" % "round(div(raw_freq,base_guess))", "mul(base_guess,tolerance)", True)]
    ctx.check(okt or (len(oks) == 1 and oks[0][0] == "base_guess" and len(oks[0][1]) == 1 and "tolerance" in oks[0][1][0][2] + oks[0][1][0][1]), "R7", "guess_frequency:tolerance",
              "Some(base) iff |raw/multiplier - base| <= base * tolerance", "acceptance test of the grid snap is %s" % oks, ctx.loc(b))


def rule_later_timestamp(ctx):
    """R6: the reported uptime is the LATER timestamp divided by the frequency: every call of calculate_uptime_from_frequency in
    check_ts_tcp receives the current segment's TSval (the ts_val parameter), never the stored reference sample"""
    P = ctx.program
    b = P.body("huginn_net_tcp::uptime::check_ts_tcp")
    S = T.Slicer(b, P)
    n = 0
    for blk, t in Q.calls(b, "calculate_uptime_from_frequency"):
        a = Q.call_args(b, S, blk, t)
        n += 1
        first = T.strip(a[0])
        ok = first[0] == "param" and first[2] == "ts_val"
        stored = any(x[0] == "field" and x[2] in ("ts_val", "ms") and T.strip(x[1])[0] != "param" for x in T.walk(a[0])) or T.has_call(a[0], "::get")
        ctx.check(ok and not stored, "R6", "uptime:from-later-timestamp@%d" % n, "uptime computed from the current TSval",
                  "calculate_uptime_from_frequency receives %s instead of the current segment's TSval: the uptime is that of the earlier sample, wrong whenever the two "
                  "samples straddle a minute / hour / day boundary" % T.pp(a[0])[:60], ctx.loc(b, blk))
    ctx.floor("R6", "uptime computations in check_ts_tcp", n, 2)


def rule_twins(ctx):
    """the IPv4 and IPv6 copies of the per-packet functions route sides, roles and lookups identically (shared rule TW)"""
    from . import _twins as TW
    TW.twin_agreement(ctx, ctx.program, "TW", ("huginn_net_tcp",), floor=4)


def rule_tracker_lifetime(ctx):
    """R2: reference timestamps and bad-frequency markers live the documented 30 s, every one of them (shared rule _ttl)"""
    from . import _ttl
    _ttl.cache_ttls(ctx, ctx.program, "R2", ("huginn_net_tcp",), 4)


def run(ctx):
    rule_tracker_lifetime(ctx)
    rule_later_timestamp(ctx)
    rule_twins(ctx)
    rule_R8(ctx)
    rule_R7(ctx)
    rule_snap_priority(ctx)
    rule_R6(ctx)
    rule_R1_R2(ctx)
    rule_R3(ctx)
    rule_R4(ctx)
    rule_R5(ctx)
