"""C04 - JA4 fingerprints equal the FoxIO specification for every ClientHello.

Structural clauses decided:
 R1 GREASE table (16 values 0x0a0a + k*0x1010); is_grease_value is plain membership in it; every GREASE filter tests
    membership with the right polarity
 R2 version token table of TlsVersion Display; legacy-version code table
 R3 an unknown legacy version is reported as Unknown (token `00`)
 R4 with supported_versions present the version is derived from that extension's contents; that branch does not look at the
    legacy version, and the legacy version is consulted only when the extension is absent
 R5 sorting and SNI/ALPN removal only in the sorted variant; signature algorithms never sorted; counts saturate at 99
 R6 an empty cipher / extension list hashes to `000000000000`; the emptiness test looks at the very string that is hashed
 R7 hash12 = first 12 lowercase hex characters of SHA-256; JA4_a field order, SNI flag polarity, `_` separators
 R8 SNI and ALPN are taken from the first entry of their lists
 R9 no narrowing conversion on the way into the fingerprint (counts of 256+ would wrap before the clamp); narrowing conversions of the
    TLS crate are proven or reviewed to fit
"""
import struct

from ..engine import grammar as G
from ..engine import paths as PA
from ..engine import q as Q
from ..engine import tables as TB
from ..engine import terms as T
from ..engine.facts import AnchorMissing, callee_of

EXPLANATION = ("Evaluated constant table TLS_GREASE_VALUES; Display table of TlsVersion via decoded fmt templates; switch table of "
               "determine_tls_version; dominating conditions of every sort/retain/hash12/push site in generate_ja4_with_order and "
               "extract_tls_signature_from_client_hello; decoded format templates of the JA4 assembly with origins of every hole.")
TRUSTED = ["tls-parser decoding of the ClientHello", "sha2::Sha256", "core::fmt `{:x}`/`{:02}`/`{:04x}` formatting"]
DECLINED = ["equality of the complete strings with the specification for every ClientHello", "ALPN first/last character edge cases",
            "string concatenation details beyond the separator skeleton"]
ASSUMPTIONS = ["JA4 specification (FoxIO): GREASE ignored everywhere; version from supported_versions (highest non-GREASE) else legacy; unknown -> 00; "
               "empty list -> 000000000000"]
EXHAUSTIVE = True

TLS = "huginn_net_tls::tls::"
TPR = "huginn_net_tls::tls_process::"


def _closure_captures_param(b, S, call_term):
    """the closure handed to any() captures (a reference to) the function's first parameter"""
    for x in call_term[2][1:]:
        x = T.strip(x)
        if x[0] == "agg" and x[1] == "closure":
            return any(y[0] == "param" and y[1] == 0 for o in x[4] for y in T.walk(o))
    return False


def _any_is_equality(P, args):
    """`iter().any(|g| *g == v)`: the closure compares its item for equality and does nothing else"""
    for x in args[1:]:
        x = T.strip(x)
        if x[0] == "agg" and x[1] == "closure" and x[2] in P.bodies:
            cb = P.bodies[x[2]]
            eqs = [s for _, _, s in cb.iter_stmts() if s["k"] == "assign" and s["r"]["k"] == "binop" and s["r"]["op"] == "Eq"]
            eqs += [t for _, t in cb.calls() if callee_of(t).endswith(("PartialEq>::eq", "::eq"))]
            others = [s for _, _, s in cb.iter_stmts() if s["k"] == "assign" and s["r"]["k"] == "binop" and s["r"]["op"] not in ("Eq",)]
            return len(eqs) == 1 and not others
    return False


def rule_R1(ctx):
    P = ctx.program
    c = P.const(TLS + "TLS_GREASE_VALUES")
    raw = (c["val"] or {}).get("raw")
    vals = list(struct.unpack("<%dH" % (len(raw) // 2), bytes(raw))) if raw else []
    want = [0x0a0a + k * 0x1010 for k in range(16)]
    ctx.check(sorted(vals) == want, "R1", "TLS_GREASE_VALUES", "16 GREASE values 0x0a0a..0xfafa",
              "GREASE table is %s, RFC 8701 defines %s" % ([hex(v) for v in vals], [hex(v) for v in want]))
    # filters
    n = 0
    direct = {}      # body path -> polarity of a direct table membership test written in it
    for b in P.bodies.values():
        if b.crate != "huginn_net_tls":
            continue
        S = None
        for blk, t in b.calls():
            if not callee_of(t).endswith(("::contains", "::any")):
                continue
            if S is None:
                S = T.Slicer(b, P)
            a = Q.call_args(b, S, blk, t)
            if callee_of(t).endswith("::any") and not _any_is_equality(P, a):
                continue
            def _is_table(x):
                if x[0] != "const":
                    return False
                if (x[2] or "").endswith("TLS_GREASE_VALUES"):
                    return True
                v = x[1]
                if isinstance(v, tuple) and v and v[0] == "raw":
                    v = v[1]
                return isinstance(v, (bytes, bytearray)) and raw is not None and bytes(v) == bytes(raw)
            if not any(_is_table(x) for x in T.walk(a[0])):
                continue
            n += 1
            owner = T.short(b.path)
            # how is the result used?  (a) negated and returned from a filter closure / fn, (b) guards a push on the False edge
            polarity = None
            tgt = t["target"]
            dest = t["dest"]["l"]
            for i, j, s in b.iter_stmts():
                if s["k"] == "assign" and s["r"]["k"] == "unop" and s["r"]["op"] == "Not":
                    o = s["r"]["o"]
                    p = o.get("m") or o.get("c")
                    if p and p["l"] == dest and s["p"]["l"] == 0:
                        polarity = "keep-when-not-grease"
            if dest == 0:
                polarity = "is-grease"
            if polarity is None:
                be = T.branch_edges(b, S, tgt) if tgt is not None else None
                if be:
                    atom, labels = be
                    for succ, lab in labels.items():
                        if lab is False:
                            reg = Q.dominated_region(b, succ)
                            if any(pb in reg for pb, pt in Q.calls(b, "Vec::<T, A>::push")):
                                polarity = "keep-when-not-grease"
                        if lab is True:
                            reg = Q.dominated_region(b, succ)
                            if any(pb in reg for pb, pt in Q.calls(b, "Vec::<T, A>::push")):
                                polarity = "keeps-grease"
            if polarity is None:
                # the test may reach the branch through a local or an inlined helper: judge every push by the conditions that hold there
                pols = set()
                for pb, pt in Q.calls(b, "Vec::<T, A>::push"):
                    for c in Q.canon_conds(P, T.dom_conds(b, S, pb)):
                        if c[0] == "bool" and T.strip(c[1])[0] == "call" and len(T.strip(c[1])) > 3 and T.strip(c[1])[3] == blk:
                            pols.add("keep-when-not-grease" if c[2] is False else "keeps-grease")
                if len(pols) == 1:
                    polarity = pols.pop()
            direct[b.path] = polarity
            ctx.check(polarity in ("keep-when-not-grease", "is-grease"), "R1", "filter:%s" % owner, "membership in TLS_GREASE_VALUES, %s" % polarity,
                      "GREASE filter in %s has the wrong polarity (%s): GREASE values are kept / real values dropped" % (owner, polarity), ctx.loc(b, blk))
    ctx.floor("R1", "GREASE membership tests", n, 3)
    # is_grease_value(v) is exactly membership of v in the table (no mask / range shortcut)
    ig = P.bodies.get(TLS + "is_grease_value")
    fg = P.body(TLS + "filter_grease_values")
    if ig is None:
        # the one-line helper was folded into its only caller: the membership test is then judged where it is written (loop above)
        from ..engine import lists as L
        pol = [direct.get(x.path) for x in L.with_closures(P, fg) if x.path in direct]
        ctx.check(pol == ["keep-when-not-grease"], "R1", "filter_grease_values", "keeps exactly the values that are not in TLS_GREASE_VALUES",
                  "filter_grease_values does not keep exactly the non-GREASE values (membership tests found: %s)" % pol, ctx.loc(fg))
        rs = []
    else:
        SI = T.Slicer(ig, P)
        rs = TB.return_sites(ig, P)
    okm = True
    why = ""
    for (blk, j, term, _) in rs:
        tt = T.strip(term)
        is_any = tt[0] == "call" and tt[1].endswith("::any") and _any_is_equality(P, tt[2])
        if not ((tt[0] == "call" and tt[1].endswith("::contains")) or is_any):
            okm, why = False, "returns %s" % T.pp(tt)[:80]
            continue
        def _tbl(x):
            if x[0] != "const":
                return False
            if (x[2] or "").endswith("TLS_GREASE_VALUES"):
                return True
            v = x[1]
            if isinstance(v, tuple) and v and v[0] == "raw":
                v = v[1]
            return isinstance(v, (bytes, bytearray)) and raw is not None and bytes(v) == bytes(raw)
        table_ok = any(_tbl(x) for x in T.walk(tt[2][0]))
        arg_ok = any(x[0] == "param" and x[1] == 0 for x in T.walk(tt[2][1])) or \
            (is_any and any(x[0] == "param" and x[1] == 0 for y in tt[2][1:] for x in T.walk(T.expand_upvars(P, ig, y))) or is_any and _closure_captures_param(ig, SI, tt))
        if not (table_ok and arg_ok):
            okm, why = False, "contains(%s, %s)" % (T.pp(tt[2][0])[:40], T.pp(tt[2][1])[:40])
    if ig is not None:
        ctx.check(okm and len(rs) >= 1, "R1", "is_grease_value:membership", "is_grease_value(v) = TLS_GREASE_VALUES.contains(&v)",
                  "is_grease_value is not plain membership in the 16-entry GREASE table (%s): values that merely resemble GREASE are dropped from JA4_b / JA4_c, or GREASE is kept" % why, ctx.loc(ig))
        # filter_grease_values keeps !is_grease_value
        okf = False
        for cb in P.closures_of(fg.path):
            cs = [t for _, t in cb.calls() if callee_of(t).endswith("is_grease_value")]
            nots = [s for _, _, s in cb.iter_stmts() if s["k"] == "assign" and s["p"]["l"] == 0 and s["r"]["k"] == "unop" and s["r"]["op"] == "Not"]
            if cs and nots:
                okf = True
        # ... or in a loop: `if is_grease_value(v) { continue } kept.push(v)`
        if not okf:
            SF = T.Slicer(fg, P)
            for pb, pt in Q.calls(fg, "Vec::<T, A>::push"):
                for c in Q.canon_conds(P, T.dom_conds(fg, SF, pb)):
                    if c[0] == "bool" and c[2] is False and c[1][0] == "call" and c[1][1].endswith("is_grease_value"):
                        okf = True
        ctx.check(okf, "R1", "filter_grease_values", "filter(|v| !is_grease_value(v))", "filter_grease_values does not keep exactly the non-GREASE values", ctx.loc(fg))
    # which lists are filtered at extraction / in the generator
    gen = P.method1("Signature", "generate_ja4_with_order")
    S = T.Slicer(gen, P)
    flt = set()
    for blk, t in Q.calls(gen, "filter_grease_values"):
        a = Q.call_args(gen, S, blk, t)
        flt |= {x[2] for x in T.walk(a[0]) if x[0] == "field"}
    ctx.check({"cipher_suites", "extensions", "signature_algorithms"} <= flt, "R1", "generator:filtered-lists",
              "ciphers, extensions and signature algorithms are GREASE-filtered before use", "lists filtered in the generator: %s" % sorted(flt), ctx.loc(gen))


WIDTH = {"u8": 8, "u16": 16, "u32": 32, "u64": 64, "usize": 64, "u128": 128, "i8": 8, "i16": 16, "i32": 32, "i64": 64, "isize": 64, "i128": 128}


def rule_R9(ctx):
    """R9: counts and code points are never narrowed on their way into the fingerprint (a length cast to u8 wraps at 256 before it
    is clamped to 99)"""
    P = ctx.program
    n = 0
    for b in P.bodies.values():
        if b.crate != "huginn_net_tls" or not (b.path.startswith(TLS) and ("generate_ja4" in b.path or "first_last_alpn" in b.path or "hash12" in b.path)):
            continue
        for i, j, s in b.iter_stmts():
            if s["k"] == "assign" and s["r"]["k"] == "cast" and s["r"].get("ck") == "IntToInt":
                fr, to = s["r"].get("from"), s["r"]["ty"]
                if fr in WIDTH and to in WIDTH:
                    n += 1
                    ctx.check(WIDTH[to] >= WIDTH[fr], "R9", "%s:cast:%s->%s" % (T.short(b.path), fr, to), "widening conversion",
                              "%s narrows a %s to %s: list lengths of 256 or more wrap before they are clamped / printed, so JA4_a carries a wrong count" % (T.short(b.path), fr, to), ctx.loc(b, i))
    total = sum(1 for b in P.bodies.values() for _, _, s in b.iter_stmts() if s["k"] == "assign" and s["r"]["k"] == "cast" and s["r"].get("ck") == "IntToInt")
    ctx.floor("R9", "integer conversions exported for the workspace (JA4 generator: %d)" % n, total, 40)


def rule_R8(ctx):
    """R8: the reported SNI and ALPN (and the two ALPN characters of JA4_a) come from the FIRST entry of the extension's list"""
    P = ctx.program
    b = P.body(TPR + "extract_tls_signature_from_client_hello")
    S = T.Slicer(b, P)
    aggs = Q.aggregates(b, "tls::Signature")
    if not aggs:
        ctx.cannot("R8", "sni-alpn:first", "Signature construction not found", ctx.loc(b))
        return
    i, j, s = aggs[-1]
    f = dict(zip(s["r"]["fields"], [S.operand(o, i, j) for o in s["r"]["ops"]]))
    for name in ("sni", "alpn"):
        t = f.get(name)
        if t is None:
            ctx.cannot("R8", name + ":first", "field not found")
            continue
        calls = [x[1] for x in T.calls_in(t)]
        firsts = [c for c in calls if c.endswith(("::first", "::next")) or (c.endswith("::get") and False)]
        lasts = sorted({T.short(c) for c in calls if c.endswith(("::last", "::next_back", "::pop", "::max", "::min", "::nth", "::last_mut", "::max_by_key", "::min_by_key", "::rev"))})
        ctx.check(bool(firsts) and not lasts, "R8", name + ":first", "%s = first entry of the list" % name,
                  "%s is taken with %s instead of the first list entry: a client offering several protocols / names is reported (and fingerprinted in JA4_a) by another "
                  "one than the specification's first" % (name, ",".join(lasts) or "an unrecognised selection"), ctx.loc(b, i))


def rule_R2_R3_R4(ctx):
    P = ctx.program
    tab, db = G.display_enum_table(P, TLS + "TlsVersion")
    got = {}
    for v, pieces in tab.items():
        got[v] = "".join(p[1] if p[0] == "lit" else "{}" for p in pieces)
    want = {"V1_3": "13", "V1_2": "12", "V1_1": "11", "V1_0": "10", "Ssl3_0": "s3", "Ssl2_0": "s2", "Unknown": "00"}
    for v, tok in want.items():
        ctx.check(got.get(v) == tok, "R2", "TlsVersion::%s" % v, "prints `%s`" % tok, "TlsVersion::%s prints `%s`, JA4 token is `%s`" % (v, got.get(v), tok), ctx.loc(db))
    b = P.body(TPR + "determine_tls_version")
    S = T.Slicer(b, P)
    # legacy code table
    sw = None
    for blk in sorted(b.reachable):
        t = b.blocks[blk]["t"]
        if t["k"] == "switch" and t["ty"] == "u16":
            sw = (blk, t)
    if sw is None:
        ctx.cannot("R2", "legacy-version-table", "match on the legacy version not found", ctx.loc(b))
    else:
        blk, t = sw
        codes = {0x0304: "V1_3", 0x0303: "V1_2", 0x0302: "V1_1", 0x0301: "V1_0", 0x0300: "Ssl3_0"}
        seen = {}
        for (v, tgt) in t["arms"]:
            seen[v] = _first_version(b, tgt)
        for code, var in codes.items():
            ctx.check(seen.get(code) == var, "R2", "legacy:0x%04x" % code, "0x%04x -> %s" % (code, var),
                      "legacy version 0x%04x maps to %s, expected %s" % (code, seen.get(code), var), ctx.loc(b, blk))
        other = _all_versions(b, t["otherwise"])
        ctx.check(other == {"Unknown"}, "R3", "legacy:unknown",
                  "unknown legacy version -> TlsVersion::Unknown",
                  "an unrecognised legacy version code is reported as %s instead of Unknown (`00`): a ClientHello with e.g. version 0x0305 or 0x7f12 gets a "
                  "JA4 starting t12.." % sorted(other), ctx.loc(b, t["otherwise"]))
    # R4 supported_versions
    n_sv = n_legacy = 0
    for (blk, j, term, conds) in TB.return_sites(b, P):
        dom = Q.canon_conds(P, T.dom_conds(b, S, blk))
        svc = [c for c in dom if c[0] == "bool" and c[1][0] == "call" and c[1][1].endswith("::contains")
               and any(x[0] == "const" and x[1] == 43 for x in T.walk(c[1]))]
        sv = [c for c in svc if c[2] is True]
        if not sv:
            # a version taken from the legacy field: only when the extension is absent
            uses_legacy = any(x[0] == "param" and x[1] == 0 for c in dom if c not in svc for x in T.walk(c[1])) or any(x[0] == "param" and x[1] == 0 for x in T.walk(term))
            if uses_legacy:
                n_legacy += 1
                ctx.check(any(c[2] is False for c in svc), "R4", "legacy-version:only-without-extension@%d" % n_legacy,
                          "legacy version consulted only when supported_versions is absent",
                          "the legacy version decides the result without first ruling out a supported_versions extension", ctx.loc(b, blk))
            continue
        n_sv += 1
        others = [c for c in dom if c not in svc and any(x[0] == "param" and x[1] == 0 for x in T.walk(c[1]))]
        ctx.check(not others, "R4", "supported_versions:priority",
                  "the supported_versions branch does not look at the legacy version",
                  "the supported_versions extension is honoured only for some legacy_version values (%s): a ClientHello that carries the extension with another "
                  "legacy version is fingerprinted by its legacy field" % "; ".join(T.pp(c[1])[:60] for c in others), ctx.loc(b, blk))
        depends = any(x[0] in ("param", "call") and x is not term for x in T.walk(term)) and not (term[0] == "agg" and not term[4])
        ctx.check(depends, "R4", "supported_versions:contents" + ("" if depends else ":constant=" + T.pp(term)[:30]),
                  "version derived from the supported_versions list",
                  "when the supported_versions extension is present the version is the constant %s regardless of the versions listed: a client offering only "
                  "TLS 1.2 (or GREASE + 1.2) in supported_versions is fingerprinted as t13" % T.pp(term), ctx.loc(b, blk))


    ctx.floor("R4", "return sites under `extensions.contains(supported_versions)`", n_sv, 1)
    ctx.floor("R4", "return sites that use the legacy version", n_legacy, 1)


def _first_version(b, blk, limit=6):
    for _ in range(limit):
        for s in b.blocks[blk]["s"]:
            if s["k"] == "assign" and s["p"]["l"] == 0 and s["r"]["k"] == "agg" and s["r"].get("path", "").endswith("TlsVersion"):
                return s["r"]["variant"]
        ss = b.succs(blk)
        if len(ss) != 1:
            return None
        blk = ss[0]
    return None


def _all_versions(b, start):
    out = set()
    seen = set()
    st = [start]
    while st:
        x = st.pop()
        if x in seen:
            continue
        seen.add(x)
        for s in b.blocks[x]["s"]:
            if s["k"] == "assign" and s["p"]["l"] == 0 and s["r"]["k"] == "agg" and s["r"].get("path", "").endswith("TlsVersion"):
                out.add(s["r"]["variant"])
        st.extend(b.succs(x))
    return out


def _dropped_by_predicate(P, cb):
    """For a `retain` predicate over integer items: the set of item values for which it returns false, provided it returns true for
    every other value; None when the closure is not a boolean function of `item == constant` tests.  Decided by evaluating the
    closure's decision rows for each constant it mentions and for `any other value` - `x != A && x != B`, `!(x == A || x == B)`,
    `!matches!(x, A | B)` and a match with a catch-all arm all give {A, B}."""
    from ..engine import decision as D
    rows = D.decision_rows(P, cb)
    if not rows:
        return None
    ks = set()

    def consts_of(t):
        t = T.strip(t)
        if t[0] == "binop" and t[1] in ("Eq", "Ne"):
            for s_ in (t[2], t[3]):
                k = T.fold_int(s_)
                if k is not None:
                    ks.add(k)
        for c in t[1:]:
            if isinstance(c, tuple) and c and isinstance(c[0], str):
                consts_of(c)
    for r in rows:
        for c in r.conds:
            if c[0] == "cmp":
                for s_ in (c[2], c[3]):
                    k = T.fold_int(s_)
                    if k is not None:
                        ks.add(k)
            elif c[0] == "int":
                if isinstance(c[2], int):
                    ks.add(c[2])
                elif isinstance(c[2], tuple):
                    for v in (c[2][1] if len(c[2]) > 1 else ()):
                        if isinstance(v, int):
                            ks.add(v)
        consts_of(r.ret)

    def ev(t, v):
        t = T.strip(t)
        if t[0] == "const" and isinstance(t[1], bool):
            return t[1]
        if t[0] == "unop" and t[1] == "Not":
            x = ev(t[2], v)
            return None if x is None else not x
        if t[0] == "binop" and t[1] in ("Eq", "Ne"):
            k = T.fold_int(t[3])
            other = t[2]
            if k is None:
                k, other = T.fold_int(t[2]), t[3]
            if k is None or not any(x[0] == "param" and x[1] >= 1 for x in T.walk(other)):
                return None
            eq = (v == k)
            return eq if t[1] == "Eq" else not eq
        if t[0] == "binop" and t[1] in ("BitOr", "BitAnd"):
            x, y = ev(t[2], v), ev(t[3], v)
            if x is None or y is None:
                return None
            return (x or y) if t[1] == "BitOr" else (x and y)
        return None

    def cond(c, v):
        if c[0] == "cmp" and c[1] in ("Eq", "Ne"):
            x = ev(("binop", c[1], c[2], c[3]), v)
            return None if x is None else (x == c[4])
        if c[0] == "bool":
            x = ev(c[1], v)
            return None if x is None else (x == c[2])
        if c[0] == "int":
            lab = c[2]
            if isinstance(lab, int):
                return v == lab
            if isinstance(lab, tuple) and lab and lab[0] == "else":
                return v not in lab[1]
            if isinstance(lab, tuple) and lab and lab[0] == "anyof":
                return v in lab[1]
        return None
    dropped = set()
    for v in sorted(ks) + ["other"]:
        vals = set()
        for r in rows:
            ok = True
            for c in r.conds:
                x = cond(c, v)
                if x is None:
                    return None
                if not x:
                    ok = False
                    break
            if ok:
                rv = ev(r.ret, v)
                if rv is None:
                    return None
                vals.add(rv)
        if len(vals) != 1:
            return None
        keep = vals.pop()
        if v == "other":
            if not keep:
                return None
        elif not keep:
            dropped.add(v)
    return dropped


def rule_R5_R6_R7(ctx):
    P = ctx.program
    gen = P.method1("Signature", "generate_ja4_with_order")
    S = T.Slicer(gen, P)

    def order_cond(blk):
        for c in Q.canon_conds(P, T.dom_conds(gen, S, blk)):
            if c[0] == "bool":
                tt = T.strip(c[1])
                if tt[0] == "param" and tt[2] == "original_order":
                    return c[2]
        return None

    sorts = Q.calls(gen, ["sort_unstable", "::sort", "sort_by", "::reverse"])
    # the lists are fingerprinted element for element (the count fields of JA4_a are their lengths): nothing may drop or merge entries
    # except the documented removals (GREASE everywhere, SNI and ALPN ids in the sorted extension list - checked by retain:sni-alpn)
    from ..engine import lists as L
    for xb in L.with_closures(P, gen):
        for blk, t in Q.calls(xb, ["::dedup", "dedup_by", "::truncate", "::pop", "::drain", "::split_off", "swap_remove", "Vec::<T, A>::remove", "::skip", "::take", "::step_by"]):
            ctx.fail("R5", "drops-elements:%s" % T.short(callee_of(t)).split("::")[-1],
                     "%s is applied to a fingerprint list in generate_ja4_with_order: entries of the ClientHello (a repeated cipher or extension id) disappear from "
                     "JA4_b / JA4_c while the count in JA4_a still includes them - the result is not the specification's value" % T.short(callee_of(t)), ctx.loc(xb, blk))
    n = 0
    for blk, t in sorts:
        a = Q.call_args(gen, S, blk, t)
        fields = {x[2] for x in T.walk(a[0]) if x[0] == "field"}
        n += 1
        oc = order_cond(blk)
        ctx.check(oc is False and fields and fields <= {"cipher_suites", "extensions"}, "R5", "sort:%s" % "+".join(sorted(fields)),
                  "sorted only when !original_order", "%s is applied to %s under original_order=%s: %s" % (
                      T.short(callee_of(t)), sorted(fields), oc,
                      "signature algorithms must keep wire order" if "signature_algorithms" in fields else "the original-order variant must not be reordered"),
                  ctx.loc(gen, blk))
    ctx.floor("R5", "sort sites", n, 2)
    # `v.retain(p)` or the same removal as `v.into_iter().filter(p).collect()`
    rets = Q.calls(gen, "::retain") + [(blk_, t_) for blk_, t_ in gen.calls() if callee_of(t_).endswith(("Iterator::filter", "Iterator>::filter"))]
    for blk, t in rets:
        a = Q.call_args(gen, S, blk, t)
        fields = {x[2] for x in T.walk(a[0]) if x[0] == "field"}
        oc = order_cond(blk)
        cl = T.strip(a[1])
        consts = set()
        if cl[0] == "agg" and cl[1] == "closure" and cl[2] in P.bodies:
            consts = _dropped_by_predicate(P, P.bodies[cl[2]])
            if consts is None:
                consts = {"?"}
        ctx.check(oc is False and fields == {"extensions"} and consts == {0x0000, 0x0010}, "R5", "retain:sni-alpn",
                  "SNI(0x0000) and ALPN(0x0010) removed from the extension list only in the sorted variant",
                  "retain on %s under original_order=%s keeps values != %s" % (sorted(fields), oc, sorted(consts)), ctx.loc(gen, blk))
    ctx.floor("R5", "retain sites", len(rets), 1)
    # counts: len(list).min(99), two digits
    mins = Q.calls(gen, "::min")
    cnt = {}
    for blk, t in mins:
        a = Q.call_args(gen, S, blk, t)
        fields = {x[2] for x in T.walk(a[0]) if x[0] == "field"}
        k = T.strip(a[1])
        if T.has_call(a[0], "::len") and k[0] == "const":
            for f in fields:
                cnt[f] = k[1]
    ctx.check(cnt.get("cipher_suites") == 99 and cnt.get("extensions") == 99, "R5", "counts:saturate", "cipher and extension counts are len().min(99)",
              "counts are not saturated at 99: %s" % cnt, ctx.loc(gen))
    # R6 hash12 guarded by emptiness
    hs = Q.calls(gen, "tls::hash12")
    ctx.floor("R6", "hash12 uses", len(hs), 2)
    for k, (blk, t) in enumerate(hs):
        a = Q.call_args(gen, S, blk, t)
        name = gen.local_name((t["args"][0].get("c") or t["args"][0].get("m") or {}).get("l", 0)) or ""
        argname = "ja4_b" if T.has_call(a[0], "::join") and not T.has_call(a[0], "format") and "phi" not in str(a[0])[:10] else "ja4_c"
        argname = ["ja4_b", "ja4_c"][k] if len(hs) == 2 else argname
        guarded = None
        subject = None
        for c in Q.canon_conds(P, T.dom_conds(gen, S, blk)):
            if c[0] == "bool" and c[1][0] == "call" and c[1][1].endswith("::is_empty"):
                # the emptiness test must look at the very string that would be hashed
                same = T.pp(T.canon_value(T.strip(c[1][2][0]))) == T.pp(T.canon_value(T.strip(a[0])))
                guarded = (c[2] is False) and same
                if not same:
                    subject = T.pp(T.canon_value(T.strip(c[1][2][0])))[:80]
        zero = any(x[0] == "const" and x[1] == "000000000000" for blk2, j2, s2 in gen.iter_stmts() if s2["k"] == "assign"
                   for x in T.walk(S.rvalue(s2["r"], blk2, j2)))
        ctx.check(bool(guarded) and zero, "R6", "hash12:%s:empty" % argname,
                  "hash12 used only for a non-empty list, `000000000000` otherwise",
                  ("%s is hashed even when the list is empty: the specification assigns `000000000000`, the code emits sha256(\"\")[..12] = e3b0c44298fc" % argname)
                  + ((" (the emptiness test looks at %s, not at the string that is hashed)" % subject) if subject else ""),
                  ctx.loc(gen, blk))
    # R7 hash12
    hb = P.body(TLS + "hash12")
    SH = T.Slicer(hb, P)
    idx = Q.calls(hb, "ops::Index")
    ok7 = False
    for blk, t in idx:
        a = Q.call_args(hb, SH, blk, t)
        r = T.strip(a[1])
        if r[0] == "agg" and (r[2] or "").endswith("RangeTo") and T.strip(r[4][0])[1] == 12:
            recv = a[0]
            ok7 = T.has_call(recv, "new_lower_hex") and T.has_call(recv, "::digest") and T.has_call(recv, "as_bytes")
    dig = [t for _, t in hb.calls() if callee_of(t).endswith("::digest")]
    sha = bool(dig) and any("Sha256" in x or "sha2" in x for x in dig[0].get("substs", []) + [dig[0].get("decl_args", "")])
    ctx.check(ok7 and sha, "R7", "hash12", "format!(\"{:x}\", Sha256::digest(input))[..12]", "hash12 is not the first 12 lower-hex characters of SHA-256", ctx.loc(hb))
    # JA4_a assembly and the separators of the final strings
    fmts = []
    for blk, t in Q.calls(gen, "fmt::format"):
        a = Q.call_args(gen, S, blk, t)
        pcs = PA.arguments_pieces(a[0])
        if pcs is not None:
            fmts.append((blk, pcs))
    seven = [f for f in fmts if sum(1 for p in f[1] if p[0] == "hole") == 7]
    if len(seven) != 1:
        ctx.cannot("R7", "ja4_a", "JA4_a format (7 fields) not found (%d candidates)" % len(seven), ctx.loc(gen))
    else:
        blk, pcs = seven[0]
        lits = [p for p in pcs if p[0] == "lit"]
        holes = [p[1] for p in pcs if p[0] == "hole"]

        def tag(h):
            if h is None:
                return "?"
            s = T.pp(h)
            if h[0] == "const" and h[1] == "t":
                return "proto"
            if T.contains(h, lambda x: x[0] == "field" and x[2] == "version"):
                return "version"
            if T.contains(h, lambda x: x[0] == "const" and x[1] in ("d", "i")):
                return "sni"
            if T.contains(h, lambda x: x[0] == "field" and x[2] == "cipher_suites"):
                return "ciphers"
            if T.contains(h, lambda x: x[0] == "field" and x[2] == "extensions"):
                return "exts"
            if T.contains(h, lambda x: x[0] == "call" and x[1].endswith("first_last_alpn")) or T.contains(h, lambda x: x[0] == "const" and x[1] == "0"):
                return "alpn"
            return "?"
        order = [tag(h) for h in holes]
        ctx.check(not lits and order == ["proto", "version", "sni", "ciphers", "exts", "alpn", "alpn"], "R7", "ja4_a:order",
                  "JA4_a = proto version sni cipher-count ext-count alpn-first alpn-last", "JA4_a fields are assembled as %s with literals %s" % (order, lits), ctx.loc(gen, blk))
    # sni polarity
    okp = 0
    for i, j, s in gen.iter_stmts():
        if s["k"] == "assign" and s["r"]["k"] == "use" and "k" in s["r"]["o"]:
            cv = T.const_value(s["r"]["o"]["k"])
            if cv[1] in ("d", "i"):
                for c in Q.canon_conds(P, T.dom_conds(gen, S, i)):
                    if c[0] == "variant" and any(x[0] == "field" and x[2] == "sni" for x in T.walk(c[1])):
                        some = (c[2] == "Some") == c[3]
                        if (cv[1] == "d") == some:
                            okp += 1
                    if c[0] == "bool" and c[1][0] == "call" and c[1][1].endswith("is_some") and any(x[0] == "field" and x[2] == "sni" for x in T.walk(c[1])):
                        if (cv[1] == "d") == c[2]:
                            okp += 1
    ctx.check(okp == 2, "R7", "sni-flag", "`d` iff SNI present, `i` otherwise", "SNI indicator polarity is wrong or unguarded", ctx.loc(gen))
    three = [f for f in fmts if [p[1] for p in f[1] if p[0] == "lit"] == ["_", "_"] and sum(1 for p in f[1] if p[0] == "hole") == 3]
    ctx.check(len(three) == 2, "R7", "ja4:separators", "hashed and raw fingerprints are a_b_c joined by `_`", "final JA4 strings are not `a_b_c` (found %d)" % len(three), ctx.loc(gen))
    # raw vs hashed: the hashed one uses the two hash12 results, the raw one the raw lists
    if len(three) == 2:
        kinds = []
        for blk, pcs in three:
            hs_ = [p[1] for p in pcs if p[0] == "hole"]
            kinds.append("hashed" if all(T.has_call(h, "hash12") for h in hs_[1:]) else ("raw" if not any(T.has_call(h, "hash12") for h in hs_[1:]) else "mixed"))
        ctx.check(sorted(kinds) == ["hashed", "raw"], "R7", "ja4:hashed-vs-raw", "one hashed and one raw assembly", "assemblies are %s" % kinds, ctx.loc(gen))
    # sorted / unsorted variant tags follow original_order
    tags = {}
    for i, j, s in gen.iter_stmts():
        if s["k"] == "assign" and s["r"]["k"] == "agg" and s["r"].get("path", "").split("::")[-1] in ("Ja4Fingerprint", "Ja4RawFingerprint"):
            tags[(s["r"]["path"].split("::")[-1], s["r"]["variant"])] = order_cond(i)
    want = {("Ja4Fingerprint", "Unsorted"): True, ("Ja4Fingerprint", "Sorted"): False, ("Ja4RawFingerprint", "Unsorted"): True, ("Ja4RawFingerprint", "Sorted"): False}
    ctx.check(tags == want, "R5", "variant-tags", "Sorted/Unsorted tags follow original_order", "variant tags: %s" % tags, ctx.loc(gen))
    # generate_ja4 / generate_ja4_original pass false / true
    for nm, val in (("generate_ja4", False), ("generate_ja4_original", True)):
        bb = P.method1("Signature", nm)
        SS = T.Slicer(bb, P)
        okk = False
        for blk, t in Q.calls(bb, "generate_ja4_with_order"):
            a = Q.call_args(bb, SS, blk, t)
            okk = T.strip(a[1])[0] == "const" and T.strip(a[1])[1] is val
        ctx.check(okk, "R5", nm, "%s = generate_ja4_with_order(%s)" % (nm, str(val).lower()), "%s does not select original_order=%s" % (nm, val), ctx.loc(bb))


def rule_extract(ctx):
    P = ctx.program
    b = P.body(TPR + "extract_tls_signature_from_client_hello")
    S = T.Slicer(b, P)
    ags = Q.aggregates(b, "tls::Signature")
    if len(ags) != 1:
        ctx.cannot("R7", "extract:signature", "Signature constructor not found", ctx.loc(b))
        return
    i, j, s = ags[0]
    f = {n: S.operand(o, i, j) for n, o in zip(s["r"]["fields"], s["r"]["ops"])}
    ctx.check(T.has_call(f["version"], "determine_tls_version"), "R7", "extract:version", "version = determine_tls_version(legacy, extensions)",
              "version is not computed by determine_tls_version", ctx.loc(b, i))
    csrc = Q.element_sources(P, b, S, s["r"]["ops"][s["r"]["fields"].index("cipher_suites")], i, j)
    ctx.check(any(x[0] == "field" and x[2] == "ciphers" for t_ in csrc for x in T.walk(t_)), "R7", "extract:ciphers", "cipher_suites from client_hello.ciphers",
              "cipher list originates from %s" % T.pp(f["cipher_suites"])[:80], ctx.loc(b, i))
    # routing of the extension payloads: the assignment to each list happens in the arm of the like-named extension variant
    want = {"sni": "SNI", "alpn": "ALPN", "signature_algorithms": "SignatureAlgorithms", "elliptic_curves": "EllipticCurves",
            "elliptic_curve_point_formats": "EcPointFormats"}
    from ..engine import guards as GV
    for name, var in want.items():
        # every assignment that can supply Signature.<name>, whatever carries the value on its way (a local of its own, a field of an
        # accumulator struct that is destructured before the constructor)
        if name not in s["r"]["fields"]:
            ctx.cannot("R7", "extract:route:" + name, "Signature has no field `%s`" % name, ctx.loc(b))
            continue
        op_ = s["r"]["ops"][s["r"]["fields"].index(name)]
        pl_ = op_.get("m") or op_.get("c")
        asg = GV.assignments_of(P, b, S, pl_) if pl_ is not None else []
        if not asg:
            ctx.cannot("R7", "extract:route:" + name, "no assignment supplying Signature.%s found" % name, ctx.loc(b))
            continue
        arms = set()
        numeric = []
        for (_val, conds_, (db, dj)) in asg:
            for c in conds_:
                if c[0] == "variant" and c[3] and c[2] in set(want.values()) | {"SupportedVersions", "KeyShare"}:
                    arms.add(c[2])
                # the payload is taken whenever the extension carries one: nothing about its contents (a name type, a length, a
                # particular value) decides whether it is recorded - JA4's `d`/`i` flag and ALPN characters only ask `is it there`
                if c[0] in ("cmp", "int") and any(x[0] == "call" and x[1].endswith(("::first", "::get", "::next")) or x[0] == "index" for y in ([c[2], c[3]] if c[0] == "cmp" else [c[1]]) for x in T.walk(y)):
                    numeric.append(T.pp(c[2] if c[0] == "cmp" else c[1])[:40])
        if name in ("sni", "alpn"):
            ctx.check(not numeric, "R7", "extract:%s:unconditional" % name, "%s recorded whenever the extension has a first entry" % name,
                      "%s is recorded only when %s: a ClientHello that carries the extension with another entry kind is fingerprinted as if the extension were absent "
                      "(`i` instead of `d`) although the extension id is still listed" % (name, numeric[:2]), ctx.loc(b))
        ctx.check(arms == {var}, "R7", "extract:route:" + name, "%s assigned in the %s arm" % (name, var),
                  "%s is assigned under extension arm(s) %s, expected %s" % (name, sorted(arms), var), ctx.loc(b))


def rule_extension_wire_type(ctx):
    """R7: the extension type that enters the fingerprint is the value sent on the wire.  tls-parser (0.12, the pinned dependency)
    files every extension whose type matches `t & 0x0f0f == 0x0a0a` - 256 values, of which RFC 8701 reserves 16 - under
    `TlsExtension::Grease(t, data)`, and `TlsExtensionType::from(&TlsExtension)` maps that variant to the constant 0xfafa: the
    conversion is lossy for exactly this variant.  A type obtained through the conversion alone therefore turns 0x1a2a, 0x3a4a, ... into
    0xfafa, which the GREASE filter then removes: a non-GREASE extension disappears from JA4_a's count and from JA4_c.  For the
    Grease variant the type must be read from the variant's own field"""
    P = ctx.program
    b = P.body(TPR + "extract_tls_signature_from_client_hello")
    S = T.Slicer(b, P)
    n = 0
    for blk, t in Q.calls(b, "Vec::<T, A>::push"):
        a = Q.call_args(b, S, blk, t)
        recv_ = t["args"][0].get("m") or t["args"][0].get("c")
        if not any(x[0] == "field" and x[2] == "extensions" for x in T.walk(a[0])) and b.local_name(TB._root_local(b, recv_["l"])) != "extensions":
            continue
        v = a[1]
        if not T.has_call(v, "TlsExtensionType") and not any(x[0] == "downcast" and x[2] == "Grease" for x in T.walk(v)):
            continue
        n += 1
        via_conv = any(x[0] == "call" and "TlsExtensionType" in x[1] and x[1].endswith("::from") for x in T.walk(v))
        wire = any(x[0] == "downcast" and x[2] == "Grease" for x in T.walk(v))
        ctx.check(wire or not via_conv, "R7", "extract:extension-wire-type", "the type of a Grease-classified extension is read from the extension itself",
                  "the extension type is taken from TlsExtensionType::from(&extension) for every variant: tls-parser classifies all 256 types matching 0x?a?a as Grease "
                  "and that conversion returns 0xfafa for them, so a non-GREASE extension such as 0x1a2a is removed by the GREASE filter and is missing from the "
                  "fingerprint (ClientHello with extensions [0x7777, 0x1a2a, 0x8888] records [0x7777, 0x8888])", ctx.loc(b, blk))
    if n == 0:
        # the list is not filled with push (`extensions.extend(parsed.iter().map(type_of).filter(..))`): judge the conversion where it is
        # written - it is applied only to what is not the Grease variant, whose type is read from its own field
        from ..engine import lists as L_
        for cb in L_.with_closures(P, b):
            CS = T.Slicer(cb, P)
            for blk, t in cb.calls():
                if not ("TlsExtensionType" in callee_of(t) and callee_of(t).endswith("::from")):
                    continue
                n += 1
                conds = Q.canon_conds(P, T.dom_conds(cb, CS, blk))
                not_grease = any((c[0] == "variant" and c[2] == "Grease" and c[3] is False) or
                                 (c[0] == "variant_in" and ((("Grease" in c[2]) != c[3]))) for c in conds)
                reads_field = any(s_["k"] == "assign" and any(isinstance(x, dict) and x.get("v") == "Grease" or (isinstance(x, dict) and x.get("n") == "Grease")
                                                               for x in (s_["r"].get("o", {}).get("c") or s_["r"].get("o", {}).get("m") or {}).get("pr", []))
                                  for _, _, s_ in cb.iter_stmts() if s_["r"].get("k") == "use") or \
                    any(x[0] == "downcast" and x[2] == "Grease" for (_rb, _j, term, _c) in TB.return_sites(cb, P) for x in T.walk(term))
                ctx.check(not_grease and reads_field, "R7", "extract:extension-wire-type", "the type of a Grease-classified extension is read from the extension itself",
                          "the extension type is taken from TlsExtensionType::from(&extension) for every variant: tls-parser classifies all 256 types matching 0x?a?a as Grease "
                          "and that conversion returns 0xfafa for them, so a non-GREASE extension such as 0x1a2a is removed by the GREASE filter and is missing from the "
                          "fingerprint (ClientHello with extensions [0x7777, 0x1a2a, 0x8888] records [0x7777, 0x8888])", ctx.loc(cb, blk))
    ctx.floor("R7", "extension-type push sites", n, 1)


def rule_reader_admits(ctx):
    """a ClientHello reaches the fingerprint code through the record reader: what the reader refuses is never fingerprinted (shared
    with C08.R1/R4: complete record handed over, cap between the largest legal record and 64 KiB)"""
    from ..engine import report as R
    from . import C08
    C08.rule_reader(R.Retag(ctx, "C08."))
    C08.rule_tls_gate(R.Retag(ctx, "C08."))


def rule_lists_reported_under_their_own_name(ctx):
    """R7: the lists reported next to the fingerprints (signature algorithms, curves, point formats, cipher suites, extensions) are the
    ones the fingerprint was computed from: no two same-typed fields exchanged while the signature is copied into the output (shared rule
    _argswap.swapped_fields)"""
    from . import _argswap as AS
    n = AS.swapped_fields(ctx, ctx.program, "R7", ("huginn_net_tls",))
    ctx.floor("R7", "struct literals in the TLS crate", n, 5)


def rule_report_values_distinct(ctx):
    """R7: the textual report prints each fingerprint under its own label: one formatted write of a Display impl of the TLS crate never
    prints the same value twice (none of the reference tree's writes does; `JA4_o: {}` filled with the value of `JA4: {}` is the
    copy-and-paste form of reporting one list under another's name)"""
    P = ctx.program
    n = 0
    for b in sorted(P.bodies.values(), key=lambda x: x.path):
        if b.crate != "huginn_net_tls" or b.name != "fmt" or "Display" not in (b.impl_trait or b.path):
            continue
        S = T.Slicer(b, P)
        for blk, t in b.calls():
            if not callee_of(t).endswith("::write_fmt") or len(t["args"]) < 2:
                continue
            try:
                pcs = PA.arguments_pieces(S.operand(t["args"][1], blk, len(b.blocks[blk]["s"])))
            except Exception:
                pcs = None
            if not pcs:
                continue
            holes = [T.pp(x[1]) for x in pcs if x[0] == "hole" and x[1] is not None]
            if len(holes) < 2:
                continue
            n += 1
            dup = sorted(h for h in set(holes) if holes.count(h) > 1)
            who = (b.impl_self or b.path).split("::")[-1]
            ctx.check(not dup, "R7", "display:%s:values-distinct" % who, "%d values printed, all different" % len(holes),
                      "the Display impl of %s prints %s twice in one write: one of the two labels reports another field's value" % (who, [d[:60] for d in dup]),
                      ctx.loc(b, blk))
    ctx.floor("R7", "multi-value writes in Display impls of the TLS crate", n, 2)


def run(ctx):
    rule_report_values_distinct(ctx)
    rule_lists_reported_under_their_own_name(ctx)
    rule_extension_wire_type(ctx)
    rule_reader_admits(ctx)
    rule_R1(ctx)
    rule_R2_R3_R4(ctx)
    rule_R8(ctx)
    rule_R9(ctx)
    from . import _narrow as N
    N.narrowing_preserved(ctx, ctx.program, "R9", ("huginn_net_tls",))
    rule_R5_R6_R7(ctx)
    rule_extract(ctx)
