"""Shared worker-loop rules (C10, C18): a packet taken off a worker queue is always handed on."""
from ..engine import q as Q
from ..engine import terms as T
from ..engine.facts import callee_of

RECV = ("::recv_timeout", "::try_recv", "::recv")


def received_consumed(ctx, P, fam, wl, rule):
    """Every successful receive on the packet channel is followed, on every path to the next receive / the function exit,
    by `batch.push(packet)` or `process_packet(&packet, ..)` of that very packet (must-pass-through)."""
    S = T.Slicer(wl, P)
    recvs = [(blk, t) for blk, t in wl.calls() if callee_of(t).endswith(RECV) and "Receiver" in callee_of(t)]
    ctx.floor(rule, "%s: receive calls on the packet queue in worker_loop" % fam, len(recvs), 2)
    recv_blocks = {blk for blk, _ in recvs}
    rets = {i for i, blk in enumerate(wl.blocks) if blk["t"]["k"] == "return"}
    for k, (rb, t) in enumerate(recvs):
        name = callee_of(t).rsplit("::", 1)[-1]
        inst = "%s:worker_loop:%s@%d:consumed" % (fam, name, k)

        def from_this(term):
            return any(x[0] == "call" and x[3] == rb and callee_of(t) == x[1] for x in T.walk(term))
        # sinks: push / process_packet fed with this receive's payload
        sinks = set()
        for blk, c in wl.calls():
            n = callee_of(c)
            if n.endswith("Vec::<T, A>::push") or n.endswith("::process_packet") or n.endswith("VecDeque::<T, A>::push_back"):
                args = Q.call_args(wl, S, blk, c)
                vals = args[1:] if n.endswith(("push", "push_back")) else args[:1]
                if any(from_this(v) for v in vals):
                    sinks.add(blk)
        # Ok edges of the match on the receive result
        starts = []
        seen = set()
        todo = [t["target"]] if t.get("target") is not None else []
        while todo:
            x = todo.pop()
            if x in seen or x in recv_blocks:
                continue
            seen.add(x)
            be = T.branch_edges(wl, S, x)
            if be is not None:
                atom, labels = be
                if atom[0] == "variant" and from_this(atom[1]):
                    for succ, lab in labels.items():
                        if lab == "Ok" or (isinstance(lab, tuple) and lab and lab[0] == "else" and "Ok" in lab[1]):
                            starts.append(succ)
                    continue
            todo.extend(wl.succs(x))
        if not starts:
            ctx.cannot(rule, inst, "the match on the result of %s was not recognised" % name, ctx.loc(wl, rb))
            continue
        if not sinks:
            ctx.fail(rule, inst, "the packet returned by %s never reaches batch.push / process_packet: it was reported Queued and is silently discarded" % name, ctx.loc(wl, rb))
            continue
        esc = None
        seen = set()
        todo = [(s0, (s0,)) for s0 in starts]
        while todo and esc is None:
            x, path = todo.pop()
            if x in seen:
                continue
            seen.add(x)
            if x in sinks:
                continue
            if x in recv_blocks or x in rets:
                esc = (x, path)
                break
            for s in wl.succs(x):
                todo.append((s, path + (s,)))
        ctx.check(esc is None, rule, inst, "Ok(packet) of %s always reaches push/process before the next receive or exit" % name,
                  "a packet taken off the queue by %s can reach %s without being pushed to the batch or processed (e.g. when the batch is already full): "
                  "it was reported Queued, is never analysed and appears in no drop counter" % (
                      name, ("the next receive" if esc and esc[0] in recv_blocks else "the end of the worker")) if esc else "", ctx.loc(wl, esc[0]) if esc else None)


SHRINK = ("clear", "remove", "remove_expired", "set_capacity", "retain", "drain")
OWNERS = {
    # crate -> functions that may remove entries of the per-connection caches (after a result, an error, FIN/RST)
    "huginn_net_tcp": (),
    "huginn_net_http": ("huginn_net_http::http_process::process_tcp_packet",),
    "huginn_net_tls": ("huginn_net_tls::process::process_tcp_packet",),
    "huginn_net": (),
}


def state_retained(ctx, P, crate, fam, rule, floor_allowed):
    """Per-connection state lives until its owner removes it or its TTL expires: no other code shrinks or re-creates
    the connection caches (in particular nothing in the worker / capture loops, where an idle timeout or a new batch
    would silently forget half-reassembled connections)."""
    from ..engine import cfg as C
    allowed = 0
    bad = []
    for b in P.bodies.values():
        if b.crate != crate:
            continue
        loops = None
        for blk, t in b.calls():
            n = callee_of(t)
            if "TtlCache" not in n:
                continue
            m = n.rsplit("::", 1)[-1]
            if m in SHRINK:
                if b.path in OWNERS.get(crate, ()):
                    allowed += 1
                else:
                    bad.append((b, blk, "%s() on a connection cache in %s" % (m, T.short(b.path))))
            if m == "new":
                if loops is None:
                    loops = C.loops(b)
                if any(blk in blks for blks in loops.values()):
                    bad.append((b, blk, "the connection cache is re-created inside a loop of %s" % T.short(b.path)))
    ctx.check(not bad, rule, fam + ":state-retained", "connection caches are shrunk only by %s (%d removal sites) and by TTL expiry" % (
        [T.short(x) for x in OWNERS.get(crate, ())] or "nobody", allowed),
        "%s: connection state is forgotten independently of the connection's own fate (a segmented ClientHello / a request whose next segment arrives "
        "after the event is no longer reassembled, although the sequential analyzer still reports it)" % "; ".join(x[2] for x in bad[:3]),
        ctx.loc(bad[0][0], bad[0][1]) if bad else None)
    ctx.floor(rule, "%s: removal sites inside the owning per-packet function" % fam, allowed, floor_allowed)


def uniform_workers(ctx, P, crate, fam, rule):
    """Every worker thread is started with the same shared configuration: what the spawn closure captures from outside the
    spawning loop is a clone (Arc / Sender / Option<Arc<..>>) - never something moved out (`take`, `replace`), which only the
    first worker would receive."""
    from ..engine import cfg as C
    c = [b for b in P.method("WorkerPool", "new") if b.crate == crate]
    if len(c) != 1:
        ctx.cannot(rule, fam + ":uniform-workers", "%d WorkerPool::new bodies in %s" % (len(c), crate))
        return
    b = c[0]
    S = T.Slicer(b, P)
    loops = C.loops(b)
    inloop = set()
    for blks in loops.values():
        inloop |= set(blks)
    n = 0
    for i, j, s in b.iter_stmts():
        if not (s["k"] == "assign" and s["r"]["k"] == "agg" and s["r"]["ak"] == "closure" and i in inloop):
            continue
        cb = P.bodies.get(s["r"].get("path"))
        if cb is None or not any(callee_of(t).endswith("::worker_loop") for _, t in cb.calls()):
            continue
        for k, o in enumerate(s["r"]["ops"]):
            pl = o.get("m") or o.get("c")
            if pl is None:
                continue
            ty = b.locals[pl["l"]]["ty"]
            shared = [w for w in ("FilterConfig", "Database", "AtomicBool", "mpsc::Sender") if w in ty]
            if not shared:
                continue
            n += 1
            t = S.operand(o, i, j)
            moved = sorted({T.short(x[1]) for x in T.calls_in(t) if x[1].endswith(("::take", "::replace", "::take_if", "::unwrap"))})
            cloned = any(x[1].endswith(("::clone", "::cloned")) for x in T.calls_in(t)) or \
                any("::clone" in str(x[1]) or "::clone" in str(x[2] or "") for x in T.consts_in(t))   # `.map(Arc::clone)`
            ctx.check(cloned and not moved, rule, "%s:uniform-workers:%s" % (fam, shared[0]),
                      "each worker gets a clone of the shared %s" % shared[0],
                      "the %s handed to a worker is %s: only the first worker receives it, the others run with a different configuration "
                      "(e.g. without the packet filter), so results depend on which worker a connection hashes to" % (
                          shared[0], "moved out with " + ",".join(moved) if moved else "not a clone of the shared value"), ctx.loc(b, i))
    ctx.floor(rule, "%s: shared values captured by the worker spawn closure" % fam, n, 2)
