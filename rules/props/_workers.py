"""Shared worker-loop rules (C10, C18): a packet taken off a worker queue is always handed on."""
from ..engine import q as Q
from ..engine import terms as T
from ..engine.facts import callee_of

RECV = ("::recv_timeout", "::try_recv", "::recv")


def received_consumed(ctx, P, fam, wl, rule):
    """Every successful receive on the packet channel is followed, on every path to the next receive / the function exit,
    by `batch.push(packet)` or `process_packet(&packet, ..)` of that very packet (must-pass-through)."""
    S = T.Slicer(wl, P)
    recvs = [(blk, t) for blk, t in wl.calls() if callee_of(t).endswith(RECV) and "Receiver" in callee_of(t)]
    # `batch.extend(rx.try_iter().take(k))`: the iterator form of the non-blocking fill - every packet it takes off the queue goes into
    # the batch, provided nothing between the queue and `extend` drops items (only the bounding `take` is allowed)
    iters = [(blk, t) for blk, t in wl.calls() if callee_of(t).endswith("::try_iter") and "Receiver" in callee_of(t)]
    for k_, (ib, it_) in enumerate(iters):
        fed, dropping = False, []
        for blk, c in wl.calls():
            if callee_of(c).endswith(("::extend", "::extend_from_slice")) and len(c["args"]) == 2:
                src = Q.call_args(wl, S, blk, c)[1]
                if any(x[0] == "call" and x[1] == callee_of(it_) and x[3] == ib for x in T.walk(src)):
                    fed = True
                    dropping = sorted({T.short(x[1]) for x in T.calls_in(src) if x[1].endswith(("::filter", "::filter_map", "::skip", "::skip_while", "::take_while", "::step_by", "::nth",
                                                                                                       "::rev", "::map_while", "::scan", "::flat_map", "::zip", "::peekable", "::fuse"))})
        ctx.check(fed and not dropping, rule, "%s:worker_loop:try_iter@%d:consumed" % (fam, k_), "every packet taken by try_iter() goes into the batch",
                  "packets taken off the queue with try_iter() %s: they were reported Queued and are never analysed" % ("pass through " + ",".join(dropping) if dropping else "are not collected into the batch"), ctx.loc(wl, ib))
    ctx.floor(rule, "%s: receive calls on the packet queue in worker_loop" % fam, len(recvs) + len(iters), 2)
    recv_blocks = {blk for blk, _ in recvs}
    rets = {i for i, blk in enumerate(wl.blocks) if blk["t"]["k"] == "return"}
    for k, (rb, t) in enumerate(recvs):
        name = callee_of(t).rsplit("::", 1)[-1]
        inst = "%s:worker_loop:%s@%d:consumed" % (fam, name, k)

        def from_this(term):
            return any(x[0] == "call" and x[3] == rb and callee_of(t) == x[1] for x in T.walk(term))
        # sinks: push / process_packet fed with this receive's payload
        sinks = set()
        for blk, c in wl.calls():
            n = callee_of(c)
            if n.endswith("Vec::<T, A>::push") or n.endswith("::process_packet") or n.endswith("VecDeque::<T, A>::push_back"):
                args = Q.call_args(wl, S, blk, c)
                vals = args[1:] if n.endswith(("push", "push_back")) else args[:1]
                if any(from_this(v) for v in vals):
                    sinks.add(blk)
        # Ok edges of the match on the receive result
        starts = []
        seen = set()
        todo = [t["target"]] if t.get("target") is not None else []
        while todo:
            x = todo.pop()
            if x in seen or x in recv_blocks:
                continue
            seen.add(x)
            be = T.branch_edges(wl, S, x)
            if be is not None:
                atom, labels = be
                if atom[0] == "variant" and from_this(atom[1]):
                    for succ, lab in labels.items():
                        if lab == "Ok" or (isinstance(lab, tuple) and lab and lab[0] == "else" and "Ok" in lab[1]):
                            starts.append(succ)
                    continue
            todo.extend(wl.succs(x))
        if not starts:
            ctx.cannot(rule, inst, "the match on the result of %s was not recognised" % name, ctx.loc(wl, rb))
            continue
        if not sinks:
            ctx.fail(rule, inst, "the packet returned by %s never reaches batch.push / process_packet: it was reported Queued and is silently discarded" % name, ctx.loc(wl, rb))
            continue
        esc = None
        seen = set()
        todo = [(s0, (s0,)) for s0 in starts]
        while todo and esc is None:
            x, path = todo.pop()
            if x in seen:
                continue
            seen.add(x)
            if x in sinks:
                continue
            if x in recv_blocks or x in rets:
                esc = (x, path)
                break
            for s in wl.succs(x):
                todo.append((s, path + (s,)))
        ctx.check(esc is None, rule, inst, "Ok(packet) of %s always reaches push/process before the next receive or exit" % name,
                  "a packet taken off the queue by %s can reach %s without being pushed to the batch or processed (e.g. when the batch is already full): "
                  "it was reported Queued, is never analysed and appears in no drop counter" % (
                      name, ("the next receive" if esc and esc[0] in recv_blocks else "the end of the worker")) if esc else "", ctx.loc(wl, esc[0]) if esc else None)


SHRINK = ("clear", "remove", "remove_expired", "set_capacity", "retain", "drain")
OWNERS = {
    # crate -> functions that may remove entries of the per-connection caches (after a result, an error, FIN/RST)
    "huginn_net_tcp": (),
    "huginn_net_http": ("huginn_net_http::http_process::process_tcp_packet",),
    "huginn_net_tls": ("huginn_net_tls::process::process_tcp_packet",),
    "huginn_net": (),
}


def state_retained(ctx, P, crate, fam, rule, floor_allowed):
    """Per-connection state lives until its owner removes it or its TTL expires: no other code shrinks or re-creates
    the connection caches (in particular nothing in the worker / capture loops, where an idle timeout or a new batch
    would silently forget half-reassembled connections)."""
    from ..engine import cfg as C
    allowed = 0
    bad = []
    for b in P.bodies.values():
        if b.crate != crate:
            continue
        loops = None
        for blk, t in b.calls():
            n = callee_of(t)
            if "TtlCache" not in n:
                continue
            m = n.rsplit("::", 1)[-1]
            if m in SHRINK:
                if b.path in OWNERS.get(crate, ()):
                    allowed += 1
                else:
                    bad.append((b, blk, "%s() on a connection cache in %s" % (m, T.short(b.path))))
            if m == "new":
                if loops is None:
                    loops = C.loops(b)
                if any(blk in blks for blks in loops.values()):
                    bad.append((b, blk, "the connection cache is re-created inside a loop of %s" % T.short(b.path)))
    ctx.check(not bad, rule, fam + ":state-retained", "connection caches are shrunk only by %s (%d removal sites) and by TTL expiry" % (
        [T.short(x) for x in OWNERS.get(crate, ())] or "nobody", allowed),
        "%s: connection state is forgotten independently of the connection's own fate (a segmented ClientHello / a request whose next segment arrives "
        "after the event is no longer reassembled, although the sequential analyzer still reports it)" % "; ".join(x[2] for x in bad[:3]),
        ctx.loc(bad[0][0], bad[0][1]) if bad else None)
    ctx.floor(rule, "%s: removal sites inside the owning per-packet function" % fam, allowed, floor_allowed)


def uniform_workers(ctx, P, crate, fam, rule):
    """Every worker thread is started with the same shared configuration: what the spawn closure captures from outside the
    spawning loop is a clone (Arc / Sender / Option<Arc<..>>) - never something moved out (`take`, `replace`), which only the
    first worker would receive."""
    from ..engine import cfg as C
    c = [b for b in P.method("WorkerPool", "new") if b.crate == crate]
    if len(c) != 1:
        ctx.cannot(rule, fam + ":uniform-workers", "%d WorkerPool::new bodies in %s" % (len(c), crate))
        return
    b = c[0]
    S = T.Slicer(b, P)
    loops = C.loops(b)
    inloop = set()
    for blks in loops.values():
        inloop |= set(blks)
    n = 0
    for i, j, s in b.iter_stmts():
        if not (s["k"] == "assign" and s["r"]["k"] == "agg" and s["r"]["ak"] == "closure" and i in inloop):
            continue
        cb = P.bodies.get(s["r"].get("path"))
        if cb is None or not any(callee_of(t).endswith("::worker_loop") for _, t in cb.calls()):
            continue
        for k, o in enumerate(s["r"]["ops"]):
            pl = o.get("m") or o.get("c")
            if pl is None:
                continue
            ty = b.locals[pl["l"]]["ty"]
            shared = [w for w in ("FilterConfig", "Database", "AtomicBool", "mpsc::Sender") if w in ty]
            if not shared:
                continue
            n += 1
            t = S.operand(o, i, j)
            moved = sorted({T.short(x[1]) for x in T.calls_in(t) if x[1].endswith(("::take", "::replace", "::take_if", "::unwrap"))})
            cloned = any(x[1].endswith(("::clone", "::cloned")) for x in T.calls_in(t)) or \
                any("::clone" in str(x[1]) or "::clone" in str(x[2] or "") for x in T.consts_in(t))   # `.map(Arc::clone)`
            ctx.check(cloned and not moved, rule, "%s:uniform-workers:%s" % (fam, shared[0]),
                      "each worker gets a clone of the shared %s" % shared[0],
                      "the %s handed to a worker is %s: only the first worker receives it, the others run with a different configuration "
                      "(e.g. without the packet filter), so results depend on which worker a connection hashes to" % (
                          shared[0], "moved out with " + ",".join(moved) if moved else "not a clone of the shared value"), ctx.loc(b, i))
    ctx.floor(rule, "%s: shared values captured by the worker spawn closure" % fam, n, 2)
    # the per-worker limits are the configured ones: every WorkerConfig field is the like-named constructor parameter, unmodified
    # (each worker is documented to get the full max_connections / batch_size / timeout, as the sequential analyzer does)
    m = 0
    for cb in [b] + P.closures_of(b.path):
        CS = T.Slicer(cb, P)
        for i, j, s in cb.iter_stmts():
            if s["k"] == "assign" and s["r"]["k"] == "agg" and s["r"]["ak"] == "adt" and (s["r"].get("path") or "").endswith("WorkerConfig"):
                for fname, o in zip(s["r"]["fields"], s["r"]["ops"]):
                    m += 1
                    t = T.strip(T.expand_upvars(P, cb, CS.operand(o, i, j)))
                    while t[0] in ("upvar",):
                        t = T.strip(t[2])
                    while t[0] in ("ref", "deref"):
                        t = T.strip(t[2] if t[0] == "ref" else t[1])
                    plain = t[0] == "param" and t[2] == fname
                    # a field that is not a numeric limit (the worker's own clone of the filter, carried in the config struct): the
                    # uniform-workers rule above judges it
                    if not plain and any(w in (cb.local_ty((o.get("m") or o.get("c") or {}).get("l", 0)) or "") for w in ("FilterConfig", "Database", "Arc<")):
                        m -= 1
                        continue
                    ctx.check(plain, rule, "%s:worker-config:%s" % (fam, fname), "WorkerConfig.%s = parameter %s" % (fname, fname),
                              "WorkerConfig.%s is %s, not the configured `%s`: every worker runs with a different limit than the sequential analyzer "
                              "(e.g. a fraction of max_connections, so connections within the configured capacity evict each other)" % (fname, T.pp(t)[:80], fname), ctx.loc(cb, i))
    ctx.floor(rule, "%s: WorkerConfig fields" % fam, m, 3)


def batch_complete(ctx, P, fam, wl, rule):
    """The packets of one batch: a loop nested in the service loop that walks collected packets goes back to the service loop only when
    its iterator is exhausted."""
    from ..engine import cfg as C
    S = T.Slicer(wl, P)
    loops = C.loops(wl)
    if not loops:
        return
    L = max(loops.items(), key=lambda kv: len(kv[1]))[1]
    # leaving it early drops the Drain and with it every packet of the batch that was not looked at yet
    early, m = [], 0
    for hdr, Lin in loops.items():
        if not (Lin < L) or not any(callee_of(t_).endswith("::next") and "Range<" not in callee_of(t_) for b_, t_ in wl.calls() if b_ in Lin):
            continue
        for x in sorted(Lin):
            for y in wl.succs(x):
                if y in Lin or y not in L or wl.blocks[y]["t"]["k"] == "unreachable":
                    continue
                m += 1
                be = T.branch_edges(wl, S, x)
                cs = list(Q.canon_cond(P, be[0], be[1][y], x)) if be is not None and y in be[1] else []
                done = any(c[0] in ("variant", "variant_in") and T.has_call(c[1], "::next") and
                           ((c[2] == "None" or (isinstance(c[2], tuple) and "None" in c[2] and "Some" not in c[2])) == c[3]) for c in cs)
                # .. or when nobody listens to the results any more (the reason the service loop itself may end for)
                closed = any((c[0] == "variant" and T.has_call(c[1], "Sender::<T>::send") and ((c[2] == "Err") == c[3])) or
                             (c[0] == "bool" and T.has_call(c[1], "Sender::<T>::send") and
                              ((T.has_call(c[1], "::is_err") and c[2] is True) or (T.has_call(c[1], "::is_ok") and c[2] is False)))
                             for c in cs + list(Q.canon_conds(P, T.dom_conds(wl, S, x))))
                if not done and not closed:
                    early.append((x, [c[0] + ":" + (T.pp(c[1])[:50] if isinstance(c[1], tuple) else str(c[1])) for c in cs][-2:]))
    if m:
        ctx.check(not early, rule, fam + ":worker_loop:batch-complete", "%d ways from a batch loop back to the service loop, each when the batch is exhausted" % m,
                  "the worker can leave the loop over a batch before its iterator is exhausted (%s): the remaining packets of the batch were "
                  "reported Queued and are never analysed" % (early[:2],), ctx.loc(wl, early[0][0]) if early else None)


def exit_conditions(ctx, P, fam, wl, wp, rule):
    """A worker only stops when it is told to (shutdown flag), when its queue is disconnected or when nobody listens to its results:
    no packet - in particular none the analyzer rejects with an error - can end the service loop."""
    from ..engine import cfg as C
    S = T.Slicer(wl, P)
    loops = C.loops(wl)
    if not loops:
        ctx.cannot(rule, fam + ":worker_loop:exits", "service loop not found", ctx.loc(wl))
        return
    outer = max(loops.items(), key=lambda kv: len(kv[1]))
    L = outer[1]

    def allowed(conds):
        why = None
        for c in conds:
            txt = T.pp(c[1])[:200] if len(c) > 1 and isinstance(c[1], tuple) else ""
            if c[0] == "bool" and T.has_call(c[1], "::load") and c[2] is True and any(x[0] == "param" and "shutdown" in (x[2] or "") for x in T.walk(c[1])):
                why = "shutdown flag"
            if c[0] in ("variant", "variant_in") and c[3] is True and (c[2] == "Disconnected" or (isinstance(c[2], tuple) and "Disconnected" in c[2])):
                why = "queue disconnected"
            if c[0] in ("variant",) and T.has_call(c[1], "Sender::<T>::send") and ((c[2] == "Err") == c[3]):
                why = "result channel closed"
            if c[0] == "bool" and T.has_call(c[1], "::is_err") and T.has_call(c[1], "Sender::<T>::send") and c[2] is True:
                why = "result channel closed"
            if c[0] == "bool" and T.has_call(c[1], "::is_ok") and T.has_call(c[1], "Sender::<T>::send") and c[2] is False:
                why = "result channel closed"
            if c[0] == "bool" and c[1][0] == "call" and c[1][1].endswith("::process_packet") and c[2] is False:
                why = "process_packet said stop"
            if c[0] in ("variant", "variant_in") and T.has_call(c[1], "try_recv") :
                pass
        return why
    n = 0
    bad = []
    for x in sorted(L):
        t = wl.blocks[x]["t"]
        outs = [y for y in wl.succs(x) if y not in L and wl.blocks[y]["t"]["k"] != "unreachable"]
        if t["k"] == "return":
            outs = [None]
        for y in outs:
            conds = list(Q.canon_conds(P, T.dom_conds(wl, S, x)))
            if y is not None:
                be = T.branch_edges(wl, S, x)
                if be is not None and y in be[1]:
                    conds += Q.canon_cond(P, be[0], be[1][y], x)
            n += 1
            why = allowed(conds)
            if why is None and y is not None and wl.blocks[x]["t"]["k"] == "switch" and wl.blocks[x]["t"].get("ty") == "bool":
                # the exit is taken on a flag (`let alive = ..; if !alive { return }`): the reasons are those under which the flag got
                # the value that leaves
                from ..engine import guards as GV
                t_ = wl.blocks[x]["t"]
                pl = t_["discr"].get("m") or t_["discr"].get("c")
                leave = 0 if any(a[0] == 0 and a[1] == y for a in t_["arms"]) else 1
                neg = False
                for _ in range(4):
                    ds = [st for (_b, _j, st) in wl.iter_stmts() if st["k"] == "assign" and st["p"]["l"] == pl["l"] and not st["p"]["pr"]]
                    if len(ds) == 1 and ds[0]["r"]["k"] == "unop" and ds[0]["r"].get("op") == "Not":
                        q_ = ds[0]["r"]["o"].get("m") or ds[0]["r"]["o"].get("c")
                        if q_ is None:
                            break
                        pl, neg = q_, not neg
                        continue
                    break
                want = bool(leave) != neg
                asg = GV.assignments_of(P, wl, S, pl) if not pl["pr"] else []
                srcs = [(v, cs_) for (v, cs_, _w) in asg if T.strip(v)[0] == "const" and T.strip(v)[1] is want]
                others = [v for (v, cs_, _w) in asg if not (T.strip(v)[0] == "const" and isinstance(T.strip(v)[1], bool))]
                if srcs and not others:
                    whys = [allowed(list(cs_)) for (_v, cs_) in srcs]
                    if all(whys):
                        why = whys[0]
            if why is None:
                bad.append((x, [c[0] + ":" + (T.pp(c[1])[:50] if isinstance(c[1], tuple) else str(c[1])) for c in conds][-3:]))
    ctx.check(not bad, rule, fam + ":worker_loop:exits", "%d ways out of the service loop, each under shutdown / disconnect / closed result channel" % n,
              "the worker can leave its service loop for another reason (%s): packets dispatched to it afterwards are reported Queued and never analysed" % (bad[:2],),
              ctx.loc(wl, bad[0][0]) if bad else None)
    ctx.floor(rule, "%s: exits of the worker service loop" % fam, n, 3)
    batch_complete(ctx, P, fam, wl, rule)
    # a process_packet that returns `keep running?`: false only when the result could not be delivered
    if wp is not None and wp.locals[0]["ty"] == "bool":
        SP = T.Slicer(wp, P)
        from ..engine import tables as TB
        badr = []
        m = 0
        for (rb, j, term, rc_) in TB.return_sites(wp, P, True):
            tt = T.strip(term)
            m += 1
            if tt[0] == "const" and tt[1] is True:
                continue
            if tt[0] == "call" and tt[1].endswith("::is_ok") and T.has_call(tt, "Sender::<T>::send"):
                continue
            # `match sender.send(r) { Ok(()) => true, Err(_) => false }`: `false` on the Err side of the send
            if tt[0] == "const" and tt[1] is False and any(
                    (c[0] == "variant" and T.has_call(c[1], "Sender::<T>::send") and ((c[2] == "Err") == c[3])) or
                    (c[0] == "bool" and T.has_call(c[1], "Sender::<T>::send") and ((T.has_call(c[1], "::is_err") and c[2] is True) or (T.has_call(c[1], "::is_ok") and c[2] is False)))
                    for c in list(rc_) + list(Q.canon_conds(P, T.dom_conds(wp, SP, rb)))):
                continue
            badr.append((rb, T.pp(tt)[:80]))
        ctx.check(not badr, rule, fam + ":process_packet:keep-running", "process_packet answers `stop` only when the result channel is closed (%d return sites)" % m,
                  "process_packet can tell the worker to stop for another reason (%s): one packet the analyzer rejects ends the worker thread" % (badr[:2],),
                  ctx.loc(wp, badr[0][0]) if badr else None)


def filter_reaches_pipeline(ctx, P, crate, fam, rule):
    """Every packet a worker handles goes through the same filtered pipeline: each call of process_packet in worker_loop is handed the
    worker's filter (a batch's follow-up packets are not processed with `None`)."""
    wl = [b for b in P.method("WorkerPool", "worker_loop") if b.crate == crate]
    wp = [b for b in P.method("WorkerPool", "process_packet") if b.crate == crate]
    if len(wl) != 1 or len(wp) != 1:
        ctx.cannot(rule, fam + ":filter-argument", "worker_loop / process_packet not unique in %s" % crate)
        return
    wl, wp = wl[0], wp[0]
    names = [wp.local_name(i + 1) for i in range(wp.arg_count)]
    fi = [i for i, nm in enumerate(names) if nm and "filter" in nm]
    if not fi:
        ctx.cannot(rule, fam + ":filter-argument", "process_packet has no filter parameter", ctx.loc(wp))
        return
    fi = fi[0]
    S = T.Slicer(wl, P)
    n = 0
    for blk, t in wl.calls():
        if not callee_of(t).endswith("::process_packet"):
            continue
        n += 1
        a = Q.call_args(wl, S, blk, t)
        src = a[fi]
        okf = any(x[0] == "param" and "filter" in (x[2] or "") for x in T.walk(src)) or \
            any(x[0] == "field" and isinstance(x[2], str) and "filter" in x[2] and any(y[0] == "param" for y in T.walk(x[1])) for x in T.walk(src))
        ctx.check(okf, rule, "%s:filter-argument@%d" % (fam, n), "process_packet(.., filter of this worker)",
                  "a call of process_packet in the worker loop passes %s as the filter: packets handled at that call site (e.g. the follow-up packets of a batch) "
                  "are analysed unfiltered" % T.pp(T.strip(src))[:60], ctx.loc(wl, blk))
    ctx.floor(rule, "%s: process_packet call sites in worker_loop" % fam, n, 1)


def _closure_calls(P, term, frag):
    """does a predicate closure handed to an Option/Iterator combinator inside `term` call `frag`
    (`signal.as_ref().is_some_and(|c| c.load(Relaxed))` reads the flag just as `if let Some(c) = &signal { if c.load(..)` does)"""
    for x in T.walk(term):
        if x[0] == "call" and x[1].endswith(("::is_some_and", "::map_or", "::is_none_or", "::any", "::all")):
            for a in x[2]:
                a = T.strip(a)
                if a[0] == "agg" and a[1] == "closure" and a[2] in P.bodies:
                    if any(callee_of(t).endswith(frag) for _, t in P.bodies[a[2]].calls()):
                        return True
    return False


def capture_loop_exits(ctx, P, rule):
    """The capture loops of the analyzers (process_sequential / process_parallel / process_with) end only when the packet source is
    exhausted, on the cancel signal, or when nobody receives results: a packet that the analyzer rejects with an error is logged
    and skipped - it never ends the analysis of the traffic that follows it."""
    from ..engine import cfg as C
    n = 0
    for b in P.bodies.values():
        if b.name not in ("process_sequential", "process_parallel", "process_with") or b.kind != "AssocFn" or not b.blocks:
            continue
        loops = C.loops(b)
        if not loops:
            continue
        S = T.Slicer(b, P)
        L = max(loops.items(), key=lambda kv: len(kv[1]))[1]
        bad = []
        m = 0
        for x in sorted(L):
            t = b.blocks[x]["t"]
            outs = [y for y in b.succs(x) if y not in L and b.blocks[y]["t"]["k"] != "unreachable"]
            if t["k"] == "return":
                outs = [None]
            for y in outs:
                conds = list(Q.canon_conds(P, T.dom_conds(b, S, x)))
                if y is not None:
                    be = T.branch_edges(b, S, x)
                    if be is not None and y in be[1]:
                        conds += Q.canon_cond(P, be[0], be[1][y], x)
                m += 1
                why = None
                for c in conds:
                    if c[0] in ("variant", "variant_in") and c[3] is True and T.has_call(c[1], "call_mut") and (c[2] == "None" or (isinstance(c[2], tuple) and "None" in c[2])):
                        why = "source exhausted"
                    if c[0] == "bool" and c[2] is True and (T.has_call(c[1], "::load") or _closure_calls(P, c[1], "::load")):
                        why = "cancel / shutdown signal"
                    if c[0] == "bool" and T.has_call(c[1], "Sender::<T>::send") and ((T.has_call(c[1], "::is_err") and c[2] is True) or (T.has_call(c[1], "::is_ok") and c[2] is False)):
                        why = "result receiver gone"
                    if c[0] == "variant" and T.has_call(c[1], "Sender::<T>::send") and ((c[2] == "Err") == c[3]):
                        why = "result receiver gone"
                if why is None:
                    bad.append((x, [c[0] + ":" + (T.pp(c[1])[:60] if isinstance(c[1], tuple) else str(c[1])) + "=" + str(c[2] if c[0] != "cmp" else c[4]) for c in conds][-3:]))
        n += 1
        who = "%s:%s" % (b.crate.replace("huginn_net", "hn"), b.name)
        ctx.check(not bad, rule, who + ":exits", "%d ways out of the capture loop: source exhausted / cancel / receiver gone" % m,
                  "the capture loop of %s can end for another reason (%s): one packet the analyzer rejects (bad flags, fragment, non-TCP) ends the analysis, so whether a "
                  "connection is reported depends on what other traffic preceded it" % (b.name, bad[:2]), ctx.loc(b, bad[0][0]) if bad else ctx.loc(b))
    ctx.floor(rule, "capture loops", n, 6)


def fifo_batch(ctx, P, crate, fam, rule):
    """packets are analysed in the order they were dispatched: the worker loop applies no reordering operation to what it received,
    and a collected batch is consumed front to back (drain(..) / forward iteration)"""
    wl = [b for b in P.method("WorkerPool", "worker_loop") if b.crate == crate]
    if len(wl) != 1:
        ctx.cannot(rule, fam + ":worker_loop:order", "worker_loop not unique in %s" % crate)
        return
    wl = wl[0]
    S = T.Slicer(wl, P)
    bad = [t for _, t in Q.calls(wl, ["::pop", "::rev", "swap_remove", "sort", "::reverse", "Vec::<T, A>::remove", "::last", "next_back", "::rotate", "::swap"])]
    ctx.check(not bad, rule, fam + ":worker_loop:order", "no reordering operation on received packets",
              "worker_loop reorders queued packets via %s: segments of one connection that are collected into the same batch are analysed out of order "
              "(a continuation before the segment that opens its flow)" % [T.short(callee_of(t)) for t in bad], ctx.loc(wl))
    if fam in ("http", "tls"):
        okd = False
        for blk, t in Q.calls(wl, "::drain"):
            a = Q.call_args(wl, S, blk, t)
            r = T.strip(a[1]) if len(a) > 1 else None
            if r and r[0] in ("agg", "const"):
                okd = True
        ctx.check(okd, rule, fam + ":worker_loop:batch-drained", "the batch is consumed front to back by drain(..)", "the batch is not consumed front-to-back by drain(..)", ctx.loc(wl))
