"""C06 - Signature text round-trips and the database loads losslessly.

Structural clauses decided:
 R1 parser token table <=> Display token table for every vocabulary; composite separator skeletons agree; Header Display
    prints all four (optional, value) combinations
 R2 inside every alt((..)) no earlier alternative shadows a later one (longer tokens win)
 R3 every FromStr wrapper returns Ok only when no input remains
 R4 section routing of Database::from_str: (module, direction) -> collection, label/sig attachment, error exits; classes / mtu /
    ua_os are accumulated (initialised once, only appended to); neither the loader nor FingerprintCollection::new drops or
    reorders entries
 R1 (also) every value hole of the vocabularies is printed with plain `{}` (decimal), as the digit parsers read it; the label grammar is
    type:class:name[:rest-of-line flavor]
"""
import re

from ..engine import cfg as C
from ..engine import grammar as G
from ..engine import paths as PA
from ..engine import q as Q
from ..engine import tables as TB
from ..engine import terms as T
from ..engine.facts import AnchorMissing, callee_of

EXPLANATION = ("The nom grammars of db_parse.rs are recovered from MIR origin terms (tag/digit1/terminated/preceded/separated_pair/"
               "map/map_res/alt and the variant each action closure constructs); Display impls are recovered per enum variant as "
               "sequences of literal pieces and holes (write_str constants, decoded core::fmt templates). Tables are compared in "
               "both directions; alt alternatives are checked pairwise for prefix shadowing; FromStr wrappers and the section "
               "state machine are checked by control dependence.")
TRUSTED = ["nom 8 combinator semantics (tag, digit1, alt = first success, terminated/preceded/separated_pair, separated_list*)",
           "core::fmt template encoding as documented in library/core/src/fmt/mod.rs of the pinned nightly",
           "integer Display prints decimal digits; str::parse::<uN> accepts them"]
DECLINED = ["value-level round trip of numeric payloads (range of u8/u16)", "`?n` with n>255 (unwrap_or(0))",
            "completeness of the bundled p0f.fp (data, not code shape)"]
ASSUMPTIONS = ["http::Version::V20/V30 are outside the p0f text vocabulary (`0`/`1`/`*`) by the property's own statement"]
EXHAUSTIVE = True

VOCAB = [
    # (parser fn, enum path, out-of-vocabulary variants allowed to lack a parser token)
    ("parse_ip_version", "huginn_net_db::tcp::IpVersion", set()),
    ("parse_ttl", "huginn_net_db::tcp::Ttl", set()),
    ("parse_window_size", "huginn_net_db::tcp::WindowSize", set()),
    ("parse_tcp_option", "huginn_net_db::tcp::TcpOption", set()),
    ("parse_quirk", "huginn_net_db::tcp::Quirk", set()),
    ("parse_payload_size", "huginn_net_db::tcp::PayloadSize", set()),
    ("parse_http_version", "huginn_net_db::http::Version", {"V20", "V30"}),
]
TOKEN_FLOOR = 43  # 3+4+5+8+17+3+3 parser alternatives counted on the reference tree


def rule_R1_R2(ctx):
    P = ctx.program
    ntok = 0
    for fn, enum, oov in VOCAB:
        short = enum.split("::")[-1]
        try:
            b = P.fn("db_parse::" + fn)
            g = G.parser_grammar(P, b)
            alts = G.alternatives(P, g)
            if alts is None:
                raise AnchorMissing("%s is not an alt((..)) grammar: %r" % (fn, g[0]))
            dtab, db = G.display_enum_table(P, enum)
        except AnchorMissing as e:
            ctx.cannot("R1", short, str(e))
            continue
        variants = P.variants(enum)
        # numbers are printed the way the digit parsers read them: plain Display (decimal, no width / radix options)
        oddfmt = sorted({"%s: {%s%s}" % (v, p[2].replace("new_", ""), (" " + str(p[3])) if len(p) > 3 and p[3] else "") for v, pcs in dtab.items() for p in pcs
                         if p[0] == "hole" and (p[2] != "new_display" or (len(p) > 3 and p[3]))})
        ctx.check(not oddfmt, "R1", short + ":decimal-holes", "every value hole of %s is printed with `{}`" % short,
                  "Display of %s formats a value with %s while the grammar reads plain decimal digits: the printed text parses back to another value or not at all" % (short, oddfmt), ctx.loc(db))
        ptab = {}
        for idx, (pieces, vs) in enumerate(alts):
            vs = {v for (e, v) in vs if e == enum}
            if len(vs) != 1 or any(p[0] not in ("lit", "digits") for p in pieces):
                ctx.cannot("R1", "%s:alt#%d" % (short, idx), "alternative not understood: pattern %s constructs %s" % (G.pp_pattern(pieces), sorted(vs)), ctx.loc(b))
                continue
            v = next(iter(vs))
            ntok += 1
            if v in ptab:
                ctx.ok("R1", "%s::%s:second-token" % (short, v), "additional token %s" % G.pp_pattern(pieces))
            ptab.setdefault(v, []).append((idx, pieces))
        # parse(display(v)) == v  and display(parse(t)) == t
        for v in variants:
            if v not in dtab:
                ctx.cannot("R1", "%s::%s:display" % (short, v), "Display arm not recovered", ctx.loc(db))
                continue
            dpat = G.display_to_pattern(P, enum, v, dtab[v])
            if v not in ptab:
                if v in oov:
                    ctx.ok("R1", "%s::%s" % (short, v), "outside the p0f text vocabulary (prints %s, no parser token) - listed exception" % G.pp_pattern(dpat))
                else:
                    ctx.fail("R1", "%s::%s:unparsable" % (short, v), "variant prints as `%s` but no parser alternative constructs it" % G.pp_pattern(dpat), ctx.loc(b))
                continue
            pats = [G.pp_pattern(p) for (_, p) in ptab[v]]
            ctx.check(G.pp_pattern(dpat) == pats[0] and dpat == ptab[v][0][1], "R1", "%s::%s" % (short, v),
                      "token `%s` both ways" % pats[0],
                      "Display prints `%s` but the parser expects `%s` for %s::%s: text no longer round-trips" % (G.pp_pattern(dpat), pats[0], short, v),
                      ctx.loc(db))
        for v in ptab:
            if v not in variants:
                ctx.fail("R1", "%s::%s:ghost" % (short, v), "parser constructs unknown variant", ctx.loc(b))
        # distinct tokens
        toks = [G.pp_pattern(p) for (p, _) in alts]
        ctx.check(len(set(toks)) == len(toks), "R1", short + ":distinct-tokens", "%d distinct tokens" % len(toks),
                  "two alternatives share one token: %s" % sorted(t for t in toks if toks.count(t) > 1), ctx.loc(b))
        # R2 prefix shadowing
        shadows = []
        for i in range(len(alts)):
            ri = G.pattern_regex(alts[i][0])
            if ri is None:
                continue
            rx = re.compile(ri)
            for j in range(i + 1, len(alts)):
                samples = G.pattern_samples(alts[j][0])
                if not samples:
                    continue
                for s in samples:
                    m = rx.match(s)
                    if m:
                        shadows.append((G.pp_pattern(alts[i][0]), G.pp_pattern(alts[j][0]), s))
                        break
        ctx.check(not shadows, "R2", short + ":alt-order", "%d alternatives, none shadows a later one" % len(alts),
                  "alternative `%s` is tried before `%s` and matches a prefix of `%s`: the later token can never be parsed" % (
                      shadows[0] if shadows else ("", "", "")), ctx.loc(b))
    ctx.floor("R1", "parser token alternatives", ntok, TOKEN_FLOOR)


def _skeleton_parser(program, g, mark_lists=False):
    """Top-level separator skeleton of a sequence grammar: string over H (value) and literal characters."""
    out = ""
    stars = 0
    if g[0] != "seq":
        return None, 0
    for x in g[1]:
        k = x[0]
        if k == "sub" and x[1] in program.bodies and "Option<u" in program.bodies[x[1]].local_ty(0):
            # a field parser factored out into its own function is read through: `alt((tag("*"), number))` behind a name
            try:
                sg = G.parser_grammar(program, program.bodies[x[1]])
                if sg[0] == "map" and sg[1][0] == "alt":
                    sg = sg[1]
                if sg[0] == "alt":
                    x, k = sg, "alt"
            except AnchorMissing:
                pass
        if k == "lit":
            out += x[1]
        elif k in ("sub", "class"):
            out += "H"
        elif k == "map":
            out += "H"
        elif k == "alt":
            out += "H"
            for a in x[1]:
                fl = G.flatten(program, a)
                if fl == [("lit", "*")]:
                    stars += 1
        elif k in ("separated_list0", "separated_list1"):
            sep = x[1][1] if x[1][0] == "lit" else "?"
            out += ("\x00" if mark_lists and len(sep) == 1 else "") + sep + "H"
        elif k == "opt":
            inner = x[1]
            if inner[0] in ("separated_list0", "separated_list1"):
                sep = inner[1][1] if inner[1][0] == "lit" else "?"
                out += ("\x00" if mark_lists and len(sep) == 1 else "") + sep + "H"
            else:
                out += "H"
        else:
            out += "?"
    return out, stars


def _skeleton_display(program, body):
    trails, trunc = PA.enumerate_paths(body, 0, 6000)
    best = None
    stars = set()
    for tr in trails:
        ev = PA.write_events(body, tr, program)
        s = ""
        for e in ev:
            if e[0] == "lit":
                s += e[1]
            else:
                s += "H"
        nh = s.count("H")
        if "*" in s:
            stars.add(s.count("*"))
        key = (nh, len(s))
        if "*" not in s and (best is None or key > best[0]):
            best = (key, s)
    return (best[1] if best else None), (max(stars) if stars else 0), trunc


def rule_R1_composite(ctx):
    P = ctx.program
    for fn, disp in (("parse_tcp_signature", "format_tcp_display"), ("parse_http_signature", "format_http_display")):
        try:
            pb = P.fn("db_parse::" + fn)
            g = G.parser_grammar(P, pb)
            ps_marked, pstars = _skeleton_parser(P, g, mark_lists=True)
            ps = ps_marked.replace("\x00", "") if ps_marked else ps_marked
            dbs = [b for b in P.bodies.values() if b.name == disp and b.kind == "AssocFn" and b.crate == "huginn_net_db"]
            if len(dbs) != 1:
                raise AnchorMissing("%s: %d bodies" % (disp, len(dbs)))
            ds, dstars, trunc = _skeleton_display(P, dbs[0])
        except AnchorMissing as e:
            ctx.cannot("R1", "composite:" + fn, str(e))
            continue
        if trunc or ds is None or ps is None:
            ctx.cannot("R1", "composite:" + fn, "skeleton not recovered (parser %r, display %r)" % (ps, ds), ctx.loc(pb))
            continue
        # a list field `sepH` of the parser is matched by any of the ways a Display impl walks a list on its longest path:
        # `,H` (separator written before every element but the first, one iteration seen), `H,H` (first element peeled off),
        # `H` (join); everything else must agree literally
        rx = "".join("(?:H?(?:%sH)*)" % re.escape(m.group(1)) if m.group(1) is not None else re.escape(m.group(0))
                     for m in re.finditer(r"\x00(.)H|.", ps_marked, re.S)) if ps_marked else None
        same = ps == ds or (rx is not None and re.fullmatch(rx, ds) is not None and ds.count("H") >= ps.count("H") - ps_marked.count("\x00"))
        ctx.check(same, "R1", "composite:" + fn, "field/separator skeleton `%s` on both sides" % ps,
                  "parser expects `%s` but Display writes `%s` (H = a field value)" % (ps, ds), ctx.loc(dbs[0]))
        ctx.check(pstars == dstars, "R1", "composite:%s:wildcards" % fn, "%d `*` alternatives on both sides" % pstars,
                  "parser accepts %d `*` wildcards for optional numbers but Display can print %d" % (pstars, dstars), ctx.loc(dbs[0]))


def rule_R1_header(ctx):
    P = ctx.program
    # Header: Display = ["?"] name ["=[" value "]"] ; parser = opt(char('?')) name opt("=[" until("]") "]")
    try:
        pb = P.fn("db_parse::parse_http_header")
        # the name / value part has its own helper on the reference tree; written inline it is part of parse_http_header itself
        try:
            kv = P.fn("db_parse::parse_header_key_value")
        except AnchorMissing:
            kv = pb
        db = G.display_body(P, "huginn_net_db::http::Header")
    except AnchorMissing as e:
        ctx.cannot("R1", "Header", str(e))
        return
    g = G.parser_grammar(P, kv)
    lits = [p[1] for p in G.flatten(P, ("seq", [g])) if p[0] == "lit"]
    flat = str(g)
    plits = set(re.findall(r"\('lit', '([^']*)'\)", flat))
    S = T.Slicer(pb, P)
    opt_q = any(T.strip(a)[0] == "const" and T.strip(a)[1] == "?" for blk, t in Q.calls(pb, "complete::char") for a in Q.call_args(pb, S, blk, t))
    trails, _ = PA.enumerate_paths(db, 0, 500)
    dl = set()
    for tr in trails:
        for e in PA.write_events(db, tr, P):
            if e[0] == "lit":
                dl.add(e[1])
    # per-path skeletons: every combination of (optional?, value?) must be printable, nothing else
    skels = set()
    for tr in trails:
        sk = ""
        for e in PA.write_events(db, tr, P):
            sk += e[1] if e[0] == "lit" else "H"
        skels.add(sk)
    want_sk = {"H", "?H", "H=[H]", "?H=[H]"}
    stray = sorted(x for x in skels if x not in want_sk and not any(w.startswith(x) for w in want_sk))
    missing = sorted(want_sk - skels)
    ctx.check(not missing and not stray, "R1", "Header:skeletons", "Display writes [?]name[=[value]] for all four (optional, value) combinations",
              "Header Display cannot print %s%s: a header carrying both marks loses one of them, so text -> value -> text is not the identity (p0f.fp contains e.g. `?DNT=[1]`)"
              % (missing, (" and prints unexpected forms %s" % stray) if stray else ""), ctx.loc(db))
    want_disp = {"?", "=[", "]"}
    ctx.check(opt_q and {"=[", "]"} <= plits and want_disp <= dl, "R1", "Header:marks",
              "`?` optional mark and `=[value]` on both sides (parser lits %s, display lits %s)" % (sorted(plits), sorted(dl)),
              "header marks differ: parser %s (optional '?': %s) vs Display %s" % (sorted(plits), opt_q, sorted(dl)), ctx.loc(db))
    # optional flag routing: Header.optional = optional.is_some()
    aggs = Q.aggregates(pb, "http::Header")
    okr = False
    for (i, j, s) in aggs:
        f = s["r"]["fields"]
        t = S.operand(s["r"]["ops"][f.index("optional")], i, j)
        if T.has_call(t, "is_some") and T.has_call(t, "opt"):
            okr = True
    ctx.check(okr, "R1", "Header:optional-flag", "optional = opt(char('?')).is_some()", "optional flag not derived from the `?` mark", ctx.loc(pb))
    # the value is stored as parsed: `Name=[]` (an empty bracketed value) and `Name` (no value) are different texts and print differently,
    # so nothing may turn one into the other on the way into the Header (no filter / emptiness test on the value)
    okv = bool(aggs)
    why = ""
    for (i, j, s) in aggs:
        f = s["r"]["fields"]
        t = S.operand(s["r"]["ops"][f.index("value")], i, j)
        # (with_closures: the conversion closure of `.map(..)`; a predicate handed to `filter` decides on the contents)
        dropping = sorted({T.short(x[1]).rsplit("::", 1)[-1] for x in T.calls_in(t) if x[1].rsplit("::", 1)[-1] in
                           ("filter", "is_empty", "take_if", "then", "then_some", "trim", "trim_matches", "strip_prefix", "strip_suffix")})
        conds = [c for c in Q.canon_conds(P, T.dom_conds(pb, S, i)) if c[0] in ("bool", "cmp") and (T.has_call(c[1] if c[0] == "bool" else c[2], "is_empty") or
                                                                                                T.has_call(c[1] if c[0] == "bool" else c[2], "::len"))]
        # a value that the code itself can turn into None (`if v.is_empty() { None } else { v }`, `filter` written out)
        forced_none = any(x[0] == "phi" and any(T.strip(y)[0] == "agg" and T.strip(y)[3] == "None" for y in x[1]) for x in T.walk(t))
        if dropping or conds or forced_none:
            okv = False
            why = ", ".join(dropping) or ("a branch that replaces it by None" if forced_none else "a length / emptiness test")
    ctx.check(okv, "R1", "Header:value-as-parsed", "Header.value is the bracketed text as parsed (empty or not)",
              "the header value passes through %s before it is stored: an empty bracketed value `Name=[]` is loaded as `Name`, the two lines become equal signatures "
              "and the text no longer round-trips" % why, ctx.loc(pb))


def rule_R1_label(ctx):
    """label = type:class:name[:flavor] - class and name end at the next `:`, the flavor is the rest of the line (it may contain `:`)"""
    P = ctx.program
    try:
        pb = P.fn("db_parse::parse_label")
        g = G.parser_grammar(P, pb)
    except AnchorMissing as e:
        ctx.cannot("R1", "Label:grammar", str(e))
        return
    seq = g[1] if g[0] == "seq" else []

    def last_class(x):
        if x[0] == "class":
            return x[1]
        if x[0] in ("opt", "map") and len(x) > 1:
            return last_class(x[1])
        if x[0] == "seq" and x[1]:
            return last_class(x[1][-1])
        return None
    lits = [x[1] for x in seq if x[0] == "lit"]
    okl = len(seq) >= 6 and lits == [":", ":"] and last_class(seq[-1]) == "rest" and last_class(seq[4]) == "until::"
    ctx.check(okl, "R1", "Label:grammar", "type `:` class `:` name [`:` rest-of-line flavor]",
              "the label grammar is %s: the flavor is no longer the whole rest of the line (a flavor containing `:` is cut and the remainder silently discarded by the loader)" % (seq[-1:],), ctx.loc(pb))


def rule_R3(ctx):
    P = ctx.program
    bodies = [b for b in P.bodies.values() if b.kind == "AssocFn" and b.name == "from_str" and (b.impl_trait or "").endswith("str::FromStr")
              and b.crate == "huginn_net_db" and b.file.endswith("db_parse.rs") and "exp" in b.raw["span"]]
    n = 0
    for b in bodies:
        S = T.Slicer(b, P)
        who = (b.impl_self or "").split("::")[-1]
        oks = [(i, j) for i, j, s in b.iter_stmts() if s["k"] == "assign" and s["p"]["l"] == 0 and not s["p"]["pr"]
               and s["r"]["k"] == "agg" and s["r"].get("variant") == "Ok"]
        if not oks:
            ctx.cannot("R3", who, "no Ok(..) return found", ctx.loc(b))
            continue
        n += 1
        good = True
        why = ""
        for (i, j) in oks:
            conds = Q.canon_conds(P, T.controls(b, S, i))
            emp = [c for c in conds if c[0] == "bool" and c[1][0] == "call" and c[1][1].endswith("str>::is_empty") or
                   (c[0] == "bool" and c[1][0] == "call" and "is_empty" in c[1][1])]
            if not emp:
                good = False
                why = "Ok(..) is not conditional on `remaining.is_empty()`"
                continue
            for c in emp:
                rem = T.strip(c[1][2][0])
                # remaining = .0 of the parser's Ok tuple
                from_parser = any("parse_" in x[1] or "db_parse" in x[1] for x in T.calls_in(rem))
                if c[2] is not True or not from_parser:
                    good = False
                    why = "Ok(..) returned when input remains (polarity %s, remaining from parser: %s)" % (c[2], from_parser)
        ctx.check(good, "R3", who, "Ok only under remaining.is_empty()", "FromStr for %s: %s" % (who, why), ctx.loc(b))
    ctx.floor("R3", "impl_from_str! expansions", n, 11)


def rule_R4(ctx):
    P = ctx.program
    b = P.method1("Database", "from_str", "FromStr")
    S = T.Slicer(b, P)
    # Database aggregate: field -> local moved into FingerprintCollection::new
    aggs = Q.aggregates(b, "db::Database")
    if len(aggs) != 1:
        ctx.cannot("R4", "Database-aggregate", "expected one Database{..} construction, found %d" % len(aggs), ctx.loc(b))
        return
    i, j, s = aggs[0]
    fields = s["r"]["fields"]
    field_local = {}
    aliases = {}
    for fname, o in zip(fields, s["r"]["ops"]):
        t = S.operand(o, i, j)
        pl = o.get("m") or o.get("c")
        rl = TB._root_local(b, pl["l"]) if pl is not None and not pl["pr"] else None
        if rl is not None and b.local_name(rl):
            root = rl
        else:
            root = _root_named_local(b, S, t)
        field_local[fname] = root
        alias = _root_named_local(b, S, t)
        if alias is not None:
            aliases[alias] = fname
    want = {"tcp_request": ("tcp", "request"), "tcp_response": ("tcp", "response"),
            "http_request": ("http", "request"), "http_response": ("http", "response")}
    for f in list(want) + ["mtu", "classes", "ua_os"]:
        if field_local.get(f) is None:
            ctx.cannot("R4", "field:" + f, "source local of Database.%s not identified" % f, ctx.loc(b, i))
    loc2field = dict(aliases)
    loc2field.update({v: k for k, v in field_local.items() if v is not None})
    # accumulation: the locals that become Database fields are initialised once, before the line loop, and only grown in place
    lps = C.loops(b)
    inloop = set()
    for blks in lps.values():
        inloop |= set(blks)
    for f in ("classes", "mtu", "ua_os"):
        l = field_local.get(f)
        if l is None:
            continue
        defs = [(db_, dj_) for (db_, dj_, full) in S.defs().get(l, []) if full]
        re_assigned = [d for d in defs if d[0] in inloop]
        ctx.check(len(defs) >= 1 and not re_assigned, "R4", "accumulate:" + f, "Database.%s is initialised once and only appended to while lines are read" % f,
                  "the value that becomes Database.%s is re-assigned for every matching line: of several `%s` lines only the last survives, the earlier ones are silently dropped"
                  % (f, "classes =" if f == "classes" else f), ctx.loc(b, re_assigned[0][0]) if re_assigned else ctx.loc(b))
    # pushes
    pushes = Q.calls(b, "Vec::<T, A>::push")
    seen = {}
    for blk, t in pushes:
        args = Q.call_args(b, S, blk, t)
        recv = args[0]
        tgt = _root_named_local(b, S, recv)
        rp = t["args"][0].get("m") or t["args"][0].get("c")
        if rp is not None and not rp["pr"]:
            rl = TB._root_local(b, rp["l"])
            if b.local_name(rl) and rl in loc2field:
                tgt = rl
        via_last = T.has_call(recv, "last_mut")
        if via_last:
            # receiver is `values` bound from <vec>.last_mut(): find the vector
            lm = [c for c in T.calls_in(recv) if "last_mut" in c[1]]
            tgt = _root_named_local(b, S, lm[0][2][0]) if lm else None
            if lm:
                # the vector last_mut() was called on, by local identity
                lt = b.blocks[lm[0][3]]["t"]
                lp = lt["args"][0].get("m") or lt["args"][0].get("c")
                if lp is not None and not lp["pr"]:
                    rl = TB._root_local(b, lp["l"])
                    if b.local_name(rl) and rl in loc2field:
                        tgt = rl
        fld = loc2field.get(tgt)
        if fld is None:
            continue
        conds = Q.canon_conds(P, T.dom_conds(b, S, blk))
        strs = set()
        for c in conds:
            if c[0] == "cmp" and c[1] == "Eq" and c[4] is True:
                for side in (c[2], c[3]):
                    ss = T.strip(side)
                    if ss[0] == "const" and isinstance(ss[1], str):
                        strs.add(ss[1])
            if c[0] == "bool" and c[1][0] == "call" and c[1][1].endswith("::eq") and c[2] is True:
                for a in c[1][2]:
                    ss = T.strip(a)
                    if ss[0] == "const" and isinstance(ss[1], str):
                        strs.add(ss[1])
        kind = "sig" if via_last else "label"
        seen[(fld, kind)] = (strs, blk)
    n = 0
    for f, (mod, direc) in want.items():
        for kind in ("label", "sig"):
            inst = "%s:%s" % (f, kind)
            if (f, kind) not in seen:
                ctx.fail("R4", inst, "no `%s` line handler appends to the vector that becomes Database.%s" % (kind, f), ctx.loc(b))
                continue
            strs, blk = seen[(f, kind)]
            n += 1
            need = {kind, mod, direc}
            others = {"tcp", "http", "request", "response", "label", "sig"} - need
            ctx.check(need <= strs and not (strs & others), "R4", inst,
                      "guarded by name==%r, module==%r, direction==%r" % (kind, mod, direc),
                      "lines of section [%s:%s] `%s` are routed under string tests %s into Database.%s" % (mod, direc, kind, sorted(strs), f), ctx.loc(b, blk))
    for kind in ("label", "sig"):
        inst = "mtu:" + kind
        if ("mtu", kind) in seen:
            strs, blk = seen[("mtu", kind)]
            ctx.check({kind, "mtu"} <= strs, "R4", inst, "guarded by name==%r, module=='mtu'" % kind,
                      "mtu %s routed under %s" % (kind, sorted(strs)), ctx.loc(b, blk))
            n += 1
        else:
            ctx.fail("R4", inst, "no mtu %s handler" % kind, ctx.loc(b))
    ctx.floor("R4", "section routing handlers", n, 10)
    # error exits: sig without label (x5) and line outside module
    errs = []
    for i2, j2, s2 in b.iter_stmts():
        # (an `Err(..)` built in a helper the loader applies with `?` is the helper's return value first: any local)
        if s2["k"] == "assign" and not s2["p"]["pr"] and s2["r"]["k"] == "agg" and s2["r"].get("variant") == "Err" and "DatabaseError" in str(s2["r"].get("ops")) + str(b.local_ty(s2["p"]["l"])):
            errs.append(i2)
    ctx.check(len(errs) >= 6, "R4", "error-exits", "%d explicit Err exits (sig without label x5, line outside module)" % len(errs),
              "explicit error exits missing: %d found, 6 expected (text that is not a valid database must be rejected)" % len(errs), ctx.loc(b))
    # the `sig without label` exits are on the None side of last_mut()
    nlast = 0
    for e in errs:
        conds = Q.canon_conds(P, T.dom_conds(b, S, e))
        for c in conds:
            if c[0] == "variant" and T.has_call(c[1], "last_mut") and ((c[2] == "None" and c[3]) or (c[2] == "Some" and not c[3])
                                                                         or (c[2] != "Some" and c[3] and c[0] == "variant")):
                nlast += 1
                break
    ctx.check(nlast >= 5, "R4", "sig-without-label", "%d Err exits on last_mut()==None" % nlast,
              "a `sig` line before any `label` is no longer rejected in every section (%d of 5)" % nlast, ctx.loc(b))
    # `?` propagation of parse errors on the tcp/http/mtu arms
    res = [t for _, t in Q.calls(b, "from_residual") if t["dest"]["l"] == 0]
    ctx.check(len(res) >= 10, "R4", "parse-errors-propagate", "%d `?` exits" % len(res),
              "only %d of 10 parse steps propagate their error" % len(res), ctx.loc(b))
    # collections are built from the temp vectors by FingerprintCollection::new
    fc = Q.calls(b, "FingerprintCollection::<OF, DS, K>::new")
    ctx.check(len(fc) == 4, "R4", "collections", "4 FingerprintCollection::new calls", "expected 4 collection constructions, found %d" % len(fc), ctx.loc(b))
    # no reordering / dedup of the temp vectors
    bad = Q.calls(b, ["sort", "dedup", "::reverse", "::retain", "::truncate", "::pop", "swap_remove", "::clear", "::remove"])
    # the collections keep every parsed label, in order: their constructor does not drop / reorder entries either
    fcn = [x for x in P.bodies.values() if x.name == "new" and "FingerprintCollection" in x.path and x.crate == "huginn_net_db"]
    for nb in fcn:
        bad += [(blk2, t2) for blk2, t2 in Q.calls(nb, ["sort", "dedup", "::reverse", "::retain", "::truncate", "::pop", "swap_remove", "::clear", "::remove", "::drain", "::filter"])]
    ctx.check(not bad, "R4", "file-order", "no reordering/removing operation in the loader",
              "loader applies %s to parsed entries" % [T.short(callee_of(t)) for _, t in bad], ctx.loc(b))


def _root_named_local(body, S, term):
    """The user-named local a term ultimately denotes: follows refs/derefs/moves/FingerprintCollection::new(x)."""
    t = term
    for _ in range(20):
        if t[0] in ("ref",):
            t = t[2]
        elif t[0] == "deref":
            t = t[1]
        elif t[0] == "call" and ("FingerprintCollection" in t[1] and t[1].endswith("::new")) and t[2]:
            t = t[2][0]
        elif t[0] == "call" and T.is_identity_call(t[1]) and t[2]:
            t = t[2][0]
        elif t[0] == "field" and t[2] in ("1", 1) and False:
            t = t[1]
        else:
            break
    # a named local that is only mutated in place appears as its initialiser: recover via `mutbase`
    return _local_of_term(body, S, t)


def _local_of_term(body, S, t):
    # The slicer loses the identity of the local; recover it by matching the initialiser term against named locals.
    for l, d in enumerate(body.locals):
        if not d.get("name") or l <= body.arg_count:
            continue
        ds = S.defs().get(l, [])
        fulls = [(b, j) for (b, j, f) in ds if f]
        for (b, j) in fulls:
            if S.def_term(l, b, j, 0) is t or S.def_term(l, b, j, 0) == t:
                # ambiguous initialisers (several `vec![]`) are told apart by the call block id in the term
                return d["name"]
    return None


CHAR_PREDICATES = {
    "is_ascii_alphanumeric": lambda ch: ch.isascii() and ch.isalnum(),
    "is_ascii_alphabetic": lambda ch: ch.isascii() and ch.isalpha(),
    "is_ascii_digit": lambda ch: ch.isascii() and ch.isdigit(),
    "is_ascii_uppercase": lambda ch: ch.isascii() and ch.isupper(),
    "is_ascii_lowercase": lambda ch: ch.isascii() and ch.islower(),
    "is_ascii_punctuation": lambda ch: ch.isascii() and (33 <= ord(ch) <= 47 or 58 <= ord(ch) <= 64 or 91 <= ord(ch) <= 96 or 123 <= ord(ch) <= 126),
    "is_ascii_whitespace": lambda ch: ch in " \t\n\x0c\r",
    "is_ascii_graphic": lambda ch: 33 <= ord(ch) <= 126,
    "is_ascii": lambda ch: ord(ch) < 128,
    "is_alphanumeric": lambda ch: ch.isalnum(),
    "is_alphabetic": lambda ch: ch.isalpha(),
    "is_numeric": lambda ch: ch.isnumeric(),
    "is_whitespace": lambda ch: ch.isspace(),
}


def char_class(P, cb):
    """The set of ASCII characters a `|c: char| -> bool` closure accepts, by evaluating its decision rows for each of the 128 characters
    (std char predicates interpreted by the table above, comparisons with character constants literally); None if not evaluable."""
    from ..engine import decision as D
    rows = D.decision_rows(P, cb)
    if not rows:
        return None

    def ev(t, ch):
        t = T.strip(t)
        if t[0] == "const" and isinstance(t[1], bool):
            return t[1]
        if t[0] == "unop" and t[1] == "Not":
            v = ev(t[2], ch)
            return None if v is None else not v
        if t[0] == "binop" and t[1] in ("Eq", "Ne", "Lt", "Le", "Gt", "Ge"):
            a, b_ = T.strip(t[2]), T.strip(t[3])
            if a[0] == "const":
                a, b_ = b_, a
                op = {"Lt": "Gt", "Gt": "Lt", "Le": "Ge", "Ge": "Le"}.get(t[1], t[1])
            else:
                op = t[1]
            while a[0] in ("deref", "ref"):
                a = T.strip(a[1] if a[0] == "deref" else a[2])
            if a[0] != "param" or b_[0] != "const" or not isinstance(b_[1], str) or len(b_[1]) != 1:
                return None
            x, y = ord(ch), ord(b_[1])
            return {"Eq": x == y, "Ne": x != y, "Lt": x < y, "Le": x <= y, "Gt": x > y, "Ge": x >= y}[op]
        if t[0] == "binop" and t[1] in ("BitOr", "BitAnd"):
            x, y = ev(t[2], ch), ev(t[3], ch)
            if x is None or y is None:
                return None
            return (x or y) if t[1] == "BitOr" else (x and y)
        if t[0] == "call":
            last = t[1].rsplit("::", 1)[-1]
            if last in CHAR_PREDICATES and len(t[2]) == 1:
                return CHAR_PREDICATES[last](ch)
        return None
    acc = set()
    for k in range(128):
        ch = chr(k)
        vals = set()
        for r in rows:
            ok = True
            for c in r.conds:
                if c[0] == "cmp":
                    v = ev(("binop", c[1], c[2], c[3]), ch)
                    want = c[4]
                elif c[0] == "bool":
                    v = ev(c[1], ch)
                    want = c[2]
                else:
                    return None
                if v is None:
                    return None
                if v != want:
                    ok = False
                    break
            if ok:
                rv = ev(r.ret, ch)
                if rv is None:
                    return None
                vals.add(rv)
        if len(vals) != 1:
            return None
        if vals.pop():
            acc.add(ch)
    return acc


def rule_loader_remainders(ctx):
    """R3 (loader): a line of the database is either consumed completely by its line parser or rejected: wherever Database::from_str
    calls a `parse_*` line parser and uses the parsed value, the unparsed remainder (first component of the nom result) is looked at
    too - otherwise the tail of a line the grammar does not cover is silently dropped and the text `loads` with entries missing"""
    P = ctx.program
    b = [x for x in P.bodies.values() if x.name == "from_str" and x.kind == "AssocFn" and (x.impl_self or "").endswith("db::Database")]
    if len(b) != 1:
        ctx.cannot("R3", "loader:remainders", "Database::from_str not found")
        return
    b = b[0]
    S = T.Slicer(b, P)
    calls = [(blk, t) for blk, t in b.calls() if callee_of(t).startswith("huginn_net_db::db_parse::parse_") and "IResult" in b.local_ty(t["dest"]["l"]) or
             (callee_of(t).startswith("huginn_net_db::db_parse::parse_") and "(&str," in b.local_ty(t["dest"]["l"]))]
    # every term the function computes
    terms = []
    for i, j, s in b.iter_stmts():
        if s["k"] == "assign":
            terms.append(S.rvalue(s["r"], i, j))
    for blk, t in b.calls():
        terms.extend(Q.call_args(b, S, blk, t))
    for blk in sorted(b.reachable):
        tt = b.blocks[blk]["t"]
        if tt["k"] == "switch":
            terms.append(S.operand(tt["discr"], blk, len(b.blocks[blk]["s"])))

    def reaches(x, cblk):
        x = T.strip(x)
        while True:
            if x[0] == "call" and x[3] == cblk:
                return True
            if x[0] in ("downcast", "field"):
                x = T.strip(x[1])
            elif x[0] == "call" and x[1].endswith(("::branch", "::map_err", "::ok", "::unwrap", "::expect")) and x[2]:
                x = T.strip(x[2][0])
            elif x[0] in ("ref", "deref", "cast"):
                x = T.strip(x[2] if x[0] in ("ref", "cast") else x[1])
            else:
                return False

    def is_remainder(x, cblk):
        # ((<result> as Ok|Continue).0).0
        if x[0] != "field" or x[2] not in (0, "0"):
            return False
        tup = T.strip(x[1])
        if tup[0] != "field" or tup[2] not in (0, "0"):
            return False
        dc = T.strip(tup[1])
        return dc[0] == "downcast" and dc[2] in ("Ok", "Continue") and reaches(dc, cblk)
    n = 0
    for cblk, t in calls:
        name = callee_of(t).rsplit("::", 1)[-1]
        n += 1
        looked = any(is_remainder(x, cblk) for tm in terms for x in T.walk(tm))
        # a grammar that ends in `rest` consumes the line whatever it contains
        try:
            g = G.parser_grammar(P, P.bodies[callee_of(t)])
            fl = G.flatten(P, g) if g[0] == "seq" else []
            ends_rest = bool(fl) and (fl[-1] == ("class", "rest") or (fl[-1][0] == "opt" and "rest" in str(fl[-1])) or "rest" in str(g[1][-1] if g[0] == "seq" else ""))
        except (AnchorMissing, KeyError, IndexError):
            ends_rest = False
        ctx.check(looked or ends_rest, "R3", "loader:remainder:%s" % name, "the rest of the line after %s is %s" % (name, "checked" if looked else "consumed by the grammar"),
                  "Database::from_str uses the value %s parsed from a line and never looks at what %s left unparsed: a line whose tail the grammar does not cover loads "
                  "with that tail silently dropped" % (name, name), ctx.loc(b, cblk))
    ctx.floor("R3", "line parsers called by Database::from_str", n, 4)


def rule_header_name_class(ctx):
    """R3: every header name the printer can emit for a bundled-style signature is read back: the name class of the header parser contains
    all ASCII letters, digits and `-` (Content-MD5, P3P, X-Forwarded-For ..) and stops at the separators of the signature syntax"""
    import string
    P = ctx.program
    bs = []
    for nm in ("db_parse::parse_header_key_value", "db_parse::parse_http_header"):
        try:
            bs.append(P.fn(nm))
        except AnchorMissing:
            pass
    if not bs:
        raise AnchorMissing("neither parse_header_key_value nor parse_http_header found")
    got = None
    for b in bs:
        S = T.Slicer(b, P)
        for blk, t in Q.calls(b, ["take_while", "take_while1", "take_till", "take_till1"]):
            a = Q.call_args(b, S, blk, t)
            cl = T.strip(a[0])
            pred = None
            if cl[0] == "agg" and cl[1] == "closure" and cl[2] in P.bodies:
                pred = P.bodies[cl[2]]
            elif G._fn_const(cl) in P.bodies:
                pred = P.bodies[G._fn_const(cl)]        # `take_while(is_name_char)`: a named predicate
            if pred is not None:
                cls = char_class(P, pred)
                if cls is not None:
                    if callee_of(t).rsplit("::", 1)[-1].startswith("take_till"):
                        cls = {chr(k) for k in range(128)} - cls
                    got = cls
                    break
        if got is not None:
            break
    if got is None:
        ctx.cannot("R3", "header-name:class", "the character class of header names could not be evaluated", ctx.loc(b))
        return
    need = set(string.ascii_letters + string.digits + "-")
    stop = set(":=,[]?")
    miss = sorted(need - got)
    leak = sorted(stop & got)
    ctx.check(not miss and not leak, "R3", "header-name:class", "header names = letters, digits, `-` (%d characters accepted)" % len(got),
              "the header-name class of the signature parser %s: a header the printer writes (`Content-MD5`, `P3P`) is cut at that character when the text is read "
              "back, so a valid signature line no longer parses to the value that printed it" % (
                  ("lacks %s" % "".join(miss)[:20]) if miss else ("accepts the separator(s) %s" % "".join(leak))), ctx.loc(b))


def rule_grammar_closed(ctx):
    """R1: the signature parsers are built from combinators whose language is known (literals, character classes, sequences,
    alternatives, options, lists, value-building maps).  A combinator that *restricts* what a sub-parser accepted by looking at the
    value (`verify`, `map_opt`, `cond`, `not`, a hand-written parser closure) makes the accepted language smaller than what Display
    can print for a valid value - such a node is reported, the skeleton comparison cannot see it"""
    P = ctx.program

    def opaque(g, acc):
        if isinstance(g, tuple):
            if g and g[0] == "unknown":
                acc.append(str(g[1]))
            for x in g[1:]:
                for y in (x if isinstance(x, list) else [x]):
                    if isinstance(y, (tuple, list)):
                        opaque(y, acc)
        elif isinstance(g, list):
            for y in g:
                opaque(y, acc)
        return acc
    n = 0
    for b in sorted(P.bodies.values(), key=lambda x: x.path):
        if b.crate != "huginn_net_db" or "::db_parse::" not in b.path or b.kind not in ("Fn", "AssocFn"):
            continue
        try:
            g = G.parser_grammar(P, b)
        except AnchorMissing:
            continue
        n += 1
        bad = sorted(set(opaque(g, [])))
        ctx.check(not bad, "R1", "grammar-closed:%s" % T.short(b.path).split("::")[-1], "only combinators with a known language",
                  "%s uses %s, which accepts only part of what its sub-parser read (a value-dependent restriction): text that Display prints for a valid value "
                  "(e.g. a window scale of 15, the `exws` case) is rejected when read back" % (T.short(b.path), ", ".join(bad)), ctx.loc(b))
    ctx.floor("R1", "signature / database line parsers with a recovered grammar", n, 17)


def rule_blank_and_comment_lines(ctx):
    """R3: blank lines and `;` comments are skipped wherever they stand: the test is made on the *trimmed* line (an indented comment, a
    line of blanks only, are still a comment / a blank line - p0f.fp-style files are edited by hand)"""
    P = ctx.program
    bs = [b for b in P.bodies.values() if b.crate == "huginn_net_db" and b.name == "from_str" and "Database" in (b.impl_self or "")]
    if len(bs) != 1:
        ctx.cannot("R3", "loader:blank-comment", "Database::from_str: %d bodies" % len(bs))
        return
    b = bs[0]
    S = T.Slicer(b, P)
    tests = {}
    for blk in sorted(b.reachable):
        be = T.branch_edges(b, S, blk)
        if be is None:
            continue
        for c in Q.canon_cond(P, be[0], True, blk):
            if c[0] != "bool":
                continue
            t = T.strip(c[1])
            if t[0] != "call":
                continue
            last = t[1].rsplit("::", 1)[-1]
            semi = any(x[0] == "const" and x[1] in (";", 59) for x in T.walk(t))
            if last == "is_empty" and "str" in t[1]:
                tests.setdefault("blank", []).append(T.has_call(t, "::trim"))
            elif last == "starts_with" and semi:
                tests.setdefault("comment", []).append(T.has_call(t, "::trim"))
    for k in ("blank", "comment"):
        ctx.check(bool(tests.get(k)) and all(tests[k]), "R3", "loader:%s-line-trimmed" % k, "%s lines are recognised after trimming" % k,
                  "the %s-line test of Database::from_str is %s: an indented comment or a line of blanks is taken for content and the load fails "
                  "(`unexpected line outside the module` / `fail to parse named value`)" % (k, "made on the untrimmed line" if tests.get(k) else "not found"), ctx.loc(b))


def run(ctx):
    rule_blank_and_comment_lines(ctx)
    rule_grammar_closed(ctx)
    rule_loader_remainders(ctx)
    rule_header_name_class(ctx)
    rule_R1_R2(ctx)
    rule_R1_composite(ctx)
    rule_R1_header(ctx)
    rule_R1_label(ctx)
    rule_R3(ctx)
    rule_R4(ctx)
