"""C09 - HTTP stream reassembly is invariant to segmentation, sequence origin and order.

Structural clauses decided:
 R1 segments are ordered by a wrap-aware (modular) comparison of sequence numbers
 R2 concatenation is guarded by a contiguity test (segment sequence vs. expected next sequence)
 R3 a message is reported only while its parsed flag is clear, and the flag is set with the report; `incomplete` is decided by the
    absence of a blank line in the reassembled bytes; pre-check and parser both look at the reassembled stream
 R4 requests are parsed only from the stored client endpoint's bytes, responses only from the server endpoint's; reported
    endpoints pair address and port of one side
 R5 a flow is created only on a SYN for an untracked connection; payload is stored with this segment's sequence number; the
    stored bytes are the IP payload
 C07.R2/R3 a finished flow is removed under the key it is stored with
 C05.R1 / C18.R2 / W.R3 head cut at the earliest blank line, direction-symmetric dispatch, FIFO batches; TW IPv4/IPv6 twins agree
"""
from ..engine import cfg as C
from ..engine import q as Q
from ..engine import tables as TB
from ..engine import terms as T
from ..engine.facts import AnchorMissing, callee_of

EXPLANATION = ("Callee/operator scan of the ordering key of the segment sort and of the concatenation loop in TcpFlow::get_full_data; "
               "dominating conditions of every store into the result package and of the parse calls in process_tcp_packet; "
               "origins of the stored TcpData fields and of the TtlCache insert.")
TRUSTED = ["slice::sort_by_key orders by the key's Ord", "TtlCache semantics"]
DECLINED = ["the invariance itself over all segmentations / arrival orders (needs execution)"]
ASSUMPTIONS = []

HP = "huginn_net_http::http_process::"


def rule_full_data(ctx):
    P = ctx.program
    b = P.method1("TcpFlow", "get_full_data")
    S = T.Slicer(b, P)
    sorts = Q.calls(b, ["sort_by_key", "sort_by", "sort_unstable_by_key", "sort_unstable_by", "sort_by_cached_key"])
    if not sorts:
        ctx.cannot("R1", "get_full_data:order", "no ordering step found (segments must be arranged by sequence number)", ctx.loc(b))
    for blk, t in sorts:
        a = Q.call_args(b, S, blk, t)
        cl = T.strip(a[1])
        modular = False
        reads_seq = False
        casts = []
        keyform = "?"
        if cl[0] == "agg" and cl[1] == "closure" and cl[2] in P.bodies:
            cb = P.bodies[cl[2]]
            for i, j, s in cb.iter_stmts():
                if s["k"] == "assign":
                    r = s["r"]
                    for pl in ([r["p"]] if r["k"] in ("ref",) else []) + ([(r["o"].get("c") or r["o"].get("m"))] if r["k"] == "use" and ("c" in r["o"] or "m" in r["o"]) else []):
                        if pl and any(isinstance(x, dict) and x.get("n") == "sequence" for x in pl["pr"]):
                            reads_seq = True
                    if r["k"] == "cast":
                        casts.append(r["ty"])
            for _, ct in cb.calls():
                n = callee_of(ct)
                if any(k in n for k in ("wrapping_sub", "overflowing_sub", "checked_sub")):
                    modular = True
            # the ordering key as written (part of the finding's identity: another non-modular key is another defect)
            CS = T.Slicer(cb, P)
            rs = TB.return_sites(cb, P)
            if rs:
                kt = T.strip(rs[0][2])
                flds = []
                for x in T.walk(kt):
                    if x[0] == "field" and isinstance(x[2], str) and x[2] not in flds:
                        flds.append(x[2])
                # identity of the ordering key: the fields it reads and the arithmetic applied - not whether it is written as a key
                # function (`sort_by_key(|s| s.sequence)`) or as a comparator (`sort_by(|a, b| a.sequence.cmp(&b.sequence))`)
                keyform = ".".join(flds[:2]) or T.pp(kt)[:30]
                if casts:
                    keyform += " as " + ",".join(casts)
                ops = sorted({x[1] for x in T.walk(kt) if x[0] == "binop"} |
                             ({T.short(x[1]).split("::")[-1] for x in T.calls_in(kt)} - {"cmp", "partial_cmp", "total_cmp", "deref", "borrow", "as_ref"}))
                if ops:
                    keyform += " via " + ",".join(ops)
        ctx.check(reads_seq, "R1", "get_full_data:sort-key", "segments ordered by their sequence field", "sort key does not read TcpData.sequence", ctx.loc(b, blk))
        ctx.check(modular, "R1", "get_full_data:modular-order:key=" + keyform,
                  "ordering key is relative to a base sequence (modular difference)",
                  "segments are ordered by the raw u32 sequence number: when the sequence space wraps inside the stream (ISN within one stream length of 2^32) "
                  "later bytes sort before earlier ones and the head is never parsed", ctx.loc(b, blk))
    # R2 contiguity
    exts = Q.calls(b, ["extend_from_slice", "::extend", "::append"])
    if not exts:
        # `segments.into_iter().for_each(|s| out.extend_from_slice(&s.data))`: the append sits in the closure of a for_each
        from ..engine import lists as L0
        for cb in L0.with_closures(P, b)[1:]:
            CS = T.Slicer(cb, P)
            for blk, t in Q.calls(cb, ["extend_from_slice", "::extend", "::append"]):
                exts.append((blk, t))
                conds = Q.canon_conds(P, T.dom_conds(cb, CS, blk))
                guard = any(c[0] == "cmp" and any(x[0] == "field" and x[2] == "sequence" for y in (c[2], c[3]) for x in T.walk(y)) for c in conds)
                ctx.check(guard, "R2", "get_full_data:contiguity",
                          "each appended segment is compared with the expected next sequence number",
                          "stored segments are concatenated without checking that each one starts where the previous one ended: after out-of-order arrival with a "
                          "missing segment a head is assembled from non-contiguous bytes", ctx.loc(cb, blk))
        if exts:
            exts = [None]
    if exts == [None]:
        exts = []
    elif not exts:
        # the same concatenation as an iterator chain: segments.iter().flat_map(|s| s.data..).collect()  /  .concat()
        from ..engine import lists as L
        lb = L.list_build(P, b)
        chain_ok = lb is not None and lb.form == "chain" and any(n.endswith(("::flat_map", "::flatten")) for n in lb.iterators) and \
            any(x[0] == "field" and x[2] == "data" for (_, _, v) in lb.elements for x in T.walk(v))
        if not chain_ok:
            ctx.cannot("R2", "get_full_data:concat", "concatenation step not found", ctx.loc(b))
        else:
            guard = any(c[0] == "cmp" and any(x[0] == "field" and x[2] == "sequence" for y in (c[2], c[3]) for x in T.walk(y)) for (_, cs) in lb.filters for c in cs)
            ctx.check(guard, "R2", "get_full_data:contiguity",
                      "each appended segment is compared with the expected next sequence number",
                      "stored segments are concatenated without checking that each one starts where the previous one ended: after out-of-order arrival with a "
                      "missing segment a head is assembled from non-contiguous bytes", ctx.loc(b))
    for blk, t in exts:
        conds = Q.canon_conds(P, T.dom_conds(b, S, blk))
        guard = any(c[0] == "cmp" and any(x[0] == "field" and x[2] == "sequence" for x in T.walk(c[2]) ) or
                    (c[0] == "cmp" and any(x[0] == "field" and x[2] == "sequence" for x in T.walk(c[3]))) for c in conds)
        ctx.check(guard, "R2", "get_full_data:contiguity",
                  "each appended segment is compared with the expected next sequence number",
                  "stored segments are concatenated without checking that each one starts where the previous one ended: after out-of-order arrival with a "
                  "missing segment a head is assembled from non-contiguous bytes", ctx.loc(b, blk))
    # R1: what is concatenated is the *ordered* list: the loop (or chain) that appends walks the very vector the sort was applied to -
    # not the stored, arrival-ordered one it was copied from
    sorts = [(sb, st) for sb, st in b.calls() if callee_of(st).rsplit("::", 1)[-1] in
             ("sort_by_key", "sort_by", "sort_unstable_by_key", "sort_unstable_by", "sort", "sort_unstable", "sort_by_cached_key")]
    if sorts:
        sp = sorts[0][1]["args"][0].get("m") or sorts[0][1]["args"][0].get("c")
        sorted_local = _storage_root(b, sp["l"]) if sp is not None else None
        walked = set()
        from ..engine import lists as L1
        for xb in L1.with_closures(P, b)[:1]:
            for ib, it in xb.calls():
                nm_ = callee_of(it)
                if nm_.endswith(("IntoIterator>::into_iter", "::into_iter", "[T]>::iter", "::iter")) and it["args"]:
                    ip = it["args"][0].get("m") or it["args"][0].get("c")
                    if ip is None:
                        continue
                    # only iterations whose items are appended
                    feeds = False
                    for eb, et in Q.calls(b, ["extend_from_slice", "::extend", "::append", "::flat_map", "::for_each", "::concat"]):
                        for y in Q.call_args(b, S, eb, et):
                            # the iteration whose items are appended: the source of the outermost `next()` (or of the chain itself) -
                            # not an iteration further inside that merely built the vector being walked
                            node = None
                            for x in T.walk(y):
                                if x[0] == "call" and (x[1].endswith("::next") or x[1].endswith(("::into_iter", "::iter")) and len(x) > 3):
                                    node = x
                                    break
                            guard_ = 0
                            while node is not None and guard_ < 12:
                                guard_ += 1
                                if node[0] == "call" and node[1].endswith(("::into_iter", "::iter")) and len(node) > 3:
                                    if node[3] == ib:
                                        feeds = True
                                    break
                                nxt = None
                                if node[0] == "call" and node[2]:
                                    nxt = node[2][0]
                                    while nxt[0] in ("ref", "deref"):          # (not T.strip: it looks through into_iter / clone as well)
                                        nxt = nxt[2] if nxt[0] == "ref" else nxt[1]
                                node = nxt if nxt is not None and nxt[0] == "call" else None
                    if feeds:
                        walked.add(_storage_root(b, ip["l"]))
        ctx.check(bool(walked) and walked == {sorted_local}, "R1", "get_full_data:concatenates-sorted", "the appended segments are taken from the sorted vector",
                  "get_full_data sorts `%s` but concatenates %s: segments are joined in arrival order, so a head whose segments were reordered in flight is "
                  "never parsed" % (b.local_name(sorted_local) or "_%s" % sorted_local, sorted((b.local_name(x) or "_%s" % x) for x in walked) or "nothing it can follow"),
                  ctx.loc(b, sorts[0][0]))
    # selects the direction asked for
    sel = {}
    for i, j, s in b.iter_stmts():
        if s["k"] == "assign" and s["r"]["k"] == "ref":
            names = [x.get("n") for x in s["r"]["p"]["pr"] if isinstance(x, dict)]
            for nm in ("client_data", "server_data"):
                if nm in names:
                    for c in Q.canon_conds(P, T.dom_conds(b, S, i)):
                        if c[0] == "bool" and T.strip(c[1])[0] == "param" and T.strip(c[1])[2] == "is_client":
                            sel[nm] = c[2]
    ctx.check(sel == {"client_data": True, "server_data": False}, "R4", "get_full_data:direction", "is_client selects client_data, else server_data",
              "direction selection in get_full_data is %s" % sel, ctx.loc(b))


VIEW_HELPERS = ("http_process::parse_http_request", "http_process::parse_http_response")


def _storage_root(b, l):
    """the named local whose storage a temporary refers to: through `&mut x`, copies, and Deref / DerefMut / as_mut_slice calls"""
    for _ in range(10):
        if b.local_name(l) or 1 <= l <= b.arg_count:
            return l
        ds = [s for (_, _, s) in b.iter_stmts() if s["k"] == "assign" and s["p"]["l"] == l and not s["p"]["pr"]]
        cs = [blk["t"] for blk in b.blocks if blk["t"]["k"] == "call" and blk["t"].get("dest") and blk["t"]["dest"]["l"] == l and not blk["t"]["dest"]["pr"]]
        if len(ds) + len(cs) != 1:
            return l
        if cs:
            nm = callee_of(cs[0]).rsplit("::", 1)[-1]
            p = (cs[0]["args"][0].get("m") or cs[0]["args"][0].get("c")) if cs[0]["args"] else None
            if nm in ("deref", "deref_mut", "as_mut_slice", "as_slice", "as_mut", "as_ref", "borrow_mut", "borrow") and p is not None and not p["pr"]:
                l = p["l"]
                continue
            return l
        r = ds[0]["r"]
        if r["k"] == "ref" and (not r["p"]["pr"] or r["p"]["pr"] == ["*"]):
            l = r["p"]["l"]
            continue
        if r["k"] in ("use", "cast"):
            p = r["o"].get("m") or r["o"].get("c")
            if p is not None and (not p["pr"] or p["pr"] == ["*"]):
                l = p["l"]
                continue
        return l
    return l


def rule_process(ctx):
    P = ctx.program
    # process_tcp_packet is read with its two one-call wrappers (parse_http_request / parse_http_response: `match
    # processors.parse_x(data) { Some(r) => Ok(Some(r)), None => Ok(None) }` plus logging) written out at their calls - the same
    # statements whether the wrappers exist or were folded into the caller
    b = P.inlined_view(HP + "process_tcp_packet", VIEW_HELPERS)
    S = T.Slicer(b, P)

    def endpoint_atoms(conds):
        out = set()
        for c in conds:
            if c[0] in ("cmp", "bool"):
                txt = c[1] if c[0] == "bool" else None
                terms = [c[2], c[3]] if c[0] == "cmp" else [c[1]]
                flds = set()
                prm = set()
                for tt in terms:
                    for x in T.walk(tt):
                        if x[0] == "field" and x[2] in ("client_ip", "client_port", "server_ip", "server_port", "client_http_parsed", "server_http_parsed"):
                            flds.add(x[2])
                        if x[0] == "param" and x[2] in ("src_ip", "dst_ip"):
                            prm.add(x[2])
                        if x[0] == "call" and x[1].endswith("get_source"):
                            prm.add("src_port")
                        if x[0] == "call" and x[1].endswith("get_destination"):
                            prm.add("dst_port")
                pol = c[4] if c[0] == "cmp" else c[2]
                if c[0] == "cmp" and c[1] == "Ne":
                    pol = not pol
                for f in flds:
                    out.add((f, tuple(sorted(prm)), pol))
        return out

    # R3 / R4 stores into the package
    n = 0
    for fld, side, parser in (("http_request", "client", "HttpProcessors::parse_request"), ("http_response", "server", "HttpProcessors::parse_response")):
        # every assignment that can supply ObservableHttpPackage.<fld> of the returned package - written into the field of a package built
        # up front, or into a local of its own from which the package is built at the return
        from ..engine import guards as GV
        stores = []
        for (ai_, aj_, as_) in Q.aggregates(b, "ObservableHttpPackage"):
            if as_["p"]["pr"] or fld not in as_["r"]["fields"]:
                continue
            k_ = as_["r"]["fields"].index(fld)
            for (val_, conds_, (i_, j_)) in GV.assignments_of(P, b, S, {"l": as_["p"]["l"], "pr": [{"f": k_, "n": fld}]}):
                tv_ = T.strip(val_)
                if tv_[0] == "agg" and tv_[3] == "None":
                    continue
                if (i_, j_) not in [(x[0], x[1]) for x in stores]:
                    stores.append((i_, j_, val_, conds_))
        if not stores:
            ctx.cannot("R3", fld + ":store", "no assignment supplying ObservableHttpPackage.%s found" % fld, ctx.loc(b))
            continue
        for (i, j, val, conds) in stores:
            n += 1
            ea = endpoint_atoms(conds)
            flag = "%s_http_parsed" % side
            flag_clear = any(a[0] == flag and a[2] is False for a in ea)
            from_parser = T.has_call(val, parser)
            ctx.check(flag_clear and from_parser, "R3", fld + ":once", "%s reported only while %s is false, value from %s" % (fld, flag, parser),
                      "%s can be reported although %s is already set (or not from %s)" % (fld, flag, parser), ctx.loc(b, i))
            # flag set in the same arm
            setflag = False
            for i2, j2, s2 in b.iter_stmts():
                if s2["k"] == "assign" and any(isinstance(x, dict) and x.get("n") == flag for x in s2["p"]["pr"]) and s2["r"]["k"] == "use" and "k" in s2["r"]["o"]:
                    if T.const_value(s2["r"]["o"]["k"])[1] is True and (i2 == i or (C.dominates(b, i, i2) and C.postdominates(b, i2, i))):
                        setflag = True
            ctx.check(setflag, "R3", fld + ":sets-flag", "%s set together with the report" % flag,
                      "%s is reported without setting %s: the same message would be reported again on the next segment" % (fld, flag), ctx.loc(b, i))
            # R4 endpoint attribution
            ip_ok = any(a[0] == "%s_ip" % side and "src_ip" in a[1] and a[2] for a in ea)
            port_ok = any(a[0] == "%s_port" % side and "src_port" in a[1] and a[2] for a in ea)
            ctx.check(ip_ok and port_ok, "R4", fld + ":attributed", "%s parsed only when the segment's source equals the stored %s endpoint" % (fld, side),
                      "%s is not conditioned on src == flow.%s_ip/port (atoms %s)" % (fld, side, sorted(ea)), ctx.loc(b, i))
            # the bytes parsed are the stream of that direction: get_full_data(is_client) after pushing into <side>_data
            ctx.check(T.has_call(val, "get_full_data"), "R4", fld + ":bytes", "parsed bytes = flow.get_full_data(..)", "parsed bytes are not the reassembled stream", ctx.loc(b, i))
    ctx.floor("R3", "report sites", n, 2)
    # pushes: which vector under which endpoint condition; stored sequence/payload of this segment
    for blk, t in Q.calls(b, "Vec::<T, A>::push"):
        a = Q.call_args(b, S, blk, t)
        flds = [x[2] for x in T.walk(a[0]) if x[0] == "field" and x[2] in ("client_data", "server_data")]
        if not flds:
            continue
        side = flds[0].split("_")[0]
        ea = endpoint_atoms(Q.canon_conds(P, T.dom_conds(b, S, blk)))
        ok = any(x[0] == "%s_ip" % side and "src_ip" in x[1] and x[2] for x in ea)
        v = T.strip(a[1])
        seq_ok = pay_ok = False
        if v[0] == "agg" and (v[2] or "").endswith("TcpData"):
            seq_ok = T.has_call(v[4][0], "get_sequence")
            pay_ok = T.has_call(v[4][1], "::payload")
        ctx.check(ok and seq_ok and pay_ok, "R5", "store:%s" % flds[0], "segment (seq, payload) stored in %s only when src is the %s endpoint" % (flds[0], side),
                  "segment stored in %s under %s with seq=%s payload=%s" % (flds[0], sorted(ea), seq_ok, pay_ok), ctx.loc(b, blk))
    # R2: every payload-carrying segment of a tracked connection is stored: a path through process_tcp_packet that stores nothing is
    # explained by `no such flow`, `no payload`, `not from either endpoint` or `this direction is already parsed` - never by anything else
    # (a FIN / PSH flag, a length, the position of the segment)
    from ..engine import paths as PA
    store_blocks = set()
    for blk, t in Q.calls(b, "Vec::<T, A>::push"):
        a = Q.call_args(b, S, blk, t)
        if any(x[0] == "field" and x[2] in ("client_data", "server_data") for x in T.walk(a[0])):
            store_blocks.add(blk)
    # (paths are followed up to the first store: what happens after it - parsing, reporting - does not matter here)
    trails, trunc = PA.enumerate_paths(b, 0, 8000, stop=set(store_blocks))
    unexplained = None
    nskip = 0
    for tr in trails:
        if store_blocks & set(tr):
            continue
        nskip += 1
        pc = [Q._norm_cmp(c) for c in PA.path_conds(P, b, S, tr)]
        if PA.contradicts_constants(pc):
            continue
        excused = False
        for c in pc:
            if c[0] in ("variant", "variant_in") and (c[2] == "None" or (isinstance(c[2], tuple) and "None" in c[2])) and c[3] is True and \
                    (T.has_call(c[1], "get_mut") or T.has_call(c[1], "::get") or any(x[0] == "call" and "TtlCache" in x[1] for x in T.walk(c[1]))):
                excused = True          # untracked connection
            if c[0] == "bool" and c[2] is True and T.has_call(c[1], "is_empty") and T.has_call(c[1], "::payload"):
                excused = True          # no payload
            if c[0] == "cmp" and c[1] == "Eq" and T.fold_int(c[3]) == 0 and T.has_call(c[2], "::len") and T.has_call(c[2], "::payload"):
                excused = True
            if c[0] == "cmp" and c[1] == "Ne" and any(x[0] == "field" and x[2] in ("client_ip", "client_port", "server_ip", "server_port") for y in (c[2], c[3]) for x in T.walk(y)):
                excused = True          # not from that endpoint
            if c[0] == "bool" and c[2] is True and any(x[0] == "field" and x[2] in ("client_http_parsed", "server_http_parsed") for x in T.walk(c[1])):
                excused = True          # direction already reported
        if not excused:
            unexplained = [c[0] + ":" + (T.pp(c[2] if c[0] == "cmp" else c[1])[:50]) + ("=" + str(c[1] if c[0] == "cmp" else c[2])) for c in pc if c[0] in ("cmp", "bool", "variant")][-4:]
            break
    ctx.check(unexplained is None and not trunc and nskip > 0, "R2", "process_tcp_packet:segments-stored",
              "a segment is not stored only when untracked / empty / foreign / already parsed (%d non-storing paths examined)" % nskip,
              "a payload-carrying segment of a tracked connection can pass through process_tcp_packet without being stored, under %s: data carried by such a segment "
              "(a FIN-piggybacked tail of the head) never reaches reassembly and the message is not reported" % unexplained, ctx.loc(b))
    # R5 flow creation - read on process_tcp_packet with TcpFlow::init written out at its call (the same statements whether the
    # constructor helper exists or the struct literal stands at the insert)
    v = P.inlined_view(b.path, ("TcpFlow::init",))
    VS = T.Slicer(v, P)
    ins = [(blk, t) for blk, t in Q.calls(v, "::insert") if "TtlCache" in callee_of(t)]
    if len(ins) != 1:
        ctx.cannot("R5", "flow-insert", "expected one flow insert, found %d" % len(ins), ctx.loc(b))
        return
    iblk, it = ins[0]
    conds = Q.canon_conds(P, T.dom_conds(v, VS, iblk))
    syn = False
    untracked = False
    for c in conds:
        if c[0] == "cmp":
            x = T.strip(c[2])
            if x[0] == "binop" and x[1] == "BitAnd" and T.has_call(x, "get_flags") and T.fold_int(x[3]) == 2 and T.fold_int(c[3]) == 0:
                syn = (c[1] == "Ne") == c[4]
        if c[0] == "variant" and ((c[2] == "None" and c[3]) or (c[2] == "Some" and not c[3])):
            untracked = True
    ia = Q.call_args(v, VS, iblk, it)
    flow = T.strip(ia[2])
    is_flow = flow[0] == "agg" and (flow[2] or "").endswith("TcpFlow")
    m = {}
    if is_flow:
        names = [f["name"] for f in P.adt("huginn_net_http::http_process::TcpFlow")["variants"][0]["fields"]]
        m = dict(zip(names, flow[4]))

    def _is_param(t_, nm):
        t_ = T.strip(t_)
        return t_[0] == "param" and t_[2] == nm
    init_ok = is_flow and _is_param(m["client_ip"], "src_ip") and _is_param(m["server_ip"], "dst_ip") and \
        T.has_call(m["client_port"], "get_source") and T.has_call(m["server_port"], "get_destination")
    ctx.check(syn and untracked and init_ok, "R5", "flow-insert", "flow created on SYN for an untracked connection, client = sender of the SYN",
              "flow creation: syn=%s untracked=%s init(src as client)=%s" % (syn, untracked, init_ok), ctx.loc(b, iblk if iblk < len(b.blocks) else None))
    if is_flow:
        okk = init_ok and not T.has_call(m["client_port"], "get_destination") and not T.has_call(m["server_port"], "get_source") and \
            T.strip(m["client_http_parsed"])[0] == "const" and T.strip(m["client_http_parsed"])[1] is False and \
            T.strip(m["server_http_parsed"])[0] == "const" and T.strip(m["server_http_parsed"])[1] is False
        ctx.check(okk, "R5", "TcpFlow::init", "client = (src), server = (dst), flags clear", "the new flow is built with roles %s" % {k: T.pp(x)[:40] for k, x in m.items()},
                  ctx.loc(b))
        # the first segment (the SYN, which may carry data: TCP Fast Open) is part of the client stream whatever it contains
        # (`vec![x]` writes x through a raw pointer, so the element is not visible in the vector's origin term: the segment value built
        # from this packet must be moved on a block every path to the insert passes through, and nothing between the two decides it)
        segs = Q.aggregates(v, "TcpData")
        first_kept = False
        cond_free = False
        if len(segs) >= 1:
            # the TcpData built on the way to the insert
            cands = [(i_, j_, s_) for (i_, j_, s_) in segs if C.dominates(v, i_, iblk)]
            if len(cands) == 1:
                si, sj, ss = cands[0]
                roots = {ss["p"]["l"]}
                use_blocks = set()
                changed = True
                while changed:
                    changed = False
                    for bi_ in sorted(v.reachable):
                        blk_ = v.blocks[bi_]
                        for s_ in blk_["s"]:
                            r_ = s_.get("r") or {}
                            ops_ = [r_.get(k_) for k_ in ("o", "a", "b") if isinstance(r_.get(k_), dict)] + list(r_.get("ops") or [])
                            for o_ in ops_:
                                p_ = o_.get("m") or o_.get("c")
                                if p_ is not None and p_["l"] in roots and not p_["pr"]:
                                    if r_.get("k") == "use" and not s_["p"]["pr"] and s_["p"]["l"] not in roots:
                                        roots.add(s_["p"]["l"])
                                        changed = True
                                    elif r_.get("k") != "use":
                                        use_blocks.add(bi_)
                        if blk_["t"]["k"] == "call":
                            for o_ in blk_["t"]["args"]:
                                p_ = o_.get("m") or o_.get("c")
                                if p_ is not None and p_["l"] in roots and not p_["pr"]:
                                    use_blocks.add(bi_)
                use_blocks.discard(si)
                first_kept = bool(use_blocks) and all(C.dominates(v, u_, iblk) or u_ == iblk for u_ in use_blocks)
                before = Q.canon_conds(P, T.dom_conds(v, VS, si))
                cond_free = not [c for c in conds if c[0] in ("bool", "cmp") and c not in before]
        ctx.check(first_kept and cond_free, "R2", "TcpFlow::init:first-segment", "client_data starts with the opening segment, unconditionally",
                  "the new flow does not always keep the opening segment (client_data = %s): request bytes carried by the SYN are lost and the rebuilt stream starts "
                  "mid-head" % T.pp(m["client_data"])[:60], ctx.loc(b))


def rule_flow_keys(ctx):
    """a finished connection is removed under the key it is stored with, so a new connection on the same 4-tuple starts a new flow
    (shared with C07.R2/R3)"""
    from ..engine import report as R
    from . import C07
    C07.rule_R2_R3(R.Retag(ctx, "C07."))


def rule_completeness(ctx):
    """R3: a message is parsed only when its head is complete: `not yet` (Ok(None)) is decided by the absence of a blank line
    (CRLF CRLF / LF LF) in the bytes reassembled so far - not by where a segment happens to end; the completeness pre-check and the
    parser both look at the reassembled stream of that direction"""
    P = ctx.program
    for fn in ("parse_request", "parse_response"):
        b = P.method1("Http1Parser", fn)
        S = T.Slicer(b, P)
        found = False
        for (rb, j, term, _c) in TB.return_sites(b, P):
            tt = T.strip(term)
            if not (tt[0] == "agg" and tt[3] == "Ok" and tt[4] and T.strip(tt[4][0])[0] == "agg" and T.strip(tt[4][0])[3] == "None"):
                continue
            conds = Q.canon_conds(P, T.dom_conds(b, S, rb))
            pats = {}
            for c in conds:
                if c[0] == "bool" and c[1][0] == "call" and c[1][1].endswith("::contains"):
                    lits = [x[1] for x in T.walk(c[1]) if x[0] == "const" and isinstance(x[1], str)]
                    for l in lits:
                        pats[l] = c[2]
            if pats:
                found = True
                ok = pats.get("\r\n\r\n") is False and pats.get("\n\n") is False and len(pats) == 2
                ctx.check(ok, "R3", fn + ":incomplete-iff-no-blank-line", "Ok(None) exactly when neither CRLFCRLF nor LFLF is present",
                          "`incomplete` is decided by %s" % pats, ctx.loc(b, rb))
        if not found:
            ctx.fail("R3", fn + ":incomplete-iff-no-blank-line",
                     "%s no longer decides `head incomplete` by searching the reassembled bytes for a blank line (CRLF CRLF / LF LF): a head cut right after a line end can be "
                     "taken for complete and reported with the headers seen so far" % fn, ctx.loc(b))
    pb = P.inlined_view(HP + "process_tcp_packet", VIEW_HELPERS)
    SP = T.Slicer(pb, P)
    n = 0
    for blk, t in pb.calls():
        nm = callee_of(t).rsplit("::", 1)[-1]
        if nm == "has_complete_http_data" or callee_of(t).endswith(("HttpProcessors::parse_request", "HttpProcessors::parse_response")):
            a = Q.call_args(pb, SP, blk, t)
            n += 1
            ctx.check(any(T.has_call(x_, "get_full_data") for x_ in a), "R3", "process_tcp_packet:%s:input@%d" % (nm, n), "%s looks at the reassembled bytes of the direction" % nm,
                      "%s is given %s, not the reassembled stream: whether a message is reported depends on how it was cut into segments" % (nm, T.pp(T.strip(a[0]))[:60]),
                      ctx.loc(pb, blk))
    ctx.floor("R3", "completeness / parse calls in process_tcp_packet", n, 4)


def rule_segments(ctx):
    """R4/R5: stored bytes are the TCP payload bounded by the IP length; reported endpoints pair address and port of one side"""
    from . import _endpoints as E
    E.tcp_from_payload(ctx, ctx.program, "R5", ("huginn_net_http",))
    E.ipport_pairing(ctx, ctx.program, "R4", ("huginn_net_http",))


def rule_shared(ctx):
    """whether a message is reported must not depend on which segment carries body bytes (C05.R1 head cut at the earliest blank line),
    nor - in parallel mode - on the direction of a packet (C18.R2 symmetric dispatch) or on batching (FIFO)"""
    from ..engine import report as R
    from . import C05, C18
    from . import _workers as W
    C05.rule_R1(R.Retag(ctx, "C05."))
    C18.rule_R2(R.Retag(ctx, "C18."))
    W.fifo_batch(ctx, ctx.program, "huginn_net_http", "http", "W.R3")


def rule_twins(ctx):
    """the IPv4 and IPv6 copies of the per-packet functions route sides, roles and lookups identically (shared rule TW)"""
    from . import _twins as TW
    TW.twin_agreement(ctx, ctx.program, "TW", ("huginn_net_http",), floor=4)


def rule_flow_lifetime(ctx):
    """R5: an HTTP flow outlives the gaps between the segments of one message: whole-second lifetime (shared rule _ttl)"""
    from . import _ttl
    _ttl.cache_ttls(ctx, ctx.program, "R5", ("huginn_net_http",), 1)


def rule_capture_loops(ctx):
    """every request / response of the trace is looked at: the HTTP analyzer's capture loops end only with the source, the cancel
    signal or a closed result channel - not with a packet the analyzer rejects (shared rule _workers.capture_loop_exits)"""
    from . import _workers as W
    W.capture_loop_exits(ctx, ctx.program, "W.R7")


def run(ctx):
    rule_capture_loops(ctx)
    rule_flow_lifetime(ctx)
    rule_twins(ctx)
    rule_shared(ctx)
    rule_completeness(ctx)
    rule_segments(ctx)
    rule_flow_keys(ctx)
    rule_full_data(ctx)
    rule_process(ctx)
