"""C02 - Best match equals the optimum of a full scan (index is transparent).

Structural clauses decided:
 R1 wildcard key expansion constructs every concrete variant of the key enum; with several wildcard-bearing key fields the
    stored keys are the cartesian product of the expansions (nested plain iterations, no zip/cycle/take)
 R2 key fields read the same (decisive) field on the observation and the signature side
 R3 the string key is computed by the same recipe on both sides
 R4 strict-< running minimum over forward iteration; index built append-only in (label, sig) order with positions counted
    directly over `entries` (no filter/skip between iter() and enumerate())
 R5 reported quality is computed from the running minimum, through the score table of the signature's own protocol in
    every impl of DatabaseSignature
 R6 None is returned exactly when no candidate was accepted
 shared: C12.R11 (list-valued components compared as whole lists - the distance function accepts nothing the exact-string key separates),
 C13.R2 (request / response observations are looked up in their own collections)
"""
from ..engine import cfg as C
from ..engine import q as Q
from ..engine import tables as TB
from ..engine import terms as T
from ..engine.facts import AnchorMissing, callee_of

EXPLANATION = ("MIR-level structural rules over FingerprintCollection::{new,find_best_match}, the index-key generators of "
               "observations and signatures and the distance functions: set comparison of enum variants constructed under the "
               "wildcard branch vs. the enum's variants (ADT facts), origin slices of key fields, control-dependence of the "
               "running-minimum update on a strict less-than, append-only index construction.")
TRUSTED = ["std HashMap::get/entry/or_insert_with, Vec::push/iter/enumerate semantics", "rustc MIR construction",
           "hn-facts serialisation"]
DECLINED = ["equality with a full scan for arbitrary databases (needs execution)", "observations no analyzer emits (version: Any)"]
ASSUMPTIONS = ["the wildcard variant of a key enum is the one named `Any` (checked to be the variant tested in the generator)"]

WILDCARD = "Any"


def _sig_type_of(body):
    st = body.impl_self
    if st is None:
        raise AnchorMissing("no impl self type for " + body.path)
    return st.split("<")[0]


def _ret_key_adt(program, body):
    ret = body.locals[0]["ty"]
    # Vec<K> or K
    inner = ret
    if "Vec<" in ret:
        inner = ret[ret.index("Vec<") + 4:].rstrip(">").strip()
    if inner not in program.adts:
        raise AnchorMissing("key type of %s not a workspace struct: %r" % (body.path, ret))
    return inner


def _enum_fields(program, adt_path):
    out = []
    adt = program.adt(adt_path)
    for f in adt["variants"][0]["fields"]:
        ty = f["ty"]
        if ty in program.adts and program.adts[ty]["kind"] == "enum":
            out.append((f["name"], ty))
    return out


def _fields_of_type(program, adt_path, ty):
    adt = program.adt(adt_path)
    return [f["name"] for f in adt["variants"][0]["fields"] if f["ty"] == ty]


def _variants_constructed(program, body, blocks, enum_path):
    found = set()
    for i, j, s in Q.aggregates(body, enum_path, blocks):
        found.add(s["r"]["variant"])
    # constants of the enum type (promoted arrays / refs)
    S = T.Slicer(body, program)
    for i, j, s in body.iter_stmts():
        if i not in blocks or s["k"] != "assign":
            continue
        r = s["r"]
        ops = []
        if r["k"] == "use":
            ops = [r["o"]]
        elif r["k"] == "agg":
            ops = r["ops"]
        for o in ops:
            if "k" in o:
                ct = T.const_value(o["k"])
                v = T.enum_variant_of_const(program, ct)
                ty = (o["k"].get("ty") or "")
                if v is not None and enum_path in ty:
                    found.add(v)
                elif enum_path in ty and "[" in ty:
                    # array constant of the enum: decode each byte as a discriminant (field-less enums are 1 byte)
                    raw = ct[1]
                    if isinstance(raw, tuple) and raw and raw[0] == "raw":
                        raw = raw[1]
                    if isinstance(raw, (bytes, bytearray)):
                        adt = program.adts[enum_path]
                        for byte in raw:
                            for var in adt["variants"]:
                                if var["discr"] == byte:
                                    found.add(var["name"])
    return found


def rule_R1_R2(ctx):
    P = ctx.program
    gens = [b for b in P.bodies.values()
            if b.kind == "AssocFn" and b.name == "generate_index_keys_for_db_entry" and (b.impl_trait or "").endswith("DatabaseSignature")]
    ctx.floor("R1", "db-side key generators (impls of DatabaseSignature::generate_index_keys_for_db_entry)", len(gens), 3)
    n_enum_fields = 0
    seen_keyfields = set()
    for g in gens:
        sig_ty = _sig_type_of(g)
        key_adt = _ret_key_adt(P, g)
        closure = Q.callgraph_closure(P, g, depth=3)
        for (kf, ety) in _enum_fields(P, key_adt):
            evars = P.variants(ety)
            inst = "%s.%s<-%s" % (key_adt.split("::")[-1], kf, sig_ty.split("::")[-1])
            inst0 = inst
            if WILDCARD not in evars:
                ctx.ok("R1", inst, "enum %s has no wildcard variant; nothing to expand" % ety)
                continue
            n_enum_fields += 1
            sig_fields = _fields_of_type(P, sig_ty, ety)
            hit = None
            for b in closure:
                S = T.Slicer(b, P)
                for blk in sorted(b.reachable):
                    be = T.branch_edges(b, S, blk)
                    if be is None:
                        continue
                    atom, labels = be
                    for succ, lab in labels.items():
                        for c in Q.canon_cond(P, atom, lab, blk):
                            if c[0] == "variant" and c[2] == WILDCARD and c[3] is True:
                                fp = Q.field_path(c[1])
                                if fp and fp[0] == 0 and fp[1] and fp[1][-1] in sig_fields:
                                    # is the tested place of the right enum type?  field name decides
                                    hit = (b, blk, succ, fp[1][-1])
                    if hit:
                        break
                if hit:
                    break
            if not hit:
                ctx.cannot("R1", inst, "no branch testing `self.<%s> == %s::%s` found in %s (wildcard expansion not recognised)"
                           % ("|".join(sig_fields), ety.split("::")[-1], WILDCARD, g.path), ctx.loc(g))
                continue
            b, blk, succ, fname = hit
            if (inst0, b.path, blk) in seen_keyfields:
                continue
            seen_keyfields.add((inst0, b.path, blk))
            reg = Q.region(b, blk, succ)
            constructed = _variants_constructed(P, b, reg, ety)
            expected = set(evars) - {WILDCARD}
            missing = sorted(expected - constructed)
            extra = sorted(constructed - expected)
            key = "%s:%s" % (inst, g.impl_trait.split("::")[-1] if g.impl_trait else "")
            if missing:
                ctx.fail("R1", inst + ":missing=" + ",".join(missing),
                         "wildcard `%s` of signature field `%s` is expanded to {%s} but enum %s also has {%s}: an observation "
                         "with that value never finds a wildcard signature through the index although the distance function accepts it"
                         % (WILDCARD, fname, ",".join(sorted(constructed)), ety, ",".join(missing)), ctx.loc(b, blk))
            elif extra:
                ctx.fail("R1", inst + ":extra=" + ",".join(extra),
                         "wildcard expansion stores the wildcard variant itself as a key", ctx.loc(b, blk))
            else:
                ctx.ok("R1", inst, "self.%s==%s expands to {%s} = variants(%s)\\{%s}" % (
                    fname, WILDCARD, ",".join(sorted(constructed)), ety.split("::")[-1], WILDCARD), ctx.loc(b, blk))
            # R2 (db side): the non-wildcard branch reads the same field
            other = [s for s in b.succs(blk) if s != succ]
            reg_else = set()
            for s in other:
                reg_else |= Q.region(b, blk, s)
            S = T.Slicer(b, P)
            reads = False
            for i, j, s in b.iter_stmts():
                if i in reg_else and s["k"] == "assign":
                    t = S.rvalue(s["r"], i, j)
                    if Q.mentions_field(t, 0, fname):
                        reads = True
            ctx.check(reads, "R2", inst + ":db-side", "non-wildcard branch keys on self.%s" % fname,
                      "non-wildcard branch of the key generator does not read self.%s" % fname, ctx.loc(b, blk))
            # R2 (observation side): generate_index_key reads the like-named field of the observation
            _check_obs_side(ctx, P, key_adt, kf, fname, sig_ty, inst)
            # R2 decisive: calculate_distance has a None-capable component over that field
            _check_decisive(ctx, P, g, fname, inst)
    ctx.floor("R1", "key fields of wildcard-bearing enum type (IpVersion, PayloadSize, http::Version)", n_enum_fields, 3)
    n_prod = 0
    for g in gens:
        n_prod += _rule_product(ctx, P, g)
    ctx.floor("R1", "key generators with two or more wildcard-bearing fields (cartesian product required)", n_prod, 1)


ITER_PLAIN = ("::next", "::into_iter", "::iter", "::deref", "::as_slice", "::clone", "::copied", "::cloned", "::as_ref", "::borrow",
              "::from_elem", "::into_vec", "::new", "::box_new", "::from", "::into", "::new_uninit", "::write_via_move", "::box_assume_init_into_vec_unsafe", "::write")
ITER_ADAPTERS = ("::zip", "::cycle", "::take", "::skip", "::step_by", "::filter", "::take_while", "::skip_while", "::rev", "::chain",
                 "::filter_map", "::nth", "::last", "::peekable", "::scan", "::map_while", "::dedup", "::windows", "::chunks")


def _rule_product(ctx, P, g):
    """R1 (product): when the key has several wildcard-bearing fields, the stored keys must be the cartesian product of the
    per-field expansions: the key aggregate sits inside one loop per such field, the loops are nested, each is a plain
    slice iteration (no zip / cycle / take ...) over a vector of that field's type."""
    key_adt = _ret_key_adt(P, g)
    sig_ty = _sig_type_of(g)
    fields = [(kf, ety) for (kf, ety) in _enum_fields(P, key_adt) if WILDCARD in P.variants(ety)]
    if len(fields) < 2:
        return 0
    inst = "%s<-%s:product" % (key_adt.split("::")[-1], sig_ty.split("::")[-1])
    names = [f["name"] for f in P.adt(key_adt)["variants"][0]["fields"]]
    S = T.Slicer(g, P)
    aggs = list(Q.aggregates(g, key_adt, None))
    if not aggs:
        return _rule_product_iter(ctx, P, g, key_adt, fields, names, inst)
    loops = C.loops(g)
    okall = True
    why = ""
    for (i, j, st) in aggs:
        t = S.rvalue(st["r"], i, j)
        per_field = {}
        for (kf, ety) in fields:
            op = t[4][names.index(kf)]
            nexts = [c for c in T.calls_in(op) if c[1].endswith("::next")]
            if len(nexts) != 1:
                okall, why = False, "field %s is not the item of exactly one iteration (%d iterator items in its origin)" % (kf, len(nexts))
                break
            bad = sorted({T.short(c[1]) for c in T.calls_in(nexts[0]) if c[1].endswith(ITER_ADAPTERS)})
            if bad:
                okall, why = False, "field %s iterates through %s: not every combination of expanded values is stored" % (kf, ",".join(bad))
                break
            nb = nexts[0][3]
            mine = [h for h, blks in loops.items() if nb in blks and i in blks]
            if not mine:
                okall, why = False, "key is not built inside the loop over the expansion of %s" % kf
                break
            # innermost loop containing both the next() call and the aggregate
            h = min(mine, key=lambda x: len(loops[x]))
            per_field[kf] = (h, nb, ety)
        if not okall:
            break
        hs = [v[0] for v in per_field.values()]
        if len(set(hs)) != len(hs):
            okall, why = False, "fields %s take their values from the same loop (pairwise, not cartesian)" % ",".join(per_field)
            break
        order = sorted(hs, key=lambda x: len(loops[x]))
        nested = all(loops[order[k]] < loops[order[k + 1]] for k in range(len(order) - 1))
        if not nested:
            okall, why = False, "the loops over the expansions are not nested"
            break
        # the inner loops restart for every outer item: their iterator is created inside the enclosing loop
        for k in range(len(order) - 1):
            inner_h = order[k]
            outer = loops[order[k + 1]]
            inner_next = [v[1] for v in per_field.values() if v[0] == inner_h][0]
            recv = g.blocks[inner_next]["t"]["args"][0]
            pl = recv.get("m") or recv.get("c")
            root = TB._root_local(g, pl["l"]) if pl else None
            defs = [db for (db, dj, full) in S.defs().get(root, [])] if root is not None else []
            if not defs or not all(d in outer for d in defs):
                okall, why = False, "the inner iteration is not restarted for every outer value"
        if not okall:
            break
    ctx.check(okall, "R1", inst, "keys = nested plain iteration over the expansions of %s (cartesian product)" % ", ".join(k for k, _ in fields),
              "stored keys are not the cartesian product of the per-field wildcard expansions: " + why +
              "; a signature with several wildcards is then invisible to some observations the distance function accepts", ctx.loc(g))
    return 1


def _payload_depth(t, depth=0):
    """(payload node, number of closure captures between the value and the closure parameter it comes from)"""
    out = []
    if t[0] == "payload":
        return [(t, depth)]
    if t[0] == "upvar":
        return _payload_depth(t[2], depth + 1)
    for c in t[1:]:
        if isinstance(c, tuple):
            if c and isinstance(c[0], str):
                out += _payload_depth(c, depth)
            else:
                for x in c:
                    if isinstance(x, tuple) and x and isinstance(x[0], str):
                        out += _payload_depth(x, depth)
    return out


def _rule_product_iter(ctx, P, g, key_adt, fields, names, inst):
    """The cartesian product written with iterator adapters:  xs.iter().flat_map(|x| ys.iter().map(|y| Key { x, y })).collect().
    The key aggregate sits in a closure; each wildcard-bearing field must be the item of its own plain iteration, the iterations
    are nested closures (the inner iterator is created inside the outer closure, i.e. restarted for every outer item), every
    level but the innermost is a flat_map, and the function returns the collected outer flat_map."""
    sites = []
    for cb in Q.callgraph_closure(P, g, depth=4):
        if cb.kind != "Closure" or not cb.path.startswith(g.path + "::"):
            continue
        SC = T.Slicer(cb, P)
        for (i, j, st) in Q.aggregates(cb, key_adt, None):
            sites.append((cb, i, T.expand_upvars(P, cb, SC.rvalue(st["r"], i, j), depth=6)))
    if not sites:
        ctx.cannot("R1", inst, "key construction (aggregate of %s) not found in %s or its closures" % (key_adt, g.path), ctx.loc(g))
        return 1
    okall, why = True, ""
    for (cb, i, t) in sites:
        per = {}
        for (kf, ety) in fields:
            op = t[4][names.index(kf)]
            pls = _payload_depth(op)
            if len(pls) != 1:
                okall, why = False, "field %s is not the item of exactly one iteration (%d iterator items in its origin)" % (kf, len(pls))
                break
            pl, d = pls[0]
            bad = sorted({T.short(c[1]) for r in pl[2] for c in T.calls_in(r) if c[1].endswith(ITER_ADAPTERS)})
            if bad:
                okall, why = False, "field %s iterates through %s: not every combination of expanded values is stored" % (kf, ",".join(bad))
                break
            per[kf] = (pl[1], d)
        if not okall:
            break
        ds = sorted(per.values(), key=lambda x: x[1])
        if len({d for _, d in ds}) != len(ds):
            okall, why = False, "fields %s take their values from the same iteration (pairwise, not cartesian)" % ",".join(per)
            break
        if not ds[0][0].endswith(("::map", "::flat_map")) or not all(h.endswith("::flat_map") for h, _ in ds[1:]):
            okall, why = False, "the nested iterations are %s: outer levels must be flat_map, the innermost map" % [T.short(h) for h, _ in ds]
            break
    if okall:
        rets = [T.strip(t) for (_, _, t, _) in TB.return_sites(g, P)]
        outer = cb.path.rsplit("::{closure#", len(fields) - 1)[0] if len(fields) > 1 else cb.path
        good = [r for r in rets if r[0] == "call" and r[1].endswith("::collect") and
                any(c[1].endswith("::flat_map") and any(T.strip(a)[0] == "agg" and T.strip(a)[2] == outer for a in c[2]) for c in T.calls_in(r)) and
                not any(c[1].endswith(ITER_ADAPTERS) for c in T.calls_in(r))]
        if len(good) != len(rets) or not rets:
            okall, why = False, "the function does not return the collected product iterator"
    ctx.check(okall, "R1", inst, "keys = flat_map/map nest over the expansions of %s (cartesian product)" % ", ".join(k for k, _ in fields),
              "stored keys are not the cartesian product of the per-field wildcard expansions: " + why +
              "; a signature with several wildcards is then invisible to some observations the distance function accepts", ctx.loc(g))
    return 1


def _obs_generators(P, key_adt):
    out = []
    for b in P.bodies.values():
        if b.kind == "AssocFn" and b.name == "generate_index_key" and (b.impl_trait or "").endswith("ObservedFingerprint"):
            if b.locals[0]["ty"] == key_adt:
                out.append(b)
    return out


def _check_obs_side(ctx, P, key_adt, kf, fname, sig_ty, inst):
    obs = _obs_generators(P, key_adt)
    if not obs:
        ctx.cannot("R2", inst + ":obs-side", "no ObservedFingerprint::generate_index_key returning %s" % key_adt)
        return
    for ob in obs:
        S = T.Slicer(ob, P)
        aggs = Q.aggregates(ob, key_adt)
        if not aggs:
            ctx.cannot("R2", inst + ":obs-side:" + (ob.impl_self or ""), "key struct not constructed in " + ob.path)
            continue
        for (i, j, s) in aggs:
            fields = s["r"]["fields"]
            if kf not in fields:
                continue
            t = S.operand(s["r"]["ops"][fields.index(kf)], i, j)
            fp = Q.field_path(t)
            who = (ob.impl_self or "").split("::")[-1]
            okk = fp is not None and fp[0] == 0 and fp[1] == [fname]
            ctx.check(okk, "R2", "%s:obs-side:%s" % (inst, who),
                      "key.%s = self.%s" % (kf, fname),
                      "observation key field %s originates from %s, signature side keys on field `%s`" % (kf, T.pp(t), fname),
                      ctx.loc(ob, i))


def _may_return_none(P, body, depth=0):
    """Does some assignment to _0 construct Option::None (directly or via a tail call we can resolve)?"""
    for i, j, s in body.iter_stmts():
        if s["k"] == "assign" and s["p"]["l"] == 0 and not s["p"]["pr"]:
            r = s["r"]
            if r["k"] == "agg" and r.get("path", "").endswith("option::Option") and r["variant"] == "None":
                return True
    if depth < 2:
        for i, t in body.calls():
            if t["dest"]["l"] == 0 and not t["dest"]["pr"]:
                name = callee_of(t)
                if name in P.bodies and _may_return_none(P, P.bodies[name], depth + 1):
                    return True
    return False


def _reads_field(P, body, fname):
    for i, j, s in body.iter_stmts():
        if s["k"] != "assign":
            continue
        r = s["r"]
        places = []
        if r["k"] in ("ref", "discr"):
            places.append(r["p"])
        elif r["k"] == "use":
            o = r["o"]
            if "c" in o or "m" in o:
                places.append(o.get("c") or o.get("m"))
        for p in places:
            if 1 <= p["l"] <= body.arg_count:
                for x in p["pr"]:
                    if isinstance(x, dict) and x.get("n") == fname:
                        return True
    return False


def _check_decisive(ctx, P, gen, fname, inst):
    sig_self = gen.impl_self
    cds = [b for b in P.bodies.values() if b.kind == "AssocFn" and b.name == "calculate_distance"
           and b.impl_self == sig_self and b.impl_trait == gen.impl_trait]
    if not cds:
        ctx.cannot("R2", inst + ":decisive", "calculate_distance for %s not found" % sig_self)
        return
    for cd in cds:
        bodies = Q.callgraph_closure(P, cd, depth=2)
        found = False
        detail = ""
        for b in bodies:
            S = T.Slicer(b, P)
            for blk, t in Q.calls(b):
                args = Q.call_args(b, S, blk, t)
                name = callee_of(t)
                cands = []
                if name in P.bodies:
                    cands = [P.bodies[name]]
                else:
                    cands = Q.dyn_impl_targets(P, t.get("decl") or name)
                if not cands:
                    continue
                # component over field f: an argument reads .f, or every candidate callee reads .f of a parameter
                ment = any(any(x[0] == "field" and x[2] == fname for x in T.walk(a)) for a in args)
                if not ment:
                    ment = all(_reads_field(P, c, fname) for c in cands)
                if not ment:
                    continue
                if all(_may_return_none(P, c) for c in cands):
                    # propagated with `?`: the call's destination discriminant is switched on and a None return follows
                    found = True
                    detail = "%s over .%s may return None" % (T.short(name), fname)
        who = (cd.impl_trait or "").split("::")[-1]
        ctx.check(found, "R2", inst + ":decisive",
                  detail, "key field `%s` is not a decisive field: no None-capable distance component over .%s in %s"
                  % (fname, fname, cd.path), ctx.loc(cd))


# ---------------------------------------------------------------------------


def _recipe(P, body, term, depth=0):
    """Normalised computation recipe of a string key: nested (callee-short, [arg recipes]) with closures
    replaced by their own body recipe (callees + literal constants)."""
    t = term
    if t[0] in ("ref", "deref"):
        return _recipe(P, body, t[2] if t[0] == "ref" else t[1], depth)
    if t[0] == "upvar":
        return _recipe(P, body, t[2], depth)
    if t[0] == "call":
        name = T.short(t[1])
        if T.is_identity_call(t[1]) and t[2]:
            return _recipe(P, body, t[2][0], depth)
        return (name,) + tuple(_recipe(P, body, a, depth + 1) for a in t[2])
    if t[0] == "agg" and t[1] == "closure":
        cb = P.bodies.get(t[2])
        if cb is None:
            return ("closure?",)
        sig = []
        for i, tt in cb.calls():
            sig.append(T.short(callee_of(tt)))
        consts = []
        for i, j, s in cb.iter_stmts():
            if s["k"] == "assign" and s["r"]["k"] == "use" and "k" in s["r"]["o"]:
                cv = T.const_value(s["r"]["o"]["k"])
                if isinstance(cv[1], (bytes, str)):
                    consts.append(cv[1])
        # `|x| format!("{x}")` and `|x| x.to_string()` both render the element with its Display impl
        if len(sig) == 1 and sig[0].endswith("to_string") and not consts:
            return ("closure", ("display",), ())
        if "fmt::format" in sig and "Argument::new_display" in sig and not [c for c in sig if c not in ("Argument::new_display", "Arguments::new", "fmt::format", "hint::must_use")] \
                and consts in ([b"\xc0\x00"], [bytes(b"\xc0\x00")]):
            return ("closure", ("display",), ())
        return ("closure", tuple(sig), tuple(consts))
    if t[0] == "field":
        fp = Q.field_path(t)
        if fp:
            return ("self." + ".".join(str(x) for x in fp[1]),)
        return ("field", t[2])
    if t[0] == "const":
        return ("const", t[1])
    if t[0] == "param":
        return ("param", t[1])
    if t[0] == "cast":
        return _recipe(P, body, t[2], depth)
    return (t[0],)


def rule_R3(ctx):
    P = ctx.program
    n = 0
    gens = [b for b in P.bodies.values()
            if b.kind == "AssocFn" and b.name == "generate_index_keys_for_db_entry" and (b.impl_trait or "").endswith("DatabaseSignature")]
    for g in gens:
        key_adt = _ret_key_adt(P, g)
        adt = P.adt(key_adt)
        str_fields = [f["name"] for f in adt["variants"][0]["fields"] if f["ty"].endswith("string::String")]
        for kf in str_fields:
            n += 1
            inst = "%s.%s" % (key_adt.split("::")[-1], kf)
            recs = {}
            for side, bodies in (("db", Q.callgraph_closure(P, g, depth=2)), ("obs", _obs_generators(P, key_adt))):
                for b in bodies:
                    S = T.Slicer(b, P)
                    for (i, j, s) in Q.aggregates(b, key_adt):
                        fields = s["r"]["fields"]
                        t = S.operand(s["r"]["ops"][fields.index(kf)], i, j)
                        if b.kind == "Closure":
                            t = T.expand_upvars(P, b, t, depth=6)
                        recs.setdefault(side, []).append((_recipe(P, b, t), b, i))
            if "db" not in recs or "obs" not in recs:
                ctx.cannot("R3", inst, "key construction not found on both sides")
                continue
            dbr = {r for (r, _, _) in recs["db"]}
            obr = {r for (r, _, _) in recs["obs"]}
            if dbr == obr and len(dbr) == 1:
                ctx.ok("R3", inst, "same recipe on both sides: %s" % (str(next(iter(dbr)))[:200]), ctx.loc(recs["db"][0][1], recs["db"][0][2]))
            else:
                ctx.fail("R3", inst, "index string key computed differently: db side %s vs observation side %s" % (
                    sorted(map(str, dbr)), sorted(map(str, obr))), ctx.loc(recs["db"][0][1], recs["db"][0][2]))
    ctx.floor("R3", "string key fields (olayout_key)", n, 1)


# ---------------------------------------------------------------------------


def rule_R4_R5_R6(ctx):
    P = ctx.program
    fbm = P.method1("FingerprintCollection", "find_best_match")
    S = T.Slicer(fbm, P)
    # the running minimum: a local initialised from u32::MAX
    mins = []
    for i, j, s in fbm.iter_stmts():
        if s["k"] == "assign" and not s["p"]["pr"] and s["r"]["k"] == "use" and "k" in s["r"]["o"]:
            cv = T.const_value(s["r"]["o"]["k"])
            if cv[1] == 4294967295 and fbm.local_ty(s["p"]["l"]) == "u32" and fbm.local_name(s["p"]["l"]):
                mins.append((s["p"]["l"], i, j))
    mins_std = Q.calls(fbm, ["Iterator::min_by_key", "Iterator::min_by"])
    if not mins and mins_std:
        # accepted idiom: std returns the first minimum
        rev = Q.calls(fbm, ["::rev", "sort", "max_by", "last"])
        ctx.check(not rev, "R4", "find_best_match:min", "Iterator::min_by* over a forward iterator (first minimum)",
                  "min_by* used together with a reordering adaptor", ctx.loc(fbm))
        return
    if len(mins) != 1:
        ctx.cannot("R4", "find_best_match:min", "running minimum (local initialised to u32::MAX) not identified: %d candidates" % len(mins), ctx.loc(fbm))
        return
    ml, mi, mj = mins[0]
    # every other def of the minimum must be guarded by strict less-than of the candidate distance
    defs = [(b, j) for (b, j, full) in S.defs().get(ml, []) if (b, j) != (mi, mj)]
    if not defs:
        ctx.fail("R4", "find_best_match:min", "running minimum is never updated", ctx.loc(fbm, mi))
        return
    upd_blocks = set()
    for (b, j) in defs:
        upd_blocks.add(b)
        new = S.def_term(ml, b, j, 0)
        conds = Q.canon_conds(P, T.controls(fbm, S, b))
        strict = False
        why = ""
        for c in conds:
            if c[0] != "cmp":
                continue
            op, a, bb_, pol = c[1], c[2], c[3], c[4]
            a_is_min = _is_local(fbm, S, a, ml, c[5])
            b_is_min = _is_local(fbm, S, bb_, ml, c[5])
            # normalise to "cand OP min"
            if b_is_min and not a_is_min:
                cand, rel = a, op
            elif a_is_min and not b_is_min:
                cand, rel = bb_, {"Lt": "Gt", "Gt": "Lt", "Le": "Ge", "Ge": "Le"}.get(op, op)
            else:
                continue
            if not pol:
                rel = {"Lt": "Ge", "Ge": "Lt", "Gt": "Le", "Le": "Gt"}.get(rel, rel)
            why = "update guarded by cand %s min" % rel
            if rel == "Lt" and T.strip(cand) == T.strip(new):
                strict = True
            elif rel == "Lt":
                why = "guard compares %s but the minimum is set to %s" % (T.pp(cand), T.pp(new))
        # the candidate must come from calculate_distance's Some payload
        from_cd = T.has_call(new, "calculate_distance")
        ctx.check(strict and from_cd, "R4", "find_best_match:strict-min",
                  "min updated only under `distance < min`, distance = calculate_distance(..)",
                  "running minimum update is not guarded by a strict `<` against the current minimum (%s): on ties a later "
                  "candidate would replace the first one" % (why or "no comparison with the minimum found"), ctx.loc(fbm, b))
    # best label / sig: Option locals assigned Some(..) only in the update blocks
    best = []
    for i, j, s in fbm.iter_stmts():
        if s["k"] == "assign" and not s["p"]["pr"] and s["r"]["k"] == "use":
            o = s["r"]["o"]
            p = o.get("m") or o.get("c")
            if p and not p["pr"]:
                src = p["l"]
                # src defined in same block as aggregate Some?
                for jj, ss in enumerate(fbm.blocks[i]["s"][:j]):
                    if ss["k"] == "assign" and ss["p"]["l"] == src and ss["r"]["k"] == "agg" and ss["r"].get("variant") == "Some" \
                            and fbm.local_name(s["p"]["l"]):
                        best.append((s["p"]["l"], i))
    names = sorted({fbm.local_name(l) for (l, _) in best})
    okb = bool(best) and all(b in upd_blocks for (_, b) in best)
    ctx.check(okb, "R5", "find_best_match:best-pair",
              "best refs %s assigned only in the minimum-update block" % names,
              "best label/signature are assigned outside the block that updates the minimum", ctx.loc(fbm))
    # forward iteration over the candidate list from index.get(&observed_key)
    bad = Q.calls(fbm, ["::rev", "sort", "::pop", "swap_remove", "reverse", "next_back", "::last"])
    ctx.check(not bad, "R4", "find_best_match:forward", "no reversing/sorting call in find_best_match",
              "candidate iteration is reordered by %s" % [T.short(callee_of(t)) for _, t in bad], ctx.loc(fbm))
    gets = Q.calls(fbm, "HashMap::<K, V, S, A>::get")
    okg = False
    for blk, t in gets:
        a = Q.call_args(fbm, S, blk, t)
        k = T.strip(a[1]) if len(a) > 1 else None
        recv = Q.field_path(a[0]) if a else None
        if k and k[0] == "call" and "generate_index_key" in k[1] and recv and recv[1] == ["index"]:
            obs = T.strip(k[2][0])
            if obs[0] == "param" and obs[1] == 1:
                okg = True
    ctx.check(okg, "R4", "find_best_match:lookup", "candidates = self.index.get(&observed.generate_index_key())",
              "candidate list is not looked up under the observation's own index key", ctx.loc(fbm))
    # loop iterates that candidate vector
    nexts = Q.calls(fbm, "Iterator>::next")
    okn = False
    for blk, t in nexts:
        a = Q.call_args(fbm, S, blk, t)
        if a and T.has_call(a[0], "HashMap::<K, V, S, A>::get") and not T.has_call(a[0], "::rev"):
            okn = True
    ctx.check(okn, "R4", "find_best_match:iterates-candidates", "loop iterator originates from the looked-up candidate vector",
              "the candidate loop does not iterate the looked-up index vector", ctx.loc(fbm))
    # entries indexed by the candidate pair
    idx = Q.calls(fbm, "ops::Index<I>>::index")
    ctx.check(len(idx) >= 2, "R4", "find_best_match:entries-by-index", "entries[label_idx], sig_vec[sig_idx]",
              "candidate (label, signature) not fetched by the stored indices", ctx.loc(fbm))
    # R5 quality from the minimum (the call may sit in the closure of `best.zip(..).map(|(l, s)| (l, s, s.get_quality_score(min)))`)
    qs = [(fbm, blk, t) for blk, t in Q.calls(fbm, "get_quality_score")]
    for cb in P.closures_of(fbm.path):
        qs += [(cb, blk, t) for blk, t in Q.calls(cb, "get_quality_score")]
    if not qs:
        ctx.cannot("R5", "find_best_match:quality", "no get_quality_score call", ctx.loc(fbm))
    for qb, blk, t in qs:
        a = t["args"][-1]
        p = a.get("c") or a.get("m")
        okq = False
        if p and qb is fbm and not p["pr"]:
            # copy chain to the min local
            okq = (_copy_root(fbm, p["l"]) == ml)
        if p and qb is fbm and not okq:
            # .. or the value the min local holds at the call (read through a reference: the closure of `.map(..)` written out)
            nst_ = len(fbm.blocks[blk]["s"])
            at = T.strip(S.operand(a, blk, nst_))
            while at[0] in ("ref", "deref"):
                at = T.strip(at[2] if at[0] == "ref" else at[1])
            okq = at == T.strip(S.operand({"c": {"l": ml, "pr": []}}, blk, nst_))
        elif p and qb is not fbm:
            # captured variable of the closure: the operand the closure was created with
            at = T.strip(T.expand_upvars(P, qb, T.Slicer(qb, P).operand(a, blk, len(qb.blocks[blk]["s"])), depth=2))
            while at[0] in ("upvar", "ref", "deref"):
                at = T.strip(at[2] if at[0] in ("upvar", "ref") else at[1])
            for i_, j_, s_ in fbm.iter_stmts():
                if s_["k"] == "assign" and s_["r"]["k"] == "agg" and s_["r"]["ak"] == "closure" and s_["r"].get("path") == qb.path:
                    okq = okq or at == T.strip(S.operand({"c": {"l": ml, "pr": []}}, i_, j_))
        ctx.check(okq, "R5", "find_best_match:quality", "get_quality_score(min_distance)",
                  "reported quality is not computed from the running minimum distance", ctx.loc(qb, blk))
    # R6 returns
    alts = TB.return_alternatives(fbm, P)
    somes = [x for x in alts if T.strip(x[2])[0] == "agg" and T.strip(x[2])[3] == "Some"]
    nones = [(x[0], x[1], "None") for x in alts if (T.strip(x[2])[0] == "agg" and T.strip(x[2])[3] == "None") or
             (T.strip(x[2])[0] == "call" and T.strip(x[2])[1].endswith("::from_residual"))]
    ok6 = len(somes) == 1 and len(nones) >= 1
    if ok6:
        need = {c[2] for c in somes[0][3] if c[0] == "variant" and c[3] is True}
        ok6 = "Some" in need and T.has_call(somes[0][2], "get_quality_score")
    ctx.check(ok6, "R6", "find_best_match:returns",
              "Some((label, sig, quality)) only under best refs being Some; None otherwise (%d None exits)" % len(nones),
              "return structure not recognised: Some-returns=%d None-returns=%d" % (len(somes), len(nones)), ctx.loc(fbm))
    nones = list(dict.fromkeys(nones))
    for (i, j, _) in nones:
        conds = Q.canon_conds(P, T.controls(fbm, S, i))
        desc = []
        for c in conds:
            if c[0] == "variant":
                desc.append("%s is %s%s" % (T.pp(c[1])[:40], "" if c[3] else "not ", c[2]))
            elif c[0] == "bool":
                desc.append(("" if c[2] else "!") + T.pp(c[1])[:40])
        ctx.ok("R6", "find_best_match:none@%s" % ("+".join(sorted(set(desc)))[:80] or "entry"), "None returned when: " + "; ".join(desc)[:200], ctx.loc(fbm, i))

    # index construction
    new = P.method1("FingerprintCollection", "new")
    SN = T.Slicer(new, P)
    pushes = Q.calls(new, "Vec::<T, A>::push")
    okp = False
    det = ""
    for blk, t in pushes:
        a = Q.call_args(new, SN, blk, t)
        recv, val = a[0], a[1]
        # `index.entry(key).or_default().push(pos)`, or the entry API by hand: `match index.get_mut(&key) { Some(v) => v.push(pos), None => insert }`
        by_hand = T.has_call(recv, "HashMap::<K, V, S, A>::get_mut")
        if not by_hand and not (T.has_call(recv, "or_insert_with") or T.has_call(recv, "or_default") or T.has_call(recv, "or_insert")):
            continue
        if not by_hand and not T.has_call(recv, "HashMap::<K, V, S, A>::entry"):
            continue
        v = T.strip(val)
        if v[0] == "agg" and v[1] == "tuple" and len(v[4]) == 2:
            a0, a1 = v[4]
            e0 = [c for c in T.calls_in(a0) if "Enumerate" in c[1] and c[1].endswith("::next")]
            e1 = [c for c in T.calls_in(a1) if "Enumerate" in c[1] and c[1].endswith("::next")]
            outer_over_entries = e0 and any(x[0] == "param" and x[1] == 0 for x in T.walk(e0[0])) and not T.has_call(e0[0], "::rev")
            # inner enumerates something derived from the outer item
            inner_from_outer = e1 and any(c in T.calls_in(e1[0]) for c in e0) and not T.has_call(e1[0], "::rev")
            key_from_gen = T.has_call(recv, "generate_index_keys_for_db_entry")
            adapters = sorted({T.short(c[1]) for e in (e0 + e1) for c in T.calls_in(e) if c[1].endswith(ITER_ADAPTERS)})
            if adapters:
                ctx.fail("R4", "new:positions", "label / signature positions are counted after %s: they no longer index `entries` (find_best_match "
                         "reads entries[label_idx].1[sig_idx])" % ",".join(adapters), ctx.loc(new, blk))
                continue
            if outer_over_entries and inner_from_outer and key_from_gen:
                okp = True
                det = "index[key].push((label_idx, sig_idx)) with label_idx from entries.iter().enumerate(), sig_idx from the label's vector"
    ctx.check(okp, "R4", "new:append-in-order", det,
              "index is not built by appending (label_idx, sig_idx) under every generated key in enumeration order", ctx.loc(new))
    ins = Q.calls(new, ["HashMap::<K, V, S, A>::insert", "::remove", "::retain", "::clear", "::truncate", "::pop", "sort", "dedup"])

    def _fresh_key_insert(blk, t):
        # an insert that runs only when `get_mut` of the same key found nothing replaces nothing
        if not callee_of(t).endswith("HashMap::<K, V, S, A>::insert"):
            return False
        a = Q.call_args(new, SN, blk, t)
        key = T.strip(a[1]) if len(a) > 1 else None
        for c in Q.canon_conds(P, T.dom_conds(new, SN, blk)):
            if c[0] == "variant" and c[2] == "None" and c[3] is True:
                g = T.strip(c[1])
                if g[0] == "call" and g[1].endswith("HashMap::<K, V, S, A>::get_mut") and len(g[2]) == 2:
                    k2 = T.strip(g[2][1])
                    while k2[0] in ("ref", "deref"):
                        k2 = T.strip(k2[2] if k2[0] == "ref" else k2[1])
                    if k2 == key:
                        return True
        return False
    ins = [(blk, t) for blk, t in ins if not _fresh_key_insert(blk, t)]
    ctx.check(not ins, "R4", "new:no-replace", "no replacing/removing operation on the index map during construction",
              "index construction uses %s which can drop candidates" % [T.short(callee_of(t)) for _, t in ins], ctx.loc(new))


def _copy_root(body, l):
    """Follow `x = copy y` chains (single-def temporaries) to the root local."""
    seen = set()
    while l not in seen:
        seen.add(l)
        defs = []
        for i, j, s in body.iter_stmts():
            if s["k"] == "assign" and s["p"]["l"] == l and not s["p"]["pr"]:
                defs.append(s)
        if len(defs) != 1 or body.local_name(l):
            return l
        r = defs[0]["r"]
        if r["k"] == "use":
            o = r["o"]
            p = o.get("c") or o.get("m")
            if p and not p["pr"]:
                l = p["l"]
                continue
        return l
    return l


def _is_local(body, S, term, l, blk):
    """Is `term` (an operand origin at branch block blk) the current value of local l?"""
    # The comparison operands are temporaries copied from locals in the same block; recompute by scanning the block.
    t = body.blocks[blk]["t"] if blk is not None else None
    if t is None or t["k"] != "switch":
        return False
    # find the cmp statement defining the discriminant
    d = t["discr"].get("m") or t["discr"].get("c")
    if not d:
        return False
    for s in body.blocks[blk]["s"]:
        if s["k"] == "assign" and s["p"]["l"] == d["l"] and s["r"]["k"] == "binop":
            for side in ("a", "b"):
                o = s["r"][side]
                p = o.get("c") or o.get("m")
                if p and not p["pr"] and _copy_root(body, p["l"]) == l:
                    ot = S.operand(o, blk, len(body.blocks[blk]["s"]))
                    if ot == term:
                        return True
    return False


def rule_quality_table(ctx):
    """R5: the quality reported for a distance comes from the score table of the signature's own protocol, in every impl of
    DatabaseSignature (the request and the response impl of http::Signature are siblings and must agree)"""
    P = ctx.program
    want = {"huginn_net_db::tcp::Signature": "TcpMatchQuality", "huginn_net_db::http::Signature": "HttpMatchQuality"}
    n = 0
    for b in P.bodies.values():
        if b.kind == "AssocFn" and b.name == "get_quality_score" and (b.impl_trait or "").endswith("DatabaseSignature") and b.blocks:
            st = (b.impl_self or "").split("<")[0]
            if st not in want:
                continue
            n += 1
            tables = set()
            for cb in Q.callgraph_closure(P, b, depth=3):
                for _, t in cb.calls():
                    nm = callee_of(t)
                    if nm.endswith("::distance_to_score"):
                        hit = [w for w in ("TcpMatchQuality", "HttpMatchQuality") if w in nm]
                        tables.add(hit[0] if hit else nm.split("::")[-2])
            obs = (b.path.split("DatabaseSignature<")[-1].split(">")[0].split("::")[-1]) if "DatabaseSignature<" in b.path else "?"
            ctx.check(tables == {want[st]}, "R5", "quality-table:%s<%s>" % (st.split("::")[-2] + "::Signature", obs),
                      "quality = %s::distance_to_score(distance)" % want[st],
                      "the quality of a %s match is read from %s: the chosen entry is still the optimum but the reported quality is not the one its distance stands for "
                      "(the tables differ from distance 4 on)" % (st.split("::")[-2].upper(), sorted(tables) or "no score table"), ctx.loc(b))
    ctx.floor("R5", "get_quality_score implementations", n, 3)


def rule_shared(ctx):
    """the distance function accepts nothing the exact-string index key separates (C12.R11 whole-list comparison); request / response
    observations are looked up in their own collections (C13.R2)"""
    from ..engine import report as R
    from . import C12, C13
    C12.rule_R11(R.Retag(ctx, "C12."))
    C13.rule_R2(R.Retag(ctx, "C13."))


def rule_matchers_forward(ctx):
    """R4: what an analyzer reports for an observation IS the collection's best match: every `SignatureMatcher::matching_by_*` that
    consults a FingerprintCollection returns the result of `find_best_match` on every path - no early exit decides `no match` before
    the lookup, no condition on the observation filters its result"""
    P = ctx.program
    n = 0
    for b in sorted(P.bodies.values(), key=lambda x: x.path):
        if b.kind != "AssocFn" or not b.name.startswith("matching_by_") or "SignatureMatcher" not in (b.impl_self or "") or not b.blocks:
            continue
        fbm = Q.calls(b, "find_best_match")
        if not fbm:
            continue            # matching_by_user_agent / matching_by_mtu have their own rules
        n += 1
        S = T.Slicer(b, P)
        bad = None
        for (rb, j, term, _c) in TB.return_sites(b, P):
            tt = T.strip(term)
            if not T.has_call(tt, "find_best_match"):
                bad = (rb, "returns %s without consulting the collection" % T.pp(tt)[:50])
        # the lookup dominates every exit
        for rblk in b.return_blocks():
            if not any(C.dominates(b, fb, rblk) for fb, _ in fbm):
                bad = bad or (rblk, "an exit is reachable without the lookup")
        # one collection is consulted, the one the matcher is named after (`matching_by_tcp_request` -> database.tcp_request): a
        # second lookup (a fallback into a sibling collection) reports entries that are not in the scanned collection
        from ..engine import lists as L
        cols = []
        for xb in L.with_closures(P, b):
            XS = T.Slicer(xb, P)
            for fb_, ft_ in Q.calls(xb, "find_best_match"):
                a_ = Q.call_args(xb, XS, fb_, ft_)
                recv_ = T.expand_upvars(P, xb, a_[0]) if xb is not b else a_[0]
                cols.append(sorted({x[2] for x in T.walk(recv_) if x[0] == "field" and isinstance(x[2], str) and x[2] not in ("database", "0")}))
        want_col = b.name[len("matching_by_"):]
        if bad is None and not (len(cols) == 1 and cols[0] == [want_col]):
            bad = (fbm[0][0], "consults %s (expected only `%s`)" % (cols, want_col))
        ctx.check(bad is None, "R4", "matcher:%s:%s" % (b.crate.replace("huginn_net_", ""), b.name), "returns find_best_match(..) on every path",
                  "%s %s: the analyzer reports `no match` (or a filtered result) for observations the collection's distance function accepts, so what is reported is not "
                  "the best match of a full scan" % (T.short(b.path), bad[1] if bad else ""), ctx.loc(b, bad[0]) if bad else ctx.loc(b))
    ctx.floor("R4", "matcher front-ends over a FingerprintCollection", n, 4)


def rule_structural_equality(ctx):
    """R2: the index key of a signature is built from the text of its fields, the distance functions compare the fields with `==`:
    the two agree only while `==` means equality of every field.  Every PartialEq / Eq / Hash impl of the database crate's types is
    the derived one (a hand-written `eq` that looks at less - the discriminant, one field - accepts entries the index files elsewhere)"""
    P = ctx.program
    n = 0
    for b in P.bodies.values():
        it = b.raw.get("impl_trait") or ""
        if b.crate != "huginn_net_db" or not (it.endswith("PartialEq") or it.endswith("cmp::Eq") or it.endswith("::Hash")):
            continue
        if b.name not in ("eq", "ne", "hash"):
            continue
        n += 1
        ctx.check(b.from_macro, "R2", "structural-eq:%s" % T.short(b.impl_self or b.path), "derived %s" % it.rsplit("::", 1)[-1],
                  "%s for %s is written by hand: signature fields compared by the distance functions are then equal when their index-key text differs "
                  "(or the reverse), so a lookup misses entries a full scan would accept" % (it.rsplit("::", 1)[-1], T.short(b.impl_self or b.path)), ctx.loc(b))
    ctx.floor("R2", "derived equality impls in huginn-net-db", n, 25)


def rule_component_conditions(ctx):
    """the index files an entry under the values its distance components compare: a component that accepts more than equality (an alias,
    a one-sided test) accepts entries the lookup never consults (shared with C12.R12)"""
    from ..engine import report as R
    from . import C12
    C12.rule_R12(R.Retag(ctx, "C12."))
    C12.rule_enum_pair_tables(R.Retag(ctx, "C12."), C12._score_tables(R.Retag(ctx, "C12.")))


def rule_key_components_reject(ctx):
    """R1: the index may only hide entries the scan would reject: every component of the observation that the TCP index key is built from
    is a component whose distance function can answer `None` (a mismatch there rejects the entry).  A component that only costs points
    (olen, mss, wscale ...) in the key hides entries the exhaustive scan accepts"""
    P = ctx.program
    g = [b for b in P.bodies.values() if b.crate == "huginn_net_db" and b.name == "generate_index_key" and "TcpObservation" in (b.impl_self or "")]
    cd = [b for b in P.bodies.values() if b.crate == "huginn_net_db" and b.name == "calculate_distance" and "tcp::Signature" in (b.impl_self or "")]
    if len(g) != 1 or len(cd) != 1:
        ctx.cannot("R1", "tcp:key-components", "generate_index_key / calculate_distance of the TCP matcher not found (%d / %d)" % (len(g), len(cd)))
        return
    g, cd = g[0], cd[0]
    S = T.Slicer(g, P)
    comps = {}
    for i, j, st in g.iter_stmts():
        r = st.get("r") or {}
        if r.get("k") == "agg" and r.get("path", "").endswith("TcpIndexKey"):
            for f, o in zip(r.get("fields") or [], r["ops"]):
                t = S.operand(o, i, j)
                for x in T.walk(t):
                    if x[0] == "field" and any(y[0] == "param" and y[1] == 0 for y in T.walk(x[1])) and not any(y[0] == "field" for y in T.walk(x[1])):
                        comps.setdefault(x[2], f)
    SD = T.Slicer(cd, P)
    cands = {}
    for blk, t in cd.calls():
        n = callee_of(t)
        if "distance_" not in n.rsplit("::", 1)[-1]:
            continue
        cb = P.bodies.get(n)
        if cb is None:
            continue
        a = Q.call_args(cd, SD, blk, t)
        direct = set()
        for arg in a:
            for x in T.walk(arg):
                if x[0] == "field" and any(y[0] == "param" and y[2] == "observed" for y in T.walk(x[1])):
                    direct.add(x[2])
        inner = set()
        if not direct:
            CS = T.Slicer(cb, P)
            for bb, tt in list(cb.calls()):
                for arg in Q.call_args(cb, CS, bb, tt):
                    for x in T.walk(arg):
                        if x[0] == "field" and any(y[0] == "param" and y[1] == 0 for y in T.walk(x[1])):
                            inner.add(x[2])
            for i, j, st in cb.iter_stmts():
                if st["k"] == "assign":
                    try:
                        tt = CS.rvalue(st["r"], i, j)
                    except Exception:
                        continue
                    for x in T.walk(tt):
                        if x[0] == "field" and any(y[0] == "param" and y[1] == 0 for y in T.walk(x[1])):
                            inner.add(x[2])
        rejects = any(T.strip(term)[0] == "agg" and T.strip(term)[3] == "None" for (_rb, _j, term, _c) in TB.return_sites(cb, P, True))
        for c in (direct or inner):
            cands.setdefault(c, []).append((n.rsplit("::", 1)[-1], rejects))
    n = 0
    for c, keyf in sorted(comps.items()):
        cs = cands.get(c)
        if not cs:
            ctx.ok("R1", "tcp:key-component:" + c, "no distance function reads `%s` on its own: not judged" % c)
            continue
        n += 1
        ctx.check(any(r for _, r in cs), "R1", "tcp:key-component:" + c, "`%s` (key field %s) is judged by %s, which can reject" % (c, keyf, [x for x, _ in cs]),
                  "the TCP index key contains `%s` (field %s), but %s never answers None: an entry that differs there only loses points in the exhaustive scan "
                  "and is a valid (possibly the best) match, yet the index lookup no longer finds it" % (c, keyf, [x for x, _ in cs]), ctx.loc(g))
    ctx.floor("R1", "TCP index key components judged", n, 2)


def rule_quality_monotone(ctx):
    """R5: the entry with the least distance is the entry with the best quality only if the score tables are non-increasing and total
    (shared with C12.R4)"""
    from ..engine import report as R
    from . import C12
    C12.rule_R4(R.Retag(ctx, "C12."))


def run(ctx):
    rule_quality_monotone(ctx)
    rule_key_components_reject(ctx)
    rule_component_conditions(ctx)
    rule_structural_equality(ctx)
    rule_matchers_forward(ctx)
    rule_shared(ctx)
    rule_quality_table(ctx)
    rule_R1_R2(ctx)
    rule_R3(ctx)
    rule_R4_R5_R6(ctx)
