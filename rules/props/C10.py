"""C10 - Parallel mode is observationally equivalent to sequential mode.

Structural clauses decided:
 R1 the HTTP dispatch hash is direction-symmetric under a total order of (address, port)
 R2 per-worker analysis state is created inside worker_loop, before the service loop, and shrunk only by its owner; every
    worker is started with clones of the shared values and the configured limits unchanged
 R3 packets taken from the queue are processed in receive order (batch only pushed, drained forward); a received packet
    always reaches batch.push / process_packet before the next receive or the exit
 R4 the worker's per-packet function calls the same pipeline as the sequential one (filter -> parse -> process v4|v6)
 R5 every pipeline result is forwarded exactly once on the result channel; a worker stops only on shutdown / disconnect /
    closed result channel
 R6 the TCP sharding key is the source address and the uptime state is keyed per direction (C19.R1,R2,R4)
 R1 (also) C18.R2: every dispatch hash looks at the connection identity only (ports at the TCP header, IP slice handed to the helpers)
"""
from ..engine import cfg as C
from ..engine import q as Q
from . import _workers as W
from ..engine import terms as T
from ..engine.facts import AnchorMissing, callee_of
from . import C18 as K18
from . import _flowid as FI

EXPLANATION = ("Origin slices of hash inputs (symmetry), of the cache arguments handed to the per-packet function in worker_loop "
               "(must originate from constructors in that body), forbidden-call scan on the batch vector, callee-skeleton comparison "
               "between sequential and worker process_packet, dominating conditions of result_sender.send.")
TRUSTED = ["crossbeam bounded channel is FIFO per sender/receiver pair", "Vec::drain(..) yields elements front to back"]
DECLINED = ["multiset equality of results over thread schedules", "behaviour under queue overflow (excluded by the property)"]
ASSUMPTIONS = []

CRATES = {"huginn_net_tcp": "tcp", "huginn_net_http": "http", "huginn_net_tls": "tls"}
STATE_CTORS = ("TtlCache::<K, V>::new", "TtlCache::new", "HttpProcessors::new")


def _one(P, crate, ty, name):
    c = [b for b in P.method(ty, name) if b.crate == crate]
    if len(c) != 1:
        raise AnchorMissing("%s %s::%s: %d bodies" % (crate, ty, name, len(c)))
    return c[0]


def rule_R1(ctx):
    P = ctx.program
    for fn in ("hash_ipv4_flow", "hash_ipv6_flow"):
        b = P.body("huginn_net_http::packet_hash::" + fn)
        ins = FI.hash_inputs(P, b)
        # re-use the C18 classification; record under this property
        sub = _Sub(ctx)
        K18._symmetric(sub, P, b, ins, fn)
        for (ok, rule, key, d1, d2, loc) in sub.items:
            ctx.check(ok, "R1", key, d1, d2, loc)


class _Sub:
    def __init__(self, ctx):
        self.ctx = ctx
        self.items = []

    def check(self, cond, rule, key, okd, faild, loc=None):
        self.items.append((cond, rule, key, okd, faild, loc))

    def loc(self, *a, **k):
        return self.ctx.loc(*a, **k)


def rule_workers(ctx):
    P = ctx.program
    for crate, fam in CRATES.items():
        try:
            wl = _one(P, crate, "WorkerPool", "worker_loop")
            wp = _one(P, crate, "WorkerPool", "process_packet")
            seq_ty = {"tcp": "HuginnNetTcp", "http": "HuginnNetHttp", "tls": "HuginnNetTls"}[fam]
            sp = _one(P, crate, seq_ty, "process_packet")
        except AnchorMissing as e:
            ctx.cannot("R2", fam + ":worker", str(e))
            continue
        S = T.Slicer(wl, P)
        # R2 state handed to process_packet is created in worker_loop
        calls = Q.calls(wl, "WorkerPool::process_packet")
        if not calls:
            ctx.cannot("R2", fam + ":worker_loop", "worker_loop does not call process_packet", ctx.loc(wl))
            continue
        nstate = 0
        for blk, t in calls:
            args = Q.call_args(wl, S, blk, t)
            params = wp.raw["locals"][1:1 + wp.arg_count]
            for a, p in zip(args, params):
                ty = p["ty"]
                if "TtlCache" in ty or "HttpProcessors" in ty:
                    nstate += 1
                    ctor = [c for c in T.calls_in(a) if any(c[1].endswith(x) or x in c[1] for x in STATE_CTORS)]
                    from_param = [x for x in T.params_in(a)]
                    # `max_connections` config parameter may appear inside the constructor argument; the *object* must not be a parameter
                    root = T.strip(a)
                    good = bool(ctor) and root[0] == "call" and any(x in root[1] for x in STATE_CTORS)
                    ctx.check(good, "R2", "%s:worker_loop:%s@%d" % (fam, ty.split("<")[0].split("::")[-1].strip("&mut "), blk),
                              "per-worker %s constructed inside worker_loop" % ty.split("<")[0].split("::")[-1],
                              "analysis state passed to the per-packet function is not created by this worker: %s" % T.pp(a)[:120], ctx.loc(wl, blk))
        ctx.floor("R2", fam + " state arguments", nstate, {"tcp": 2, "http": 2, "tls": 1}[fam])
        # R3 FIFO
        bad = [t for _, t in Q.calls(wl, ["::pop", "::rev", "swap_remove", "sort", "::reverse", "Vec::<T, A>::remove", "::last", "next_back", "::rotate", "::swap"])]
        ctx.check(not bad, "R3", fam + ":worker_loop:order", "no reordering operation on received packets",
                  "worker_loop reorders queued packets via %s" % [T.short(callee_of(t)) for t in bad], ctx.loc(wl))
        recvs = Q.calls(wl, ["recv_timeout", "try_recv", "::try_iter"])
        ctx.check(len(recvs) >= 2, "R3", fam + ":worker_loop:recv", "%d receive sites (blocking first, non-blocking fill)" % len(recvs),
                  "receive structure not recognised", ctx.loc(wl))
        if fam in ("http", "tls"):
            drains = Q.calls(wl, "::drain")
            pushes = Q.calls(wl, "Vec::<T, A>::push") + [(b_, t_) for b_, t_ in wl.calls() if callee_of(t_).endswith("::extend") and "Vec" in callee_of(t_)]
            okd = False
            for blk, t in drains:
                a = Q.call_args(wl, S, blk, t)
                r = T.strip(a[1]) if len(a) > 1 else None
                if r and r[0] in ("agg", "const"):
                    okd = True  # RangeFull
            ctx.check(okd and len(pushes) >= 2, "R3", fam + ":worker_loop:batch", "batch filled by push, consumed by drain(..)",
                      "batch is not consumed front-to-back by drain(..)", ctx.loc(wl))
        # every received packet reaches process_packet: the Ok payload of recv flows into process_packet or the batch
        W.received_consumed(ctx, P, fam, wl, "R3")
        W.exit_conditions(ctx, P, fam, wl, wp, "R5")
        W.uniform_workers(ctx, P, [c for c, f in CRATES.items() if f == fam][0], fam, "R2")
        W.state_retained(ctx, P, [c for c, f in CRATES.items() if f == fam][0], fam, "R2", {"tcp": 0, "http": 1, "tls": 1}[fam])
        # R4 same pipeline
        def skeleton(b):
            """the pipeline stages called, ordered by control flow (stage A is before stage B when B is reachable from A and not the
            other way round) - the position of a block in the body says nothing once a helper was inlined or arms were reordered"""
            sites = []
            for blk, t in Q.calls(b):
                n = callee_of(t)
                for key in ("raw_filter::apply", "packet_parser::parse_packet", "process::process_ipv4_packet", "process::process_ipv6_packet"):
                    if n.endswith(key):
                        sites.append((key.split("::")[-1], blk))

            def reach(x, y):
                seen, st = set(), list(b.succs(x))
                while st:
                    z = st.pop()
                    if z == y:
                        return True
                    if z in seen:
                        continue
                    seen.add(z)
                    st.extend(b.succs(z))
                return False
            import functools

            def cmp(a_, b_):
                if a_[1] == b_[1]:
                    return 0
                ab, ba = reach(a_[1], b_[1]), reach(b_[1], a_[1])
                if ab and not ba:
                    return -1
                if ba and not ab:
                    return 1
                return (a_[0] > b_[0]) - (a_[0] < b_[0])
            # a stage called at two places (a helper holding the rest of the pipeline, used on two edges) is one stage
            return list(dict.fromkeys(nm for nm, _ in sorted(sites, key=functools.cmp_to_key(cmp))))
        sk_w, sk_s = skeleton(wp), skeleton(sp)
        ctx.check(sk_w[:2] == sk_s[:2] == ["apply", "parse_packet"] and sorted(sk_w[2:]) == sorted(sk_s[2:]) and len(sk_w) == 4, "R4", fam + ":pipeline", "worker and sequential paths both call %s" % sk_s,
                  "worker pipeline %s differs from the sequential pipeline %s" % (sk_w, sk_s), ctx.loc(wp))
        # argument roles of process_ipvN_packet: (packet view, state.., matcher) by type position
        for b, nm in ((wp, "worker"), (sp, "sequential")):
            SS = T.Slicer(b, P)
            for blk, t in Q.calls(b, ["process::process_ipv4_packet", "process::process_ipv6_packet"]):
                a = Q.call_args(b, SS, blk, t)
                pk = T.strip(a[0])
                okp = T.has_call(a[0], "parse_packet") or (pk[0] in ("downcast", "field"))
                ctx.check(okp, "R4", "%s:%s:%s:packet-arg" % (fam, nm, T.short(callee_of(t)).split("::")[-1]),
                          "analyses the parsed view of the current packet", "process_ipvN_packet is not applied to parse_packet(packet)", ctx.loc(b, blk))
        # R5 results forwarded
        _forwarding(ctx, P, fam, wl, wp)


def _forwarding(ctx, P, fam, wl, wp):
    holder = wp if fam == "tcp" else wl
    S = T.Slicer(holder, P)
    sends = [(blk, t) for blk, t in Q.calls(holder, "Sender::<T>::send") if "mpsc" in callee_of(t)]
    if len(sends) != 1:
        ctx.cannot("R5", fam + ":forward", "expected exactly one result_sender.send in %s, found %d" % (T.short(holder.path), len(sends)), ctx.loc(holder))
        return
    blk, t = sends[0]
    a = Q.call_args(holder, S, blk, t)
    val = a[1]
    src = "process_ipv" if fam == "tcp" else "process_packet"
    from_pipeline = T.has_call(val, src) or T.has_call(val, "process_ipv4_packet") or T.has_call(val, "process_ipv6_packet")
    conds = Q.canon_conds(P, T.dom_conds(holder, S, blk))
    # allowed conditions: loop/recv structure, Ok(/Some) of the pipeline result, filter admitted (tcp: in process_packet)
    extra = []
    for c in conds:
        if c[0] in ("variant", "variant_in"):
            txt = T.pp(c[1])
            if any(k in txt for k in ("process_packet", "process_ipv", "recv_timeout", "try_recv", "next", "parse_packet", "filter")):
                continue
            if c[2] in ("Some", "Ok", "Continue") or c[0] == "variant_in":
                continue
            extra.append(txt[:60])
        elif c[0] == "bool":
            txt = T.pp(c[1])
            if any(k in txt for k in ("shutdown_flag", "raw_filter::apply", "is_empty", "level", "Interest", "enabled")):
                continue
            extra.append(txt[:60])
        elif c[0] == "cmp":
            txt = T.pp(c[2]) + T.pp(c[3])
            if "batch" in txt or "len" in txt:
                continue
            extra.append(txt[:60])
    want_ok = any(c[0] == "variant" and c[2] in ("Ok", "Some") and c[3] for c in conds)
    ctx.check(from_pipeline and want_ok and not extra, "R5", fam + ":forward",
              "send(result) for every Ok%s pipeline result" % ("(Some)" if fam == "tls" else ""),
              "a produced result is not always forwarded: value from pipeline=%s, extra guards=%s" % (from_pipeline, extra), ctx.loc(holder, blk))


def rule_R6(ctx):
    P = ctx.program
    b = P.body("huginn_net_tcp::packet_hash::hash_source_ip")
    ins = FI.hash_inputs(P, b)
    main = set()
    for blk, term, name in ins:
        rs = FI.roles(term)
        if rs == {"other:whole-packet"}:
            continue  # fallback_hash(packet) for frames without an address
        main |= rs
    ctx.check(main == {"src_ip"}, "R6", "tcp:shard-key", "TCP packets are sharded by source address only",
              "TCP sharding key is %s" % sorted(main), ctx.loc(b))
    # uptime key carries the direction
    adt = P.adt("huginn_net_tcp::uptime::ConnectionKey")
    fields = [f["name"] for f in adt["variants"][0]["fields"]]
    for f in adt["variants"][0]["fields"]:
        if f["ty"] in P.adts and P.adts[f["ty"]]["kind"] == "struct":
            fields += [g["name"] for g in P.adts[f["ty"]]["variants"][0]["fields"]]
    ctx.check("is_client" in fields and {"src_ip", "src_port", "dst_ip", "dst_port"} <= set(fields), "R6", "tcp:uptime-key",
              "ConnectionKey = 4-tuple + is_client", "uptime ConnectionKey fields are %s" % fields)


def rule_uptime_keys(ctx):
    """R6: the timestamp tracker is keyed by this segment's own endpoints and direction (shared with C19.R2/R4) - a canonicalised key
    makes two hosts share one entry sequentially, while the pool keeps them on different workers"""
    from ..engine import report as R
    from . import C19
    C19.rule_R1_R2(R.Retag(ctx, "C19."))
    C19.rule_R4(R.Retag(ctx, "C19."))


def rule_dispatch_identity(ctx):
    """R1: every packet of a connection reaches the worker that holds its state: the dispatch hashes look at the connection identity only (C18.R2)"""
    from ..engine import report as R
    from . import C18
    C18.rule_R2(R.Retag(ctx, "C18."))


def rule_dispatch_accounting(ctx):
    """every frame handed to dispatch is queued for a worker or counted as dropped - nothing is discarded on the way (shared with C18.R3):
    a frame dispatch throws away is analysed by the sequential mode and missing from the parallel result"""
    from ..engine import report as R
    from . import C18
    C18.rule_R3(R.Retag(ctx, "C18."))


def rule_pool_construction(ctx):
    """R4: the worker pool is the analyzer's configuration moved to other threads: wherever a pool is built (`init_pool`, or on demand
    in `process_parallel`), the parameters that have a like-named field in the analyzer are passed from that field - a pool built with
    `None` for the filter, or with another capacity, analyses different packets than the sequential analyzer configured the same way"""
    P = ctx.program
    n = 0
    for b in sorted(P.bodies.values(), key=lambda x: x.path):
        if not b.crate.startswith("huginn_net_") or b.crate == "huginn_net_db":
            continue
        S = None
        for blk, t in b.calls():
            nm = callee_of(t)
            if not (nm.endswith("WorkerPool::new") and "::parallel::" in nm):
                continue
            cal = P.bodies.get(nm)
            if cal is None:
                continue
            S = S or T.Slicer(b, P)
            a = Q.call_args(b, S, blk, t)
            names = [cal.local_name(i + 1) for i in range(cal.arg_count)]
            n += 1
            for pname in ("filter_config", "max_connections"):
                if pname not in names:
                    continue
                arg = a[names.index(pname)]
                from_field = any(x[0] == "field" and x[2] == pname and any(y[0] == "param" and y[1] == 0 for y in T.walk(x[1])) for x in T.walk(arg))
                ctx.check(from_field, "R4", "%s:pool:%s:%s" % (b.crate.replace("huginn_net_", ""), T.short(b.path).split("::")[-1], pname),
                          "WorkerPool::new(.., %s: self.%s)" % (pname, pname),
                          "%s builds the worker pool with %s = %s instead of self.%s: the pool's workers are configured differently from the sequential analyzer"
                          % (T.short(b.path), pname, T.pp(T.strip(arg))[:50], pname), ctx.loc(b, blk))
    ctx.floor("R4", "worker pool construction sites", n, 4)


def rule_capture_loops(ctx):
    """R5: the sequential analyzer looks at every packet of the capture, as the pool's workers do: its capture loop ends only with the
    source, the cancel signal or a closed result channel - not with a packet it rejects (shared rule _workers.capture_loop_exits)"""
    from . import _workers as W
    W.capture_loop_exits(ctx, ctx.program, "R5")


def run(ctx):
    rule_capture_loops(ctx)
    rule_pool_construction(ctx)
    rule_dispatch_accounting(ctx)
    rule_dispatch_identity(ctx)
    rule_uptime_keys(ctx)
    rule_R1(ctx)
    rule_workers(ctx)
    rule_R6(ctx)
